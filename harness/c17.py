"""C17 — the certificate store is bounded and never serves a certificate for other names
(mitmproxy/certs.py: CertStore.get_cert / add_cert / asterisk_forms / expire / STORE_CAP)."""
import ipaddress, itertools
from common.check import PropertyCheck, hx, unhx
from cryptography import x509
from mitmproxy import certs

# ---- the name universe -------------------------------------------------------------------------
LONG = "l" * 60 + ".example.com"          # >= 64 characters: dummy_cert leaves the CN out of the subject
LONG2 = "www." + "m" * 59 + ".other.org"
DNS = ["example.com", "www.example.com", "a.www.example.com", "other.org", "com", "", ".example.com", "*.example.com",
       LONG, LONG2, "WWW.Example.com"]
IPS = ["1.2.3.4", "::1"]
# fixed pool of custom certificates: cid -> (cn, [(kind, value)])    kind 0 = DNSName, 1 = IPAddress
CUSTOM = [
    ("example.com", [(0, "example.com"), (0, "www.example.com")]),
    ("*.example.com", [(0, "*.example.com")]),
    (None, [(0, "other.org"), (1, "1.2.3.4")]),
    ("wild", []),
    (None, [(0, "")]),
    ("com", [(0, "*.com")]),
]
REG_NAMES = ["*." + LONG2.split(".", 1)[1], LONG, "*", "*.example.com", "*.www.example.com", "*.com", "example.com", "www.example.com", "", "other.org",
             "1.2.3.4", "*.org", "a.www.example.com"]


def san_obj(kind, val):
    return x509.DNSName(val) if kind == 0 else x509.IPAddress(ipaddress.ip_address(val))


def san_view(gn):
    return [0 if isinstance(gn, x509.DNSName) else 1, str(gn.value)]


class FakeName:
    def __init__(self, value): self.value = value


def cert_cn(commonname):
    """what dummy_cert puts into the subject: the CN only if it is non-empty and shorter than 64 characters"""
    return commonname if commonname is not None and 0 < len(commonname) < 64 else None


class FakeCert:
    """stand-in for certs.Cert in the stubbed runs: identity equality, cn + altnames only; like the real dummy_cert
    it leaves a CN of 64 or more characters out of the subject"""
    def __init__(self, cn, sans, generated=False, organization=None, crl_url=None):
        self.cn = cert_cn(cn) if generated else cn
        self.altnames = x509.GeneralNames(sans) if generated else list(sans)
        self.organization = organization
        self.crl_distribution_points = [crl_url] if crl_url else []


def wild_ok(key: str, name: str) -> bool:
    """the store's wildcard rule, stated independently of asterisk_forms: the key is the name itself, or `*` followed
    by a suffix of the name that starts at one of its dots"""
    return key == name or (key.startswith("*.") and name.endswith(key[1:]))


def fld(b):  # one name as a protocol field
    return "none" if b is None else hx(b.encode())


def lst(items):
    return ",".join(items) if items else "_"


class Check(PropertyCheck):
    prop = "C17"
    design_ref = "§5 C17"
    level_text = ("Lean theorems generated_le_cap(+_storeCap), returned_is_custom_matching_or_generated_exact, "
                  "same_request_same_cert_while_cached, fifo_eviction, mem_asteriskForms_iff, and — new — "
                  "refines_abstract_fifo_cache (for every capacity and every history the store gives the same result for every "
                  "operation as an abstract 'registration table + FIFO cache of the last cap generated certificates keyed by "
                  "(cn, sans)', and stays related to it), its corollaries cache_bounded_via_refinement and "
                  "dict_is_cache_and_registrations, and first_registered_name_wins (lookup order: CN forms, SAN forms in "
                  "request order, '*', only then the generated key). All by invariant induction over ALL operation histories; "
                  "STORE_CAP is re-read from the code on every run; the model is tied to the real CertStore by differential "
                  "histories (stubbed dummy_cert and real signing) in which the model also predicts the subject CN, the SAN "
                  "list, the organization and the CRL distribution point of every generated certificate returned. New: "
                  "organization and crl_url are part of the modelled request and certificate (Entry.org/crl, Op.get … org crl): "
                  "generated_carries_org_of_generating_request (a fresh certificate carries this call's organization/crl_url, a "
                  "cached one those of the get_cert of the history that generated it — they are not part of the key), and "
                  "same_request_same_cert_while_cached now quantifies over the organization/crl_url of the repeated request. Owner "
                  "round 6: same_request_same_cert_unrelated_registrations — the repeat clause also with add_cert calls in between, "
                  "provided none of their registered names is a potential key of the request (the form the statement and the "
                  "oracle use; a registration under a matching name may take the request over, first_registered_name_wins).")
    level_note = ("trusted: Lean kernel; the model/implementation tie is differential (random + directed histories over a "
                  "13-name universe incl. the empty name and names of 64+ characters, >STORE_CAP distinct requests); dummy_cert is "
                  "a parameter of the model except for its subject rule (subjectCn: CN only if non-empty and < 64 characters) "
                  "and 'SANs = the requested list', which the model predicts and the tie compares on real-signing histories — "
                  "not proved about the real dummy_cert (likewise `organization` -> subject O and `if crl_url:` -> CRL distribution point, "
                  "transcribed as Entry.org / certCrl and compared on every returned generated certificate); whether it raises on an "
                  "empty CN is probed on every run; the oracle takes 'its fixed capacity' from the implementation's STORE_CAP attribute (a change of the constant "
                  "alone is noticed by the regenerated Gen table and the _storeCap corollary, not by the oracle); names are ASCII; "
                  "add_cert is exercised with custom "
                  "(non-generated) entries only. Lenient branches of the oracle (each with a near-miss in known_selftest, run "
                  "from setup): (1) get_cert raising is excused only for real signing + empty CN + the probe saw dummy_cert "
                  "raise; (2) the subject may lack the CN only when the requested CN is empty or has 64+ characters (SANs are "
                  "never excused); (3) a repeated request may change its answer only if a registration under a name matching "
                  "that request happened in between (before the audit: after ANY add_cert) or the entry was evicted; (4) a "
                  "custom answer needs a registration of that certificate under a matching name at some earlier time (the "
                  "statement does not say 'latest'); (5) asterisk_forms cases: oracle checks forms are allowed, equality is the tie.")
    technique = "Lean 4 proof (invariants over operation histories) + differential model-vs-code correspondence + STORE_CAP translator"
    rule = ("a case is one history (<=320 ops) of get_cert / add_cert over 13 names (incl. the empty name, upper case and two "
            "names of >= 64 characters, whose CN dummy_cert leaves out of the subject) x {CN, DNS SAN, IP SAN}, sans passed as "
            "list / GeneralNames / tuple / generator, organization and crl_url given or not, and 6 custom "
            "certificates registered under exact, wildcard, '*' and empty names; shapes: random mix, churn (more distinct "
            "requests than STORE_CAP, then re-requests of evicted and cached names), registration between repeats; "
            "distinct = distinct history; non-trivial = at least one generated and one repeated request.")
    budget = {"quick": 700, "thorough": 12000}
    time_budget = {"quick": 20, "thorough": 420}
    fingerprints = ["mitmproxy.certs:CertStore.get_cert", "mitmproxy.certs:CertStore.add_cert",
                    "mitmproxy.certs:CertStore.asterisk_forms", "mitmproxy.certs:CertStore.expire",
                    "mitmproxy.certs:CertStoreEntry", "mitmproxy.certs:_fix_legacy_sans"]
    trusted_base = ["cryptography: x509.GeneralNames equality/hash (key of generated entries), certificate signing",
                    "Python dict semantics for CertStore.certs"]
    parallel = False

    _ca = None
    _empty_cn_raises = False

    # ---- translator: STORE_CAP --------------------------------------------------------------
    def translate(self):
        cap = certs.CertStore.STORE_CAP
        assert isinstance(cap, int) and cap >= 0
        return {"MitmVerif/Gen/C17.lean":
                "-- generated by harness/c17.py from mitmproxy/certs.py (CertStore.STORE_CAP); do not edit\n"
                "namespace MitmVerif.Gen.C17\n\n"
                f"def storeCap : Nat := {cap}\n\nend MitmVerif.Gen.C17\n"}

    def setup(self, tier):
        self.known_selftest()
        if Check._ca is None:
            key, ca = certs.create_ca("verif", "verif", 2048)
            Check._ca = (key, certs.Cert(ca), certs.dummy_crl(key, ca))
            key, ca, _ = Check._ca
            try:
                certs.dummy_cert(key, ca._cert, "", [])
                Check._empty_cn_raises = False
            except ValueError:
                Check._empty_cn_raises = True
            Check._real_custom = [
                certs.CertStoreEntry(certs.dummy_cert(key, ca._cert, cn, [san_obj(k, v) for k, v in sans]), key, None, [])
                for cn, sans in CUSTOM]

    # ---- generator ----------------------------------------------------------------------------
    def _req(self, rng, wide=False):
        cn = rng.weighted([(2, None), (1, ""), (7, rng.pick(DNS + IPS))])
        n = rng.weighted([(2, 0), (5, 1), (3, 2), (1, 3)])
        sans = []
        for _ in range(n):
            if rng.chance(0.2):
                sans.append([1, rng.pick(IPS)])
            else:
                sans.append([0, rng.pick(DNS)])
        r = {"op": "get", "cn": cn, "sans": sans}
        if rng.chance(0.4): r["sf"] = rng.randint(1, 3)        # sans passed as GeneralNames / tuple / generator
        if rng.chance(0.2): r["org"] = rng.pick(["Org", "Other Org"])
        if rng.chance(0.2): r["crl"] = "http://crl.example/ca.crl"
        return r

    def _add(self, rng):
        names = [rng.pick(REG_NAMES) for _ in range(rng.weighted([(3, 0), (4, 1), (2, 2)]))]
        return {"op": "add", "cid": rng.randrange(len(CUSTOM)), "names": names}

    def _distinct_reqs(self, rng, n):
        """n pairwise different requests (different (cn, sans) keys)"""
        seen, out = set(), []
        pool = [None] + DNS + IPS
        while len(out) < n:
            r = self._req(rng)
            if rng.chance(0.5):   # widen: ordered SAN lists up to 3 make > 1000 distinct keys
                r["sans"] = [[0, rng.pick(DNS)] for _ in range(rng.randint(1, 3))]
            k = (r["cn"], tuple(map(tuple, r["sans"])))
            if k in seen: continue
            seen.add(k); out.append(r)
        return out

    def generate(self, rng, tier):
        cap = certs.CertStore.STORE_CAP
        for n in DNS + IPS + REG_NAMES + ["a..b", ".", "..", "a.b.c.d.e", "x"]:
            for kind in (0, 1):
                if kind == 0 or n in IPS:
                    yield {"forms": [kind, n]}
        for _ in range(60):
            yield {"forms": [0, "".join(rng.pick("ab.*") for _ in range(rng.randint(0, 9)))]}
        while True:
            shape = rng.weighted([(4, "mix"), (3, "churn"), (2, "reg"), (1, "small")])
            real = rng.chance(0.35)
            ops = []
            if shape == "mix":
                pool = [self._req(rng) for _ in range(rng.randint(3, 40))]
                for _ in range(rng.randint(20, 300)):
                    x = rng.random()
                    if x < 0.12: ops.append(self._add(rng))
                    elif x < 0.75: ops.append(dict(rng.pick(pool)))
                    else: ops.append(self._req(rng))
            elif shape == "churn":
                n = min(300, cap + rng.randint(1, 40))
                reqs = self._distinct_reqs(rng, n)
                if rng.chance(0.5): ops += [self._add(rng) for _ in range(rng.randint(1, 4))]
                ops += reqs
                for _ in range(rng.randint(5, 20)):        # evicted ones, cached ones, the boundary
                    i = rng.weighted([(3, rng.randrange(n)), (2, n - cap - 1 if n > cap else 0), (2, max(0, n - cap)), (1, n - 1)])
                    ops.append(dict(reqs[i]))
                    if rng.chance(0.1): ops.append(self._add(rng))
            elif shape == "reg":
                for _ in range(rng.randint(5, 60)):
                    r = self._req(rng)
                    ops.append(r)
                    if rng.chance(0.6): ops.append(self._add(rng))
                    ops.append(dict(r))
            else:
                ops = [self._add(rng) if rng.chance(0.3) else self._req(rng) for _ in range(rng.randint(1, 8))]
            yield {"real": int(real), "ops": ops[:320]}

    # ---- the real code ------------------------------------------------------------------------
    def impl(self, case):
        if "forms" in case:
            kind, n = case["forms"]
            return {"forms": certs.CertStore.asterisk_forms(n if kind == 0 and case.get("as_str", 1) else san_obj(kind, n))}
        self.setup("quick")
        key, ca, crl = Check._ca
        real = bool(case["real"])
        cs = certs.CertStore(key, ca, None, crl, certs.DHParams(b""))
        keep, label = [], {}
        gen_log = []          # (cn, sans) handed to dummy_cert, in call order

        def stub(privkey, cacert, commonname, sans, organization=None, crl_url=None):
            gen_log.append((commonname, [san_view(s) for s in sans]))
            return FakeCert(commonname, list(sans), generated=True, organization=organization, crl_url=crl_url)

        if real:
            customs = Check._real_custom
        else:
            customs = [certs.CertStoreEntry(FakeCert(cn, [FakeName(v) for _, v in sans]), key, None, []) for cn, sans in CUSTOM]
        for i, e in enumerate(customs):
            label[id(e)] = ("c", i)
        saved = certs.dummy_cert
        if not real:
            certs.dummy_cert = stub
        out = []
        ngenerated = 0
        try:
            for op in case["ops"]:
                if op["op"] == "add":
                    cs.add_cert(customs[op["cid"]], *op["names"])
                    r = {"r": "ok"}
                else:
                    sans = [san_obj(k, v) for k, v in op["sans"]]
                    sf = op.get("sf", 0)
                    sans = x509.GeneralNames(sans) if sf == 1 else tuple(sans) if sf == 2 else iter(sans) if sf == 3 else sans
                    try:
                        e = cs.get_cert(op["cn"], sans, op.get("org"), op.get("crl"))
                    except ValueError:
                        # cryptography refuses an empty CN attribute (only reachable with the real dummy_cert)
                        e = None
                    if e is None:
                        r = {"r": "err"}
                    else:
                        fresh = id(e) not in label
                        if fresh:
                            label[id(e)] = ("g", ngenerated); ngenerated += 1; keep.append(e)
                        kind, n = label[id(e)]
                        r = {"r": kind, "id": n, "fresh": int(fresh)}
                        if kind == "g":
                            c = e.cert
                            r["cert_cn"] = c.cn
                            r["cert_sans"] = [san_view(s) for s in c.altnames]
                            r["cert_org"] = c.organization
                            r["cert_crl"] = (c.crl_distribution_points or [None])[0]
                r["qlen"] = len(cs.expire_queue)
                r["ngen"] = sum(1 for k in cs.certs if isinstance(k, tuple))
                r["ndist"] = len({id(v) for v in cs.certs.values() if label.get(id(v), ("g",))[0] == "g"})
                out.append(r)
            dump = []
            for k, v in cs.certs.items():
                lab = label.get(id(v))
                lab = "?" if lab is None else f"{lab[0]}{lab[1]}"
                if isinstance(k, tuple):
                    dump.append("g:" + fld(k[0]) + ":" + lst([f"{a}:{hx(b.encode())}" for a, b in map(san_view, k[1])]) + "=" + lab)
                else:
                    dump.append("n:" + hx(k.encode()) + "=" + lab)
            queue = [label.get(id(e), ("?", -1))[1] for e in cs.expire_queue]
        finally:
            certs.dummy_cert = saved
        return {"ops": out, "dump": sorted(dump), "queue": queue, "cap": cs.STORE_CAP}

    # ---- the property, as a predicate over what the real store did -----------------------------
    def oracle(self, case, obs):
        if "__exc__" in obs: return ["harness could not drive CertStore: " + obs["__exc__"]]
        if "forms" in case:
            # the store's wildcard rule: every form is the name or `*` + a suffix of the name starting at a dot
            kind, n = case["forms"]
            bad = [f for f in obs["forms"] if not (wild_ok(f, n) if kind == 0 else f == n)]
            return [f"asterisk_forms({n!r}) contains {bad}"] if bad else []
        cap = obs["cap"]
        fails = []
        registered = {}        # cid -> set of names it was registered under so far
        last = {}              # request key -> (kind, id, generation count when returned, #adds when returned)
        gen_index = {}         # generated id -> how many had been generated when it was created (1-based)
        ngenerated = nadds = 0
        add_log = []           # (running number of the add_cert, the names it registered)
        for i, (op, r) in enumerate(zip(case["ops"], obs["ops"])):
            # "the store keeps at most its fixed capacity of generated certificates"
            if r["qlen"] > cap or r["ngen"] > cap or r["ndist"] > cap:
                fails.append(f"op {i}: more than STORE_CAP={cap} generated certificates kept: queue={r['qlen']} keys={r['ngen']} entries={r['ndist']}")
                break
            if op["op"] == "add":
                cn, sans = CUSTOM[op["cid"]]
                reg = registered.setdefault(op["cid"], set())
                if cn: reg.add(cn)
                reg.update(v for _, v in sans); reg.update(op["names"])
                nadds += 1
                add_log.append((nadds, ({cn} if cn else set()) | {v for _, v in sans} | set(op["names"])))
                continue
            if r["r"] == "err":
                if not (case["real"] and op["cn"] == "" and Check._empty_cn_raises):
                    fails.append(f"op {i}: get_cert raised")
                continue
            key = (op["cn"], tuple(map(tuple, op["sans"])))
            wanted = ([op["cn"]] if op["cn"] else []) + [v for k, v in op["sans"] if k == 0]
            exact = [v for k, v in op["sans"] if k != 0]
            matches = lambda names: any(k == "*" or any(wild_ok(k, n) for n in wanted) or k in exact for k in names)
            if r["r"] == "c":
                # "a registered custom certificate matching one of the requested names (exactly or by the store's wildcard rules)"
                regs = registered.get(r["id"], set())
                if not matches(regs):
                    fails.append(f"op {i}: custom certificate c{r['id']} (registered as {sorted(regs)}) returned for {op['cn']!r} {op['sans']}")
            else:
                # "or a generated one for exactly the requested names"
                if r["fresh"]:
                    ngenerated += 1; gen_index[r["id"]] = ngenerated
                want_cn = cert_cn(op["cn"])    # a CN of 64+ characters cannot be carried by the subject; the SANs must still be exact
                if r["cert_cn"] != want_cn or r["cert_sans"] != [list(s) for s in op["sans"]]:
                    fails.append(f"op {i}: generated certificate carries cn={r['cert_cn']!r} sans={r['cert_sans']} for request {op['cn']!r} {op['sans']}")
            # "repeated requests for the same names return the same certificate while it is cached"
            if key in last:
                kind0, id0, adds0 = last[key]
                cached = kind0 == "c" or ngenerated - (1 if r["r"] == "g" and r["fresh"] else 0) < gen_index[id0] + cap
                # excused only by a registration in between under a name that matches THIS request (it may legitimately
                # take over); any other add_cert must not disturb the answer
                taken_over = any(n > adds0 and matches(names) for n, names in add_log)
                if not taken_over and cached and (kind0, id0) != (r["r"], r["id"]):
                    fails.append(f"op {i}: repeated request {op['cn']!r} {op['sans']} returned {r['r']}{r['id']} instead of the cached {kind0}{id0}")
            last[key] = (r["r"], r["id"], nadds)
            if fails: break
        return fails

    def known_selftest(self):
        """doctored observations just inside / outside every lenient branch of the oracle (independent of the tree)"""
        def g(i, fresh, cn, sans, q): return {"r": "g", "id": i, "fresh": fresh, "qlen": q, "ngen": q, "ndist": q, "cert_cn": cn, "cert_sans": sans}
        def run(real, ops, rs): return self.oracle({"real": real, "ops": ops}, {"cap": 100, "ops": rs})
        get = lambda cn, sans: {"op": "get", "cn": cn, "sans": sans}
        S = [[0, "www.example.com"]]
        # (a) get_cert raising: excused only for the real dummy_cert, an empty CN, and only if the probe saw it raise
        err = {"r": "err", "qlen": 0, "ngen": 0, "ndist": 0}
        saved = Check._empty_cn_raises
        try:
            Check._empty_cn_raises = True
            assert run(1, [get("", S)], [err]) == []
            assert run(0, [get("", S)], [err]) and run(1, [get("x", S)], [err]) and run(1, [get(None, S)], [err])
            Check._empty_cn_raises = False
            assert run(1, [get("", S)], [err]), "not excused when the probe says dummy_cert accepts an empty CN"
        finally:
            Check._empty_cn_raises = saved
        # (b) the subject may lack the CN only if it is empty or has 64+ characters; the SANs are never excused
        assert run(1, [get(LONG, S)], [g(0, 1, None, S, 1)]) == [] and run(1, [get("", S)], [g(0, 1, None, S, 1)]) == []
        assert run(1, [get("a" * 63, S)], [g(0, 1, None, S, 1)]), "near miss: 63 characters"
        assert run(1, [get(LONG, S)], [g(0, 1, LONG, S, 1)]) and run(1, [get(LONG, S)], [g(0, 1, None, [[0, "example.com"]], 1)])
        assert run(0, [get("example.com", S)], [g(0, 1, "example.com", S + S, 1)]), "extra SAN"
        # (c) repeated request: only a registration matching the request in between excuses a different answer
        a_rel = {"op": "add", "cid": 3, "names": ["*.example.com"]}
        a_unrel = {"op": "add", "cid": 3, "names": ["*.org"]}
        ok = {"r": "ok", "qlen": 1, "ngen": 1, "ndist": 1}
        r0, r1 = g(0, 1, "example.com", S, 1), g(1, 1, "example.com", S, 2)
        assert run(0, [get("example.com", S), a_rel, get("example.com", S)], [r0, ok, {"r": "c", "id": 3, "qlen": 1, "ngen": 1, "ndist": 1}]) == []
        assert run(0, [get("example.com", S), a_unrel, get("example.com", S)], [r0, ok, r1]), "near miss: unrelated add_cert in between"
        assert run(0, [get("example.com", S), get("example.com", S)], [r0, r1]), "regenerated while cached"
        assert run(0, [get("example.com", S), a_unrel, get("example.com", S)], [r0, ok, {"r": "c", "id": 3, "qlen": 1, "ngen": 1, "ndist": 1}]), \
            "custom certificate registered only under an unrelated name"
        # (d) the bound
        assert run(0, [get("example.com", S)], [g(0, 1, "example.com", S, 101)])

    # ---- the model ---------------------------------------------------------------------------
    @staticmethod
    def _sans_field(sans):
        return lst([f"{k}:{hx(v.encode())}" for k, v in sans])

    def model_lines(self, case):
        if "forms" in case:
            return [f"forms {case['forms'][0]} {hx(case['forms'][1].encode())}"]
        lines = [f"reset {certs.CertStore.STORE_CAP}"]
        for op in case["ops"]:
            if op["op"] == "add":
                cn, sans = CUSTOM[op["cid"]]
                lines.append(f"add {op['cid']} {fld(cn)} {self._sans_field(sans)} {lst([hx(n.encode()) for n in op['names']])}")
            else:
                gen_ok = 0 if (case["real"] and op["cn"] == "" and Check._empty_cn_raises) else 1
                lines.append(f"get {gen_ok} {fld(op['cn'])} {self._sans_field(op['sans'])} {fld(op.get('org'))} {fld(op.get('crl'))}")
        lines.append("dump")
        return lines

    def model_obs(self, case, replies):
        if "forms" in case: return replies[0]
        d = replies[-1].split(" ")
        return {"ops": replies[1:-1], "dump": sorted(x for x in d[1:] if x.startswith(("n:", "g:"))),
                "queue": d[0]}

    def impl_view(self, case, obs):
        if "__exc__" in obs: return obs
        if "forms" in case: return lst([hx(f.encode()) for f in obs["forms"]])
        out = []
        for r in obs["ops"]:
            if r["r"] == "ok": out.append(f"ok {r['qlen']} {r['ngen']}")
            elif r["r"] == "err": out.append(f"err {r['qlen']} {r['ngen']}")
            else:
                line = f"{r['r']} {r['id']} {r['fresh']} {r['qlen']} {r['ngen']}"
                if r["r"] == "g":     # what the returned certificate really carries; the model predicts it
                    line += f" {fld(r['cert_cn'])} {self._sans_field(r['cert_sans'])} {fld(r['cert_org'])} {fld(r['cert_crl'])}"
                out.append(line)
        return {"ops": out, "dump": obs["dump"], "queue": "q:" + lst([str(i) for i in obs["queue"]])}

    def classify(self, case, obs):
        if "__exc__" in obs: return None
        if "forms" in case: return ("forms", tuple(case["forms"])) if "." in case["forms"][1] else None
        gens = sum(1 for r in obs["ops"] if r.get("fresh"))
        rep = sum(1 for r in obs["ops"] if r["r"] in "cg" and not r.get("fresh"))
        return None if gens == 0 or rep == 0 else (case["real"], len(case["ops"]), hash(str(case["ops"])))

    def branches(self, case, obs):
        if "__exc__" in obs: return ["impl-raised"]
        if "forms" in case: return ["asterisk_forms"]
        out = ["real-signing" if case["real"] else "stub"]
        rs = obs["ops"]
        if any(r["r"] == "c" for r in rs): out.append("custom-hit")
        if any(r["r"] == "err" for r in rs): out.append("dummy_cert-raised")
        if any(op["op"] == "get" and op["cn"] is not None and len(op["cn"]) >= 64 and r.get("fresh") for op, r in zip(case["ops"], rs)):
            out.append("generated-with-long-cn")
        if any(op.get("sf") for op in case["ops"]): out.append("sans-as-other-iterable")
        if any(op.get("org") or op.get("crl") for op in case["ops"]): out.append("organization/crl-given")
        if any(r.get("fresh") for r in rs): out.append("generated")
        if sum(1 for r in rs if r.get("fresh")) > obs["cap"]: out.append("evicted")
        if any(r["r"] == "g" and not r["fresh"] for r in rs): out.append("cache-hit")
        seen = {}
        for op, r in zip(case["ops"], rs):
            if op["op"] == "get" and r["r"] == "g":
                k = (op["cn"], str(op["sans"]))
                if k in seen and seen[k] != r["id"]: out.append("regenerated-after-eviction"); break
                seen[k] = r["id"]
        return out

    def neighbours(self, case, rng):
        if "forms" in case: return
        ops = case["ops"]
        for i in range(len(ops)):
            yield {"real": case["real"], "ops": ops[:i] + ops[i + 1:]}
        for _ in range(50):
            i = rng.randrange(len(ops) + 1)
            yield {"real": case["real"], "ops": ops[:i] + [self._add(rng) if rng.chance(0.5) else self._req(rng)] + ops[i:]}

    def exhaustive(self, tier):
        # every history of <= 3 ops over a tiny alphabet (covers lookup order and the empty name)
        reqs = [{"op": "get", "cn": cn, "sans": sans} for cn in (None, "", "www.example.com")
                for sans in ([], [[0, ""]], [[0, "www.example.com"]], [[1, "1.2.3.4"]])]
        adds = [{"op": "add", "cid": c, "names": n} for c in (0, 3, 4) for n in ([], [""], ["*"], ["*.example.com"])]
        alpha = reqs + adds
        for n in (1, 2, 3):
            for t in itertools.product(alpha, repeat=n):
                yield {"real": 0, "ops": [dict(x) for x in t]}
