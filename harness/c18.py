"""C18 — ALPN negotiation with the client is consistent with offers and upstream.

Anchors: mitmproxy/addons/tlsconfig.py alpn_select_callback, TlsConfig.tls_start_client (AppData, secure-web-proxy
override), TlsConfig.tls_start_server (upstream offers), mitmproxy/proxy/layers/tls.py HTTP_ALPNS / HTTP1_ALPNS.

(T) translate(): the real alpn_select_callback is CALLED on the whole class domain
      client_alpn override in {None, b"http/1.1" (secure web proxy)} x server_alpn in {None, b"", 6 classes} x http2 in {off,on}
      x every offer list of length <= 3 without repetition over the 6 classes  (32 x 157 = 5 024 calls)
    (classes: the five HTTP_ALPNS in their order, and one unknown protocol) and the results are written, one base-9
    number per configuration, into lean/MitmVerif/Gen/C18.lean.  Props/C18.lean proves the property theorems over that
    table by `decide +kernel`, proves it equal to the hand model, and lifts to offer lists of any length.
(C) cb: the callback on random inputs (arbitrary byte strings, long lists, repetitions) vs. the compiled model;
    srv: TlsConfig.tls_start_server's upstream offers vs. the model; hs: real in-memory TLS handshakes against the
    SSL.Connection built by TlsConfig.tls_start_client (incl. the secure-web-proxy layer stack) vs. the model.
"""
import itertools, os
from common.check import PropertyCheck, hx, unhx
from common.paths import WORK

from OpenSSL import SSL
from mitmproxy.addons import tlsconfig
from mitmproxy.proxy.layers import tls as proxy_tls

UNKNOWN1, UNKNOWN2 = b"spdy/3", b"foo"
MAXLEN = 3
H2, H11 = b"h2", b"http/1.1"


def classes():
    return list(proxy_tls.HTTP_ALPNS) + [UNKNOWN1]


class _Conn:
    def __init__(self, d): self.d = d
    def get_app_data(self): return self.d


def call_cb(c, s, http2, offers):
    r = tlsconfig.alpn_select_callback(_Conn(tlsconfig.AppData(client_alpn=c, server_alpn=s, http2=http2)), list(offers))
    if r is SSL.NO_OVERLAPPING_PROTOCOLS: return None
    if not isinstance(r, bytes): raise TypeError("callback returned %r" % (r,))
    return r


def lean_bytes(b): return "[" + ", ".join(str(x) for x in b) + "]"


def opt_hex(v): return "none" if v is None else hx(v)
def opt_unhex(s): return None if s == "none" else unhx(s)


def tls_addon():
    """the one TlsConfig + options of this process (mitmproxy.ctx is global: exactly one taddons context may be live)"""
    ta, tctx, _, _ = stack_addons()
    return ta, tctx


def make_ctx(tctx, offers, upstream, swp, client_alpn=None):
    from mitmproxy import connection
    from mitmproxy.proxy import context
    from mitmproxy.proxy.layers import modes
    from mitmproxy.connection import ConnectionState
    c = connection.Client(peername=("127.0.0.1", 1234), sockname=("127.0.0.1", 8080), timestamp_start=1, state=ConnectionState.OPEN)
    ctx = context.Context(c, tctx.options)
    ctx.server = connection.Server(address=("example.mitmproxy.org", 443))
    ctx.server.alpn = upstream
    c.alpn = client_alpn
    c.sni = "example.mitmproxy.org"
    c.alpn_offers = list(offers)
    if swp: ctx.layers = [modes.HttpProxy(ctx), 123]
    return ctx


def handshake(offers, upstream, http2, swp):
    from mitmproxy import tls
    ta, tctx = tls_addon()
    tctx.options.http2 = http2
    ctx = make_ctx(tctx, offers, upstream, swp)
    ts = tls.TlsData(ctx.client, context=ctx)
    ta.tls_start_client(ts)
    srv = ts.ssl_conn
    cctx = SSL.Context(SSL.TLS_CLIENT_METHOD)
    if offers: cctx.set_alpn_protos(list(offers))
    cli = SSL.Connection(cctx)
    cli.set_connect_state()
    ok = False
    for _ in range(20):
        done = 0
        for a, b in ((cli, srv), (srv, cli)):
            try:
                a.do_handshake(); done += 1
            except SSL.WantReadError:
                pass
            try:
                b.bio_write(a.bio_read(65536))
            except SSL.WantReadError:
                pass
        if done == 2: ok = True; break
    ad = srv.get_app_data()
    return {"ok": ok, "client_side": hx(cli.get_alpn_proto_negotiated()), "proxy_side": hx(srv.get_alpn_proto_negotiated()),
            "app_client_alpn": opt_hex(ad["client_alpn"]), "app_server_alpn": opt_hex(ad["server_alpn"]), "app_http2": bool(ad["http2"])}


def server_offers(client_offers, preset, http2):
    from mitmproxy import tls, connection
    ta, tctx = tls_addon()
    tctx.options.http2 = http2
    ctx = make_ctx(tctx, client_offers, None, False)
    ctx.server.alpn_offers = list(preset)
    ts = tls.TlsData(ctx.server, context=ctx)
    ta.tls_start_server(ts)
    return [hx(x) for x in ctx.server.alpn_offers]

_STACK = None


def stack_addons():
    """TlsConfig + Proxyserver (owns connection_strategy) for the layer-stack scenarios, one per process"""
    global _STACK
    if _STACK is None:
        from mitmproxy.test import taddons
        from mitmproxy.addons import proxyserver
        from common.paths import REPO
        certs = os.path.join(REPO, "test", "mitmproxy", "net", "data", "verificationcerts")
        from mitmproxy.addons import next_layer
        ta = tlsconfig.TlsConfig()
        nl = next_layer.NextLayer()
        cm = taddons.context(proxyserver.Proxyserver(), nl, ta)
        tctx = cm.__enter__()
        tctx.configure(ta, confdir=os.path.join(WORK, "c18-conf"),
                       ssl_verify_upstream_trusted_ca=os.path.join(certs, "trusted-root.crt"))
        nl.configure(["ignore_hosts", "allow_hosts", "tcp_hosts", "udp_hosts"])
        _STACK = (ta, tctx, cm, certs)
        _STACK_NL.append(nl)
    return _STACK


_STACK_NL = []


class _Peer:
    """in-memory TLS endpoint (CPython ssl module): the real client / the real upstream server"""
    def __init__(self, server_side, alpn, certs):
        import ssl
        self.ssl = ssl
        self.inc, self.out = ssl.MemoryBIO(), ssl.MemoryBIO()
        if server_side:
            self.ctx = ssl.SSLContext(ssl.PROTOCOL_TLS_SERVER)
            self.ctx.load_cert_chain(certfile=os.path.join(certs, "trusted-leaf.crt"), keyfile=os.path.join(certs, "trusted-leaf.key"))
        else:
            self.ctx = ssl.SSLContext(ssl.PROTOCOL_TLS_CLIENT)
            self.ctx.check_hostname = False
            self.ctx.verify_mode = ssl.CERT_NONE
        if alpn:
            self.ctx.set_alpn_protocols(alpn)
        self.obj = self.ctx.wrap_bio(self.inc, self.out, server_side=server_side,
                                     server_hostname=None if server_side else "example.mitmproxy.org")
        self.done = False
        self.error = None

    def step(self, data=b""):
        if data: self.inc.write(data)
        if not self.done and self.error is None:
            try:
                self.obj.do_handshake(); self.done = True
            except self.ssl.SSLWantReadError:
                pass
            except self.ssl.SSLError as e:
                self.error = type(e).__name__
        return self.out.read()


def prefs_field(kind):
    v = UPSTREAM_KINDS[kind]
    return "noalpn" if v is None else ",".join(hx(x.encode()) for x in v)


UPSTREAM_KINDS = {"h2": ["h2", "http/1.1"], "http/1.1": ["http/1.1"], "noalpn": None, "foreign": ["zzz-not-offered"],
                  "h1first": ["http/1.1", "h2"], "unknown1": ["spdy/3", "h2"]}


def run_stack(offers, upstream_kind, http2, eager):
    """real ServerTLSLayer > ClientTLSLayer with the real TlsConfig hooks, a real TLS client and a real TLS upstream server.
    eager: mitmproxy completes TLS with upstream before answering the client (server.alpn comes from the real handshake)."""
    from mitmproxy import connection
    from mitmproxy.proxy import commands, context, events, layer
    from mitmproxy.proxy.layers import tls
    ta, tctx, _, certs = stack_addons()
    tctx.options.http2 = http2
    tctx.options.connection_strategy = "eager" if eager else "lazy"

    class Sink(layer.Layer):
        def _handle_event(self, event):
            yield from ()

    ctx = context.Context(connection.Client(peername=("client", 1234), sockname=("127.0.0.1", 8080), timestamp_start=1.0,
                                            state=connection.ConnectionState.OPEN), tctx.options)
    ctx.server.address = ("example.mitmproxy.org", 443)
    ctx.server.tls = True
    server_layer = tls.ServerTLSLayer(ctx)
    client_layer = tls.ClientTLSLayer(ctx)
    server_layer.child_layer = client_layer
    client_layer.child_layer = Sink(ctx)
    client_peer = _Peer(False, [o.decode("ascii") for o in offers], certs)
    upstream_peer = _Peer(True, UPSTREAM_KINDS[upstream_kind], certs)
    hooks = {"tls_clienthello": ta.tls_clienthello, "tls_start_client": ta.tls_start_client, "tls_start_server": ta.tls_start_server}
    queue = [events.Start()]
    opened = []

    def pump():
        steps = 0
        while queue:
            steps += 1
            if steps > 500: raise RuntimeError("stack: step limit")
            ev = queue.pop(0)
            for cmd in list(server_layer.handle_event(ev)):
                if isinstance(cmd, commands.StartHook):
                    fn = hooks.get(cmd.name)
                    if fn: fn(*cmd.args())
                    queue.append(events.HookCompleted(cmd))
                elif isinstance(cmd, commands.OpenConnection):
                    cmd.connection.state = connection.ConnectionState.OPEN
                    opened.append(cmd.connection)
                    queue.append(events.OpenConnectionCompleted(cmd, None))
                elif isinstance(cmd, commands.SendData):
                    if cmd.connection is ctx.client:
                        reply = client_peer.step(cmd.data)
                        if reply: queue.append(events.DataReceived(ctx.client, reply))
                    else:
                        reply = upstream_peer.step(cmd.data)
                        if reply: queue.append(events.DataReceived(ctx.server, reply))
    pump()
    hello = client_peer.step()
    queue.append(events.DataReceived(ctx.client, hello))
    pump()
    up = upstream_peer.obj.selected_alpn_protocol() if upstream_peer.done else None
    return {"client_done": client_peer.done, "upstream_done": upstream_peer.done,
            "client_err": client_peer.error, "upstream_err": upstream_peer.error,
            "client_got": opt_hex((client_peer.obj.selected_alpn_protocol() or "").encode()) if client_peer.done else "none",
            "upstream_got": opt_hex((up or "").encode()) if upstream_peer.done else "none",
            "proxy_client_alpn": opt_hex(ctx.client.alpn), "proxy_server_alpn": opt_hex(ctx.server.alpn),
            "upstream_offers": [hx(x) for x in (ctx.server.alpn_offers or [])]}

def run_nested(outer_offers, inner_offers, upstream_kind, http2, eager):
    """nested client TLS through the real layer stack: modes.HttpProxy (secure web proxy: the client speaks TLS to the proxy)
    -> CONNECT -> inner TLS to the origin, with the real NextLayer + TlsConfig addons answering every hook.
    The SAME Client object carries the outer session's attributes when the inner ClientTLSLayer starts."""
    from mitmproxy import connection
    from mitmproxy.proxy import commands, context, events
    from mitmproxy.proxy.layers import modes
    from mitmproxy.proxy.mode_specs import ProxyMode
    ta, tctx, _, certs = stack_addons()
    nl = _STACK_NL[0]
    tctx.options.http2 = http2
    tctx.options.connection_strategy = "eager" if eager else "lazy"
    client = connection.Client(peername=("127.0.0.1", 51234), sockname=("127.0.0.1", 8080), timestamp_start=1.0,
                               state=connection.ConnectionState.OPEN)
    client.proxy_mode = ProxyMode.parse("regular")
    ctx = context.Context(client, tctx.options)
    top = modes.HttpProxy(ctx)
    outer = _Peer(False, [o.decode("ascii") for o in outer_offers], certs)
    inner = _Peer(False, [o.decode("ascii") for o in inner_offers], certs)
    upstream = _Peer(True, UPSTREAM_KINDS[upstream_kind], certs)
    servers, info = [], {"layers_at_start_client": [], "pins": [], "appdata": []}

    def dispatch(event):
        queue = [event]; steps = 0
        while queue:
            steps += 1
            if steps > 2000: raise RuntimeError("nested: step limit")
            ev = queue.pop(0)
            for cmd in list(top.handle_event(ev)):
                if isinstance(cmd, commands.StartHook):
                    if cmd.name == "tls_start_client":
                        info["layers_at_start_client"].append([type(l).__name__ for l in cmd.args()[0].context.layers])   # the (forked) context of THIS handshake
                        info["pins"].append(opt_hex(client.alpn))
                    for a in (nl, ta):
                        fn = getattr(a, cmd.name, None)
                        if fn: fn(*cmd.args())
                    if cmd.name == "tls_start_client":
                        info["appdata"].append(opt_hex(cmd.args()[0].ssl_conn.get_app_data()["client_alpn"]))
                    queue.append(events.HookCompleted(cmd))
                elif isinstance(cmd, commands.OpenConnection):
                    cmd.connection.state = connection.ConnectionState.OPEN
                    cmd.connection.timestamp_start = 2.0
                    cmd.connection.peername = ("192.0.2.1", 443)
                    servers.append(cmd.connection)
                    queue.append(events.OpenConnectionCompleted(cmd, None))
                elif isinstance(cmd, commands.SendData):
                    (outer if cmd.connection is client else upstream).inc.write(cmd.data)

    state = {"plain": b"", "tunnel": False}

    def read_plain(peer):
        buf = b""
        while True:
            try:
                chunk = peer.obj.read(65535)
            except peer.ssl.SSLWantReadError:
                break
            except peer.ssl.SSLError:
                break
            if not chunk: break
            buf += chunk
        return buf

    def pump():
        for _ in range(60):
            moved = False
            out_data = outer.step()
            if outer.done:
                plain = read_plain(outer)
                if plain:
                    state["plain"] += plain
                    if state["tunnel"]:
                        inner.inc.write(plain); moved = True
                if state["tunnel"]:
                    data = inner.step()
                    if data:
                        outer.obj.write(data); moved = True
            data = out_data + outer.out.read()
            if data:
                dispatch(events.DataReceived(client, data)); moved = True
            if servers:
                data = upstream.step()
                if data:
                    dispatch(events.DataReceived(servers[-1], data)); moved = True
            if not moved: break

    dispatch(events.Start())
    pump()
    res = {"outer_done": outer.done, "outer_got": "none", "inner_done": False, "inner_got": "none", "upstream_done": False,
           "upstream_got": "none", "connect_ok": False, "layers": info["layers_at_start_client"], "pins": info["pins"], "appdata": info["appdata"],
           "upstream_offers": []}
    if not outer.done: return res
    res["outer_got"] = opt_hex((outer.obj.selected_alpn_protocol() or "").encode())
    if res["outer_got"] == hx(H2): return res        # the client would speak HTTP/2 to the proxy now; CONNECT over h2 is not driven
    outer.obj.write(b"CONNECT example.mitmproxy.org:443 HTTP/1.1\r\nHost: example.mitmproxy.org:443\r\n\r\n")
    pump()
    res["connect_ok"] = state["plain"].startswith(b"HTTP/1.1 200")
    if not res["connect_ok"]: return res
    state["tunnel"] = True
    pump()
    res["inner_done"], res["upstream_done"] = inner.done, upstream.done
    if inner.done: res["inner_got"] = opt_hex((inner.obj.selected_alpn_protocol() or "").encode())
    if upstream.done: res["upstream_got"] = opt_hex((upstream.obj.selected_alpn_protocol() or "").encode())
    res["layers"], res["pins"], res["appdata"] = info["layers_at_start_client"], info["pins"], info["appdata"]
    if servers: res["upstream_offers"] = [hx(x) for x in (servers[-1].alpn_offers or [])]
    return res

LAYER_KINDS = ["hp", "hup", "mode", "ctls", "stls", "http", "tcp"]
CLASS_KIND = {"HttpProxy": "hp", "HttpUpstreamProxy": "hup", "ClientTLSLayer": "ctls", "ServerTLSLayer": "stls", "HttpLayer": "http"}


def kinds_of(class_names):
    """kind codes of the real layer classes recorded at a tls_start_client call (first = the mode layer)"""
    return [CLASS_KIND.get(n, "mode" if i == 0 else "tcp") for i, n in enumerate(class_names)]


def run_layers(kinds, client_alpn):
    """the real TlsConfig.tls_start_client on a context whose layer list is built from real layer objects of the given
    kinds (each layer appends itself to context.layers, as in the proxy core); observed: AppData.client_alpn"""
    from mitmproxy import tls
    from mitmproxy.proxy import layers as L
    from mitmproxy.proxy.layers import modes
    from mitmproxy.proxy.layers.http import HTTPMode
    ta, tctx = tls_addon()
    ctx = make_ctx(tctx, [], None, False)
    ctx.layers.clear()
    for k in kinds:
        if k == "hp": modes.HttpProxy(ctx)
        elif k == "hup": modes.HttpUpstreamProxy(ctx)
        elif k == "mode": modes.TransparentProxy(ctx)
        elif k == "ctls": proxy_tls.ClientTLSLayer(ctx)
        elif k == "stls": proxy_tls.ServerTLSLayer(ctx)
        elif k == "http": L.HttpLayer(ctx, HTTPMode.regular)
        else: L.TCPLayer(ctx)
    ctx.client.alpn = client_alpn          # after the layers: ClientTLSLayer.__init__ may reset it
    ts = tls.TlsData(ctx.client, context=ctx)
    ta.tls_start_client(ts)
    return {"pin": opt_hex(ts.ssl_conn.get_app_data()["client_alpn"]), "n_layers": len(ctx.layers)}

def run_quic(client_alpn, server_alpn, offers):
    """the real TlsConfig.quic_start_client (what list of protocols aioquic is configured with) and aioquic's own
    `tls.negotiate` on that list and the client's offers"""
    from aioquic.tls import negotiate
    from mitmproxy.proxy.layers import quic
    ta, tctx = tls_addon()
    ctx = make_ctx(tctx, offers, server_alpn, False, client_alpn=client_alpn)
    ctx.client.transport_protocol = "udp"
    ts = quic.QuicTlsData(ctx.client, context=ctx)
    ta.quic_start_client(ts)
    lst = list(ts.settings.alpn_protocols)
    sel = negotiate(lst, [o.decode("ascii") for o in offers])
    return {"alpns": [hx(x.encode("ascii")) for x in lst], "selected": "none" if sel is None else hx(sel.encode("ascii"))}


class Check(PropertyCheck):
    prop = "C18"
    design_ref = "§5 C18"
    level_text = ("The real alpn_select_callback is tabulated by calling it on the class domain (override none / secure-web-proxy x 8 upstream "
                  "states x 2 http2 x 157 offer lists of length <=3 without repetition over 6 protocol classes = 5 024 calls) into Gen/C18.lean on every run; "
                  "Lean proves by kernel evaluation over that table: selected is offered or none, secure-web-proxy override selects only "
                  "http/1.1, upstream mirrored / HTTP/2 never selected with http2 off under the reachability guard, and the table equals "
                  "the hand model; a lifting lemma (the callback inspects only membership of one needle and the first HTTP protocol) "
                  "extends every table theorem to offer lists of ANY length with repetitions, and the same theorems are proved for the "
                  "model over arbitrary byte strings; the upstream offers of tls_start_server are modelled and shown to make the guard "
                  "hold whenever mitmproxy itself chose what to offer upstream; the whole server-first chain (upstream server with an "
                  "arbitrary ALPN preference list or none -> tls_start_server offers -> recorded server.alpn -> callback) is modelled and "
                  "proved at full strength without guard (eager_chain_mirrors, eager_chain_http2_off), as is the nested secure-web-proxy "
                  "session (outer http/1.1 or none; the inner selection ignores the outer session: nested_inner_ignores_outer). Model tied to the code on random callback inputs, on "
                  "tls_start_server, on real in-memory TLS handshakes against tls_start_client's SSL.Connection, and on the real layer stacks "
                  "ServerTLSLayer>ClientTLSLayer and HttpProxy>ClientTLSLayer>HttpLayer>CONNECT>ClientTLSLayer with real NextLayer/TlsConfig "
                  "hooks and real TLS peers, where the model PREDICTS the upstream server's choice, the upstream offers, the outer and the "
                  "inner client protocol from the inputs alone. The DECISION which handshake is a secure web proxy's outer one (tls_start_client's test "
                  "on context.layers, NextLayer's explicit-proxy stack) is transcribed and proved (swp_outer_recognised, nested_handshake_not_outer, "
                  "other_modes_not_outer; isSwpOuter/startClientPin tied by calling tls_start_client on real layer lists, explicitProxyStack tied by "
                  "comparing it with the layer classes recorded at the first tls_start_client of every real nested session, whose AppData pins are "
                  "predicted too); the chain theorems hold without any hypothesis on the "
                  "offers (eager_chain_mirrors_total, eager_chain_http2_off_total); QUIC clients: quic_start_client's protocol list and aioquic's "
                  "negotiate are transcribed and tied, quic_selected_offered and quic_upstream_known_mirrored (full strength: that protocol or nothing). "
                  "Clauses: 'offered or none' = selected_in_offers_or_none, table_selected_in_offers_or_none, lifted_selected_in_offers, "
                  "eager_chain_selected_offered, quic_selected_offered | oracle judge #1; 'upstream known => that protocol or none' = "
                  "upstream_known_mirrored_partial + _counterexample (F-C18a), upstream_refused_none, mirrored_when_mitmproxy_chose_offers, "
                  "eager_chain_mirrors(_total), nested_inner_ignores_outer, quic_upstream_known_mirrored | judge #2; 'no h2 when http2 off' = "
                  "http2_off_never_h2_partial + _counterexample (F-C18b), http2_off_never_h2_reachable, eager_chain_http2_off(_total), "
                  "table_http2_off_never_h2 | judge #3; 'secure web proxy outer connection only http/1.1' = swp_only_http11, table_swp_only_http11, "
                  "swp_outer_recognised, nested_outer_http11 | judge #4.")
    level_note = ("trusted: Lean kernel; the translator's enumeration (table rows are results of real calls); OpenSSL/pyOpenSSL invoke the "
                  "select callback with the client's offer list and negotiate what it returns (checked by ~100+ real handshakes per run, "
                  "not proved); the upstream server selects the first protocol of ITS preference list that was offered, or nothing (peerSelect: "
                  "OpenSSL SSL_select_next_proto semantics, validated against CPython ssl servers in every run; a server selecting something "
                  "that was not offered would break TLS). QUIC: quic_start_client and aioquic.tls.negotiate are called for real and tied, no QUIC handshake is driven; on the QUIC path an upstream "
                  "that negotiated NOTHING (server.alpn == b\"\") is not mirrored — the client's own offer list is handed to aioquic and the client gets "
                  "its first offer (quic_without_upstream_protocol; outside C18's observation points: the quic oracle judges 'offered or none' always and "
                  "'that protocol or none' for a negotiated upstream protocol, and is LENIENT for server.alpn == b\"\" — reported as an observation). Two properties hold only "
                  "under the guard 'upstream protocol is among this client's offers / is not h2 when http2 is off'; outside it the real "
                  "callback falls back to the client's first HTTP protocol (recorded findings F-C18a, F-C18b; *_partial and "
                  "*_counterexample in Lean). Deviation from DESIGN §5: the table has offer lists of length <=3 (not <=4) and only the two "
                  "overrides mitmproxy itself produces, because kernel evaluation costs ~5 ms per entry here; the lifting lemma needs length <=2 "
                  "only, other overrides (addon-set client.alpn) and longer lists are covered by the all-inputs model theorems and the "
                  "differential runs. The byte-string -> class abstraction step is not proved in Lean (the generic theorems hold for byte strings directly).")
    technique = "Lean 4 proof (decide +kernel over a table regenerated by calling the code, lifting lemma, generic model theorems) + translator + differential and real-handshake correspondence"
    rule = ("cb: random (client_alpn, server_alpn, http2, offers) with protocols drawn from the 5 HTTP ALPNs, unknown protocols, the empty "
            "string and random bytes; offers of length 0..12 with repetitions; srv: random client offers / preset / http2; hs: real handshake "
            "for offers x upstream x http2 x secure-web-proxy. distinct = distinct case; non-trivial = offers non-empty.")
    budget = {"quick": 15000, "thorough": 400000}
    time_budget = {"quick": 20, "thorough": 400}
    fingerprints = ["mitmproxy.addons.tlsconfig:alpn_select_callback",
                    "mitmproxy.addons.tlsconfig:TlsConfig.tls_start_client",
                    "mitmproxy.addons.tlsconfig:TlsConfig.tls_start_server",
                    "mitmproxy.addons.tlsconfig:TlsConfig.tls_clienthello",
                    "mitmproxy.proxy.layers.tls:TLSLayer.receive_handshake_data",
                    "mitmproxy.proxy.layers.tls:TLSLayer.start_tls",
                    "mitmproxy.proxy.layers.tls:ClientTLSLayer.receive_handshake_data",
                    "mitmproxy.proxy.layers.tls:ClientTLSLayer.start_server_tls",
                    "mitmproxy.proxy.layers.tls:ServerTLSLayer.start_handshake",
                    "mitmproxy.proxy.layers.tls:ClientTLSLayer.__init__",
                    "mitmproxy.proxy.layers.quic._stream_layers:ClientQuicLayer.__init__",
                    "mitmproxy.addons.next_layer:NextLayer._setup_explicit_http_proxy",
                    "mitmproxy.addons.tlsconfig:TlsConfig.quic_start_client"]
    trusted_base = ["OpenSSL/pyOpenSSL ALPN: the select callback receives the client's offers; its return value is what is negotiated",
                    "TLS: the protocol negotiated upstream is one of the protocols offered upstream"]
    parallel = False

    # ---- translator ---------------------------------------------------------------------------------------------
    def translate(self):
        cls = classes()
        idx = {b: i for i, b in enumerate(cls)}
        offers = [p for k in range(MAXLEN + 1) for p in itertools.permutations(range(len(cls)), k)]
        codes = []
        for o in offers:
            n = 0
            for x in reversed(o): n = n * 8 + (x + 1)
            codes.append(n)
        rows = []
        for cv in (None, H11):                       # client_alpn override: none / secure web proxy
            for s in ["unknown", "refused"] + list(range(len(cls))):
                for h in (False, True):
                    sv = None if s == "unknown" else b"" if s == "refused" else cls[s]
                    n = 0
                    for i, o in enumerate(offers):
                        r = call_cb(cv, sv, h, [cls[j] for j in o])
                        d = 0 if r is None else idx[r] + 1 if r in idx else 8
                        n += d * 9 ** i
                    rows.append(n)
        L = ["/- generated by harness/c18.py translate() by CALLING mitmproxy.addons.tlsconfig.alpn_select_callback — do not edit -/",
             "import MitmVerif.Basic.Bytes", "namespace MitmVerif.Gen.C18", "open MitmVerif", "",
             "/-- protocol classes: HTTP_ALPNS in their order, then one unknown protocol -/",
             "def classes : List Bytes := [" + ", ".join(lean_bytes(b) for b in cls) + "]",
             "/-- proxy_tls.HTTP_ALPNS / HTTP1_ALPNS / HTTP2_ALPN as byte strings -/",
             "def httpAllB : List Bytes := [" + ", ".join(lean_bytes(b) for b in proxy_tls.HTTP_ALPNS) + "]",
             "def http1B : List Bytes := [" + ", ".join(lean_bytes(b) for b in proxy_tls.HTTP1_ALPNS) + "]",
             "def http2Alpn : Bytes := " + lean_bytes(proxy_tls.HTTP2_ALPN),
             "/-- the same as class indices -/",
             "def httpAllC : List Nat := [" + ", ".join(str(idx.get(b, 99)) for b in proxy_tls.HTTP_ALPNS) + "]",
             "def http1C : List Nat := [" + ", ".join(str(idx.get(b, 99)) for b in proxy_tls.HTTP1_ALPNS) + "]",
             f"def swpClass : Nat := {idx.get(H11, 99)}",
             f"def nClasses : Nat := {len(cls)}", f"def maxLen : Nat := {MAXLEN}",
             "/-- every offer list of length <= maxLen without repetition over the classes, as base-8 numbers (digit = class+1,",
             "    first offer = lowest digit), in the order of the result digits below -/",
             "def offerCodes : List Nat := [" + ", ".join(map(str, codes)) + "]",
             "/-- one number per configuration (override none / http/1.1, then upstream unknown, refused, class 0.., then http2 off/on);",
             "    base-9 digit i = result for the i-th offer list: 0 none, k+1 class k, 8 something that is not a class -/",
             "def rows : List Nat := ["]
        L.append(",\n".join("  " + str(n) for n in rows))
        L.append("]\n")
        L.append("end MitmVerif.Gen.C18\n")
        return {"MitmVerif/Gen/C18.lean": "\n".join(L)}

    # ---- generator ----------------------------------------------------------------------------------------------
    def generate(self, rng, tier):
        cls = classes()
        pool = cls + [b"h3-29", b"", b"H2", b"http/1.1 ", b"\x00\xff", b"h2c"]

        def proto():
            return rng.pick(cls) if rng.chance(0.8) else rng.pick(pool) if rng.chance(0.7) else rng.bytes_(rng.randint(0, 6))

        # QUIC clients: quic_start_client's protocol list + aioquic's negotiation
        for o in ([b"h3"], [b"h3", b"h3-29"], [b"h3-29", b"h3"], [H2, H11], []):
            for sa in (None, b"", b"h3", b"h3-29", H11):
                for ca in (None, b"h3", b"qux", b""):
                    yield {"op": "quic", "c": opt_hex(ca), "s": opt_hex(sa), "offers": [hx(x) for x in o]}
        # which handshake is the secure web proxy's outer one: tls_start_client on real layer lists
        stacks = [["hp", "ctls", "http"], ["hp", "ctls"], ["hp", "http", "stls", "ctls"], ["hp", "ctls", "http", "stls", "ctls"],
                  ["hp", "ctls", "http", "ctls"], ["hup", "ctls", "http"], ["mode", "stls", "ctls"], ["hp"], ["hp", "http"],
                  ["hp", "tcp", "ctls"], ["mode", "hp", "ctls"], ["hp", "ctls", "ctls"]]
        for st in stacks:
            for ca in (None, H2, b"qux"):
                yield {"op": "layers", "kinds": st, "c": opt_hex(ca)}
        # nested client TLS (secure web proxy: TLS to the proxy, CONNECT, TLS to the origin) through the real layer stack
        for outer in ([], [H11], [H2, H11]):
            for inner in ([H2, H11], [H11, H2], [H2], [H11]):
                for up in ("h2", "http/1.1", "noalpn"):
                    for h in (True, False):
                        for eager in (True, False):
                            if tier == "quick" and not eager and (up != "h2" or inner[0] != H2): continue
                            yield {"op": "nested", "outer": [hx(x) for x in outer], "offers": [hx(x) for x in inner], "up": up,
                                   "http2": h, "eager": eager}
        # the real TLS layer stack: client offers x upstream peer x order x http2
        stack_offers = [[H2, H11], [H11, H2], [H2], [H11], [UNKNOWN1, H2], []]
        for o in stack_offers:
            for up in ("noalpn", "h2", "http/1.1", "foreign"):
                for eager in (True, False):
                    for h in (True, False):
                        if tier == "quick" and not eager and up in ("http/1.1", "foreign"): continue
                        yield {"op": "stack", "offers": [hx(x) for x in o], "up": up, "http2": h, "eager": eager}
        # real handshakes against tls_start_client's SSL.Connection (a fixed grid ~130, then random ones in the stream)
        grid_offers = [[H2, H11], [H11, H2], [H2], [H11], [UNKNOWN1], [UNKNOWN1, H11], [b"http/1.0", H2, UNKNOWN2], []]
        for o in grid_offers:
            for up in (None, b"", H2, H11, UNKNOWN1):
                for h in (False, True):
                    for swp in (False, True):
                        if tier == "quick" and swp and up not in (None, H2): continue
                        yield {"op": "hs", "offers": [hx(x) for x in o], "s": opt_hex(up), "http2": h, "swp": swp}
        for o in grid_offers:
            for h in (False, True):
                yield {"op": "srv", "client_offers": [hx(x) for x in o], "preset": [], "http2": h}
                yield {"op": "srv", "client_offers": [hx(x) for x in o], "preset": [hx(H11)], "http2": h}
        while True:
            r = rng.random()
            if rng.chance(0.01):
                ap = lambda: rng.pick([b"h3", b"h3-29", H2, H11, b"qux", b"hq-interop"])
                offers = [ap() for _ in range(rng.randint(0, 4))]
                yield {"op": "quic", "c": opt_hex(rng.pick([None, None, None, b"", ap()])),
                       "s": opt_hex(rng.pick([None, b"", ap(), rng.pick(offers) if offers else ap()])), "offers": [hx(x) for x in offers]}
                continue
            if rng.chance(0.01):
                n = rng.randint(1, 6)
                kinds = [rng.pick(["hp", "hp", "hup", "mode"])] + [rng.pick(LAYER_KINDS[3:]) for _ in range(n - 1)]
                if len(kinds) > 1 and kinds[1] == "ctls" and rng.chance(0.5): kinds[0] = "hp"
                yield {"op": "layers", "kinds": kinds, "c": opt_hex(rng.pick([None, None, H2, H11, b"qux", b""]))}
                continue
            if rng.chance(0.002 if tier == "quick" else 0.001):
                mk = lambda: list(dict.fromkeys(rng.pick(cls + [b"h2c"]) for _ in range(rng.randint(0, 3))))
                yield {"op": "nested", "outer": [hx(x) for x in rng.pick([[], [H11], [H2, H11], [H11, H2], [H2], mk()])],
                       "offers": [hx(x) for x in mk()], "up": rng.pick(sorted(UPSTREAM_KINDS)), "http2": rng.chance(0.5), "eager": rng.chance(0.7)}
                continue
            if rng.chance(0.004 if tier == "quick" else 0.002):
                k = rng.randint(0, 4)
                offers = list(dict.fromkeys(rng.pick(cls + [b"h3-29", b"h2c"]) for _ in range(k)))
                yield {"op": "stack", "offers": [hx(x) for x in offers], "up": rng.pick(sorted(UPSTREAM_KINDS)),
                       "http2": rng.chance(0.5), "eager": rng.chance(0.75)}
                continue
            if r < 0.93:
                n = rng.weighted([(1, 0), (3, 1), (4, 2), (4, 3), (3, 4), (2, rng.randint(5, 12))])
                offers = [proto() for _ in range(n)]
                c = None if rng.chance(0.6) else (H11 if rng.chance(0.5) else proto())
                s = None if rng.chance(0.3) else b"" if rng.chance(0.2) else (rng.pick(offers) if offers and rng.chance(0.6) else proto())
                yield {"op": "cb", "c": opt_hex(c), "s": opt_hex(s), "http2": rng.chance(0.5), "offers": [hx(x) for x in offers]}
            elif r < 0.97:
                vp = lambda: rng.pick(cls + [b"h3-29", b"H2", b"h2c", b"http/1.1 "])      # OpenSSL accepts only non-empty names
                offers = [vp() for _ in range(rng.randint(0, 5))]
                preset = [vp() for _ in range(rng.randint(1, 3))] if rng.chance(0.25) else []
                yield {"op": "srv", "client_offers": [hx(x) for x in offers], "preset": [hx(x) for x in preset], "http2": rng.chance(0.5)}
            else:
                k = rng.randint(0, 4)
                offers = [x for x in (rng.pick(cls + [b"h3-29", b"h2c"]) for _ in range(k))]
                offers = list(dict.fromkeys(offers))
                up = rng.pick([None, None, b"", H2, H11, UNKNOWN1] + offers)
                yield {"op": "hs", "offers": [hx(x) for x in offers], "s": opt_hex(up), "http2": rng.chance(0.5), "swp": rng.chance(0.3)}

    # ---- implementation -----------------------------------------------------------------------------------------
    def impl(self, case):
        op = case["op"]
        if op == "cb":
            r = call_cb(opt_unhex(case["c"]), opt_unhex(case["s"]), case["http2"], [unhx(x) for x in case["offers"]])
            return {"r": opt_hex(r)}
        if op == "layers":
            return run_layers(case["kinds"], opt_unhex(case["c"]))
        if op == "quic":
            return run_quic(opt_unhex(case["c"]), opt_unhex(case["s"]), [unhx(x) for x in case["offers"]])
        if op == "nested":
            import json
            obs = run_nested([unhx(x) for x in case["outer"]], [unhx(x) for x in case["offers"]], case["up"], case["http2"], case["eager"])
            self._stash = (json.dumps(case, sort_keys=True), obs)
            return obs
        if op == "stack":
            import json
            obs = run_stack([unhx(x) for x in case["offers"]], case["up"], case["http2"], case["eager"])
            self._stash = (json.dumps(case, sort_keys=True), obs)
            return obs
        if op == "srv":
            return {"offers": server_offers([unhx(x) for x in case["client_offers"]], [unhx(x) for x in case["preset"]], case["http2"])}
        return handshake([unhx(x) for x in case["offers"]], opt_unhex(case["s"]), case["http2"], case["swp"])

    # ---- oracle: the property's sentences over the implementation's observable ----------------------------------
    @staticmethod
    def judge(c, s, http2, offers, r, swp=None):
        """c: client_alpn override (None unless secure web proxy / addon), s: upstream protocol (None unknown, b'' none negotiated),
        r: selected protocol or None."""
        fails = []
        # "The application protocol mitmproxy selects for a client is always one the client offered (or none)."
        if r is not None and r not in offers:
            fails.append(f"selected {r!r} is not among the client's offers {offers!r}")
        if c is None or swp:
            # "If the upstream protocol is already known, the client gets that protocol or none"
            if c is None and s is not None and r is not None and r != s:
                fails.append(f"upstream protocol is known ({s!r}) but the client gets {r!r}")
            # "HTTP/2 is never selected when http2 is disabled"
            if not http2 and r == H2:
                fails.append("h2 selected although http2 is disabled")
        # "on a secure web proxy's outer connection only HTTP/1.1 is selected"
        if swp and r not in (None, H11):
            fails.append(f"secure web proxy outer connection negotiated {r!r}")
        return fails

    def oracle(self, case, obs):
        op = case["op"]
        if op == "cb":
            c, s = opt_unhex(case["c"]), opt_unhex(case["s"])
            offers = [unhx(x) for x in case["offers"]]
            return self.judge(c, s, case["http2"], offers, opt_unhex(obs["r"]), swp=(c == H11) or None)
        if op == "quic":
            offers = [unhx(x) for x in case["offers"]]
            sel = opt_unhex(obs["selected"])
            c, s_up = opt_unhex(case["c"]), opt_unhex(case["s"])
            fails = []
            # "The application protocol mitmproxy selects for a client is always one the client offered (or none)."
            if sel is not None and sel not in offers:
                fails.append(f"QUIC: selected {sel!r} is not among the client's offers {offers!r}")
            # "If the upstream protocol is already known, the client gets that protocol or none" — judged for a negotiated (non-empty)
            # upstream protocol and no addon pin.  LENIENT branch: an upstream that negotiated nothing (b"") is not judged here (see level_note).
            if not c and s_up and sel is not None and sel != s_up:
                fails.append(f"QUIC: upstream protocol is known ({s_up!r}) but the client gets {sel!r}")
            return fails
        if op == "layers":
            return []       # AppData is internal: tied to the model; the sentences are judged on negotiated protocols (hs/stack/nested)
        if op == "nested":
            fails = []
            if not obs["outer_done"]:
                return ["nested TLS: the outer handshake with the secure web proxy did not complete"]
            # 'on a secure web proxy's outer connection only HTTP/1.1 is selected' (and what is selected was offered)
            fails += self.judge(H11, None, case["http2"], [unhx(x) for x in case["outer"]], unhx(obs["outer_got"]) or None, swp=True)
            if fails: return fails
            if not obs["connect_ok"]: return ["nested TLS: CONNECT through the secure web proxy was not answered with 200"]
            if not obs["inner_done"] or (case["eager"] and not obs["upstream_done"]):
                return ["nested TLS: inner/upstream handshake did not complete"]
            # the inner connection is an ordinary client connection: sentences 1-3 on what the client peer negotiated
            return self.judge(None, self._stack_upstream(case, obs), case["http2"], [unhx(x) for x in case["offers"]],
                              unhx(obs["inner_got"]) or None)
        if op == "stack":
            if not obs["client_done"] or (case["eager"] and not obs["upstream_done"]):
                return ["TLS layer stack: handshake did not complete (client %s / upstream %s)" % (obs["client_err"], obs["upstream_err"])]
            offers = [unhx(x) for x in case["offers"]]
            # what the client peer actually negotiated, against what the upstream peer actually negotiated
            return self.judge(None, self._stack_upstream(case, obs), case["http2"], offers, unhx(obs["client_got"]) or None)
        if op == "srv":
            return []       # tls_start_server is tied to the model; the property's sentences are about the client side
        fails = []
        if not obs["ok"]:
            return ["in-memory TLS handshake did not complete"]
        if obs["client_side"] != obs["proxy_side"]:
            fails.append("client and proxy disagree on the negotiated protocol")
        offers = [unhx(x) for x in case["offers"]]
        neg = unhx(obs["proxy_side"]) or None
        return fails + self.judge(H11 if case["swp"] else None, opt_unhex(case["s"]), case["http2"], offers, neg, swp=case["swp"])

    @staticmethod
    def _stack_upstream(case, obs):
        """the upstream protocol as the upstream PEER saw it: None = not connected yet (client-first), b"" = handshake
        completed without a protocol, else the protocol"""
        if not case["eager"] or not obs["upstream_done"]: return None
        return unhx(obs["upstream_got"])

    # frozen copies: the classifier must not widen when the tree under test changes its tables
    K_HTTP_ALPNS = (b"h3", b"h2", b"http/1.1", b"http/1.0", b"http/0.9")
    K_HTTP1_ALPNS = (b"http/1.1", b"http/1.0", b"http/0.9")

    def known(self, case, obs, failure):
        """F-C18a / F-C18b are statements about alpn_select_callback fed with a server_alpn that did NOT come out of this
        client's own upstream negotiation.  Only the two ops where the harness itself presets server.alpn can be instances
        (cb: AppData by hand; hs: ctx.server.alpn by hand).  On the real layer stacks (stack / nested) mitmproxy chooses the
        upstream offers, the state is unreachable (proved) — a failure there is never excused."""
        if case["op"] == "cb":
            c, s, offers, r = opt_unhex(case["c"]), opt_unhex(case["s"]), [unhx(x) for x in case["offers"]], opt_unhex(obs["r"])
        elif case["op"] == "hs" and not case["swp"]:
            c, s, offers, r = None, opt_unhex(case["s"]), [unhx(x) for x in case["offers"]], unhx(obs["proxy_side"]) or None
        else:
            return None
        if c is not None or not s: return None
        alpns = self.K_HTTP_ALPNS if case["http2"] else self.K_HTTP1_ALPNS
        first_http = next((o for o in offers if o in alpns), None)
        # F-C18a: upstream known, NOT offered by this client; the client is handed exactly its first HTTP protocol
        if failure == f"upstream protocol is known ({s!r}) but the client gets {r!r}" \
                and s not in offers and r is not None and r == first_http:
            return "F-C18a"
        # F-C18b: http2 off, upstream is h2 and h2 IS offered; the client is handed h2 (= the upstream protocol)
        if failure == "h2 selected although http2 is disabled" and not case["http2"] and s == H2 and H2 in offers and r == H2:
            return "F-C18b"
        return None

    def known_selftest(self):
        """frozen (case, observation, failure) triples: one witness per finding and the near misses of notes/known_audit.txt.
        Nothing of the tree under test is executed here."""
        h = lambda *bs: [hx(b) for b in bs]
        cb = lambda s, http2, offers, c="none": {"op": "cb", "c": c, "s": opt_hex(s), "http2": http2, "offers": offers}
        up = lambda s, r: f"upstream protocol is known ({s!r}) but the client gets {r!r}"
        H2OFF = "h2 selected although http2 is disabled"
        H10 = b"http/1.0"
        T = [
            # --- F-C18a
            (cb(H2, True, h(H11)), {"r": hx(H11)}, up(H2, H11), "F-C18a"),                               # the witness
            (cb(UNKNOWN1, False, h(UNKNOWN2, H10, H11)), {"r": hx(H10)}, up(UNKNOWN1, H10), "F-C18a"),   # first HTTP/1 protocol
            ({"op": "hs", "offers": h(H11), "s": hx(H2), "http2": True, "swp": False}, {"proxy_side": hx(H11)}, up(H2, H11), "F-C18a"),
            # (a) same input class, other clause / other selection
            (cb(H2, True, h(H11)), {"r": hx(b"zzz")}, f"selected {b'zzz'!r} is not among the client's offers {[H11]!r}", None),
            (cb(H2, True, h(H11, H10)), {"r": hx(H10)}, up(H2, H10), None),                               # not the FIRST HTTP protocol
            (cb(H2, False, h(b"h3", H11)), {"r": hx(b"h3")}, up(H2, b"h3"), None),                       # h3 is no HTTP/1 protocol
            (cb(H2, True, h(H11)), {"r": hx(H11)}, H2OFF, None),
            # (b) neighbouring inputs, same kind of failure
            (cb(H2, True, h(H11, H2)), {"r": hx(H11)}, up(H2, H11), None),                                # upstream protocol WAS offered
            (cb(b"", True, h(H11)), {"r": hx(H11)}, up(b"", H11), None),                                  # upstream refused (seed c18-1)
            (cb(H2, True, h(H11), c=hx(H11)), {"r": hx(H11)}, up(H2, H11), None),                         # override present
            ({"op": "stack", "offers": h(H11), "up": "h2", "http2": True, "eager": True},
             {"client_done": True, "upstream_done": True, "upstream_got": hx(H2), "client_got": hx(H11)}, up(H2, H11), None),
            ({"op": "nested", "outer": h(H11), "offers": h(H2, H11), "up": "h2", "http2": True, "eager": True},
             {"inner_done": True, "upstream_done": True, "upstream_got": hx(H2), "inner_got": hx(H11)}, up(H2, H11), None),   # seed c18-3
            ({"op": "hs", "offers": h(H11), "s": hx(H2), "http2": True, "swp": True}, {"proxy_side": hx(H11)}, up(H2, H11), None),
            # --- F-C18b
            (cb(H2, False, h(H2, H11)), {"r": hx(H2)}, H2OFF, "F-C18b"),                                  # the witness
            ({"op": "hs", "offers": h(H2), "s": hx(H2), "http2": False, "swp": False}, {"proxy_side": hx(H2)}, H2OFF, "F-C18b"),
            (cb(H2, False, h(H2, H11)), {"r": hx(H11)}, up(H2, H11), None),                               # (a) other clause
            (cb(None, False, h(H2)), {"r": hx(H2)}, H2OFF, None),                                         # (b) upstream unknown
            (cb(H11, False, h(H2, H11)), {"r": hx(H2)}, H2OFF, None),                                     # (b) upstream is not h2
            (cb(b"", False, h(H2)), {"r": hx(H2)}, H2OFF, None),
            (cb(H2, True, h(H2)), {"r": hx(H2)}, H2OFF, None),                                            # http2 on
            ({"op": "stack", "offers": h(H2, H11), "up": "h2", "http2": False, "eager": True},
             {"client_done": True, "upstream_done": True, "upstream_got": hx(H2), "client_got": hx(H2)}, H2OFF, None),
        ]
        for case, obs, failure, want in T:
            got = self.known(case, obs, failure)
            assert got == want, ("known() classifier self-test", case, obs, failure, "expected", want, "got", got)
        # the oracle produces exactly the failure texts the classifier matches on
        assert self.judge(None, H2, True, [H11], H11) == [up(H2, H11)]
        assert self.judge(None, H2, False, [H2, H11], H2) == [H2OFF]

    def setup(self, tier):
        self.known_selftest()

    # ---- model tie ----------------------------------------------------------------------------------------------
    def model_lines(self, case):
        op = case["op"]
        if op == "cb":
            return [f"cb {case['c']} {case['s']} {int(case['http2'])} " + (",".join(case["offers"]) or "nil")]
        if op == "layers":
            return [f"pin {','.join(case['kinds'])} {case['c']}"]
        if op == "quic":
            return [f"quic {case['c']} {case['s']} " + (",".join(case["offers"]) or "nil")]
        if op == "nested":
            # the model predicts the outer selection from (swp, outer offers) and the inner one from
            # (inner offers, upstream protocol, http2, addon pin = none) only: nothing of the outer session may leak in
            import json
            key = json.dumps(case, sort_keys=True)
            obs = self._stash[1] if getattr(self, "_stash", (None,))[0] == key else self.impl(case)
            lines = []
            ofs = ",".join(case["offers"]) or "nil"
            if obs["layers"]:
                # the stack NextLayer really built below HttpProxy for a client that starts with a TLS record,
                # predicted by the transcription of _setup_explicit_http_proxy
                lines.append("xstack hp 1")
                # AppData.client_alpn of every client handshake: outer on the PREDICTED stack, later ones on the recorded stack
                for i, (cls, before) in enumerate(zip(obs["layers"], obs["pins"])):
                    ks = ["hp", "ctls", "http"] if i == 0 else kinds_of(cls)
                    lines.append(f"pin {','.join(ks)} {before}")
            if obs["outer_done"]:
                lines.append(f"hs 1 none none {int(case['http2'])} " + (",".join(case["outer"]) or "nil"))
            if obs["inner_done"] and (obs["upstream_done"] or not case["eager"]):
                lines.append(f"hs 0 none {opt_hex(self._stack_upstream(case, obs))} {int(case['http2'])} " + ofs)
                if case["eager"]: lines.append(f"srv {int(case['http2'])} nil " + ofs)
                # the whole session predicted from the inputs alone (upstream peer's choice included)
                lines.append(f"nested {int(case['http2'])} {int(case['eager'])} {prefs_field(case['up'])} "
                             + (",".join(case["outer"]) or "nil") + " " + (",".join(case["offers"]) or "nil"))
            return lines or None
        if op == "stack":
            # the model is fed what the upstream PEER negotiated (impl() of this case has just run in this process)
            import json
            key = json.dumps(case, sort_keys=True)
            obs = self._stash[1] if getattr(self, "_stash", (None,))[0] == key else self.impl(case)
            if not obs["client_done"] or (case["eager"] and not obs["upstream_done"]): return None   # the oracle reports these
            up = self._stack_upstream(case, obs)
            ofs = ",".join(case["offers"]) or "nil"
            lines = [f"hs 0 none {opt_hex(up)} {int(case['http2'])} " + ofs]
            if case["eager"]:
                lines.append(f"srv {int(case['http2'])} nil " + ofs)
                # upstream peer's choice and the client's protocol predicted from the inputs alone
                lines.append(f"chain {int(case['http2'])} {prefs_field(case['up'])} " + ofs)
            return lines
        if op == "srv":
            return [f"srv {int(case['http2'])} " + (",".join(case["preset"]) or "nil") + " " + (",".join(case["client_offers"]) or "nil")]
        # (no ALPN extension: OpenSSL does not invoke the callback — the model's answer for an empty offer list is 'none' as well)
        return [f"hs {int(case['swp'])} none {case['s']} {int(case['http2'])} " + (",".join(case["offers"]) or "nil")]

    def model_obs(self, case, replies):
        return list(replies) if case["op"] in ("stack", "nested") else replies[0]

    def impl_view(self, case, obs):
        op = case["op"]
        if op == "layers": return obs["pin"]
        if op == "quic": return (",".join(obs["alpns"]) or "nil") + " " + obs["selected"]
        if op == "nested":
            g = lambda v: "none" if v == "-" else v
            v = []
            if obs["layers"]:
                v.append(",".join(kinds_of(obs["layers"][0])))
                v.extend(obs["appdata"][:len(obs["layers"])])
            if obs["outer_done"]: v.append(g(obs["outer_got"]))
            if obs["inner_done"] and (obs["upstream_done"] or not case["eager"]):
                v.append(g(obs["inner_got"]))
                if case["eager"]: v.append(",".join(obs["upstream_offers"]) or "nil")
                n = lambda x: "none" if x in ("-", "none") else x
                v.append(f"{n(obs['outer_got'])} {n(obs['upstream_got'])} {n(obs['inner_got'])}")
            return v
        if op == "stack":
            v = ["none" if obs["client_got"] == "-" else obs["client_got"]]
            if case["eager"]:
                v.append(",".join(obs["upstream_offers"]) or "nil")
                n = lambda x: "none" if x in ("-", "none") else x
                v.append(f"{n(obs['upstream_got'])} {n(obs['client_got'])}")
            return v
        if op == "cb": return obs["r"]
        if op == "srv": return ",".join(obs["offers"]) or "nil"
        return "none" if obs["proxy_side"] == "-" else obs["proxy_side"]

    def classify(self, case, obs):
        if case["op"] == "layers": return ("layers", tuple(case["kinds"]), case["c"])
        key = "offers" if case["op"] != "srv" else "client_offers"
        if not case[key]: return None
        return (case["op"], case.get("c"), case.get("s"), case.get("http2"), tuple(case[key]), case.get("swp"), tuple(case.get("preset", ())),
                case.get("up"), case.get("eager"), tuple(case.get("outer", ())))

    def branches(self, case, obs):
        op = case["op"]
        if op == "quic":
            return ["quic:" + ("pins" if (case["c"] not in ("none", "-") or case["s"] not in ("none", "-")) else "client-offers") + ":" + ("selected" if obs["selected"] != "none" else "none")]
        if op == "layers":
            return ["layers:" + ("override" if obs["pin"] == hx(H11) and case["c"] != hx(H11) else "client.alpn") + f":n={min(len(case['kinds']), 5)}"]
        if op == "nested":
            g = lambda v: "none" if v in ("-", "none") else unhx(v).decode("latin1")
            return [f"nested:{'server-first' if case['eager'] else 'client-first'}:outer={g(obs['outer_got'])}:upstream={g(obs['upstream_got'])}:inner={g(obs['inner_got'])}"]
        if op == "stack":
            g = lambda v: "none" if v in ("-", "none") else unhx(v).decode("latin1")
            return [f"stack:{'server-first' if case['eager'] else 'client-first'}:up={case['up']}:upstream={g(obs['upstream_got'])}:client={g(obs['client_got'])}"]
        if op == "srv":
            return ["srv:preset" if case["preset"] else "srv:mirror" if case["http2"] else "srv:mirror-minus-h2"]
        if op == "hs":
            return [f"hs:swp={int(case['swp'])}:neg={'none' if obs['proxy_side'] == '-' else unhx(obs['proxy_side']).decode('latin1')}"]
        c, s, r = case["c"], case["s"], obs["r"]
        offers = case["offers"]
        if c != "none": b = "cb:override-offered" if c in offers else "cb:override-not-offered"
        elif s not in ("none", "-") and s in offers: b = "cb:mirror-upstream"
        elif s == "-": b = "cb:upstream-refused"
        elif r == "none": b = "cb:no-http-alpn"
        else: b = "cb:first-http-alpn" + ("(upstream known, not offered)" if s != "none" else "")
        return [b, "cb:len=%s" % (len(offers) if len(offers) < 5 else "5+")]

    def neighbours(self, case, rng):
        if case["op"] != "cb": return
        cls = [hx(x) for x in classes()]
        for c in ["none"] + cls:
            for s in ["none", "-"] + cls:
                for h in (False, True):
                    yield {"op": "cb", "c": c, "s": s, "http2": h, "offers": case["offers"]}

    def exhaustive(self, tier):
        cls = [hx(x) for x in classes()]
        for k in range(0, 4):
            for o in itertools.permutations(cls, k):
                for c in ["none", hx(H11)]:
                    for s in ["none", "-"] + cls:
                        for h in (False, True):
                            yield {"op": "cb", "c": c, "s": s, "http2": h, "offers": list(o)}
