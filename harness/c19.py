"""C19 — ignored hosts are passed through untouched and allow/ignore rules are honoured
(mitmproxy/addons/next_layer.py, proxy/layers/tls.py ClientTLSLayer ignore_connection branch, proxy/layers/tcp.py, udp.py).

Case kinds
  hh     NextLayer._get_host_header(context, data_client, data_server)                      unit
  ig     NextLayer._ignore_connection(context, data_client, data_server)                    unit
  nl     NextLayer._next_layer(...)  -> class of the instantiated layer stack               unit
  e2e    a whole client connection through harness/common/world.py: mode layer (HttpProxy+CONNECT / TransparentProxy /
         ReverseProxy / Socks5Proxy) -> NextLayer -> whatever the REAL NextLayer addon chooses; the first flight arrives in
         segments, then a script of data/close/connect-result events.  Observed: stack class at the decision, and per
         step the commands that reach the peers (open, bytes to server, bytes to client, closes, tcp_*/udp_* hooks).
  tlsig  ClientTLSLayer with a tls_clienthello hook that sets ignore_connection: bytes relayed to the server.

The property oracle needs no model: an independent strict RFC 9112 head reader (`spec_host`) + the structured intent of the
generated flight (SNI put into the ClientHello) + Python `re` give the expected verdict; relay exactness is checked on the
recorded byte streams.
"""
import itertools, json, re

from common.check import PropertyCheck, Skip, hx, unhx
from common.world import World
from mitmproxy import connection
from mitmproxy.addons import next_layer, proxyserver
from mitmproxy.addons.next_layer import NeedsMoreData, NextLayer
from mitmproxy.connection import Client, ConnectionState
from mitmproxy.net import check as netcheck
from mitmproxy.proxy import context, layer, mode_specs
from mitmproxy.proxy.layers import modes, quic as quic_layers, tls as tls_layers
from mitmproxy.test import taddons

# ------------------------------------------------------------------------------------------------ builders

def tls_hello(sni=None, dtls=False, extra_ext=b"", sni_type=0):
    exts = b""
    if sni is not None:
        name = sni if isinstance(sni, bytes) else sni.encode()
        sn = bytes([sni_type]) + len(name).to_bytes(2, "big") + name
        body = len(sn).to_bytes(2, "big") + sn
        exts += b"\x00\x00" + len(body).to_bytes(2, "big") + body
    exts += extra_ext
    ver = b"\xfe\xfd" if dtls else b"\x03\x03"
    body = ver + bytes(range(32)) + b"\x00" + (b"\x00" if dtls else b"") + b"\x00\x04\x13\x01\xc0\x2f" + b"\x01\x00"
    if exts:
        body += len(exts).to_bytes(2, "big") + exts
    if dtls:
        hs = b"\x01" + len(body).to_bytes(3, "big") + b"\x00\x00" + b"\x00\x00\x00" + len(body).to_bytes(3, "big") + body
        return b"\x16\xfe\xff" + b"\x00\x00" + b"\x00" * 6 + len(hs).to_bytes(2, "big") + hs
    hs = b"\x01" + len(body).to_bytes(3, "big") + body
    return b"\x16\x03\x01" + len(hs).to_bytes(2, "big") + hs


def tls_hello_records(sni, n=2, extra_ext=b""):
    """the same handshake message split over n TLS records"""
    hs = tls_hello(sni, extra_ext=extra_ext)[5:]
    n = max(1, min(n, len(hs)))
    cuts = [len(hs) * i // n for i in range(n + 1)]
    out = b""
    for i in range(n):
        part = hs[cuts[i]:cuts[i + 1]]
        out += b"\x16\x03" + (b"\x01" if i == 0 else b"\x03") + len(part).to_bytes(2, "big") + part
    return out


def tls_hello_two_records(sni):
    return tls_hello_records(sni, 2)


def tls_hello_sized(sni, sizes, extra_ext=b""):
    """the handshake message cut into TLS records whose payload sizes are `sizes` (the rest goes into a last record) —
    record-layer fragmentation of RFC 5246 §6.2.1 / RFC 8446 §5.1, e.g. a first record with 1..3 handshake bytes"""
    hs = tls_hello(sni, extra_ext=extra_ext)[5:]
    out, pos, first = b"", 0, True
    for n in list(sizes) + [len(hs)]:
        part = hs[pos:pos + n]
        if not part: break
        out += b"\x16\x03" + (b"\x01" if first else b"\x03") + len(part).to_bytes(2, "big") + part
        pos += len(part); first = False
    return out


TINY_SPLITS = [[1], [2], [3], [4], [5], [1] * 8, [1, 1], [3, 1], [1, 2, 1], [2, 2]]
MAX_RECORD = 2 ** 14          # TLSPlaintext.length / DTLSPlaintext.length may be exactly 2^14 (RFC 8446 §5.1, RFC 6347 §4.1)


def padding_ext(n):
    """a padding extension (type 21, RFC 7685) occupying n >= 4 bytes"""
    return b"\x00\x15" + (n - 4).to_bytes(2, "big") + bytes(n - 4)


def tls_hello_payload(sni, payload_len, dtls=False):
    """a ClientHello whose handshake message (= the payload of a single record) is exactly payload_len bytes long"""
    base = len(tls_hello(sni, dtls=dtls, extra_ext=padding_ext(4))) - (13 if dtls else 5)
    return tls_hello(sni, dtls=dtls, extra_ext=padding_ext(4 + payload_len - base))


def tls_resplit(hello, sizes):
    """the handshake bytes of a single-record TLS hello cut into records with payload sizes `sizes` + the rest"""
    hs = hello[5:]
    out, pos, first = b"", 0, True
    for n in list(sizes) + [len(hs)]:
        part = hs[pos:pos + n]
        if not part: break
        out += b"\x16\x03" + (b"\x01" if first else b"\x03") + len(part).to_bytes(2, "big") + part
        pos += len(part); first = False
    return out


def boundary_hellos(sni):
    """(label, bytes, dtls) at the record-size boundary: single records of 2^14-1 and 2^14 bytes, hellos longer than one
    maximal record, first records of 1..4 / 2^14-1 / 2^14 bytes"""
    out = []
    for n in (MAX_RECORD - 1, MAX_RECORD):
        out.append((f"tls single record {n}", tls_hello_payload(sni, n), False))
        out.append((f"dtls single record {n}", tls_hello_payload(sni, n, dtls=True), True))
    big = tls_hello_payload(sni, MAX_RECORD + 300)          # only legal when fragmented
    for first in (1, 2, 3, 4, MAX_RECORD - 1, MAX_RECORD):
        out.append((f"tls {MAX_RECORD + 300} bytes, first record {first}", tls_resplit(big, [first] if first > 4 else [first, MAX_RECORD]), False))
    whole = tls_hello_payload(sni, MAX_RECORD)
    for first in (1, 4):
        out.append((f"tls {MAX_RECORD} bytes, first record {first}", tls_resplit(whole, [first]), False))
    out.append((f"tls 2x{MAX_RECORD}", tls_resplit(tls_hello_payload(sni, 2 * MAX_RECORD), [MAX_RECORD]), False))
    return out



CCS = bytes.fromhex("140303000101")                                  # TLS 1.3 middlebox-compatibility ChangeCipherSpec
EARLY_DATA = bytes.fromhex("1703030018") + bytes(range(0x40, 0x58))   # 0-RTT application data record
ALERT = bytes.fromhex("15030300020100")
SECOND_HS = bytes.fromhex("16030300050b00000100")                      # another handshake record after the ClientHello
DTLS_CCS = bytes.fromhex("14fefd0000000000000001000101")
TRAILERS = [CCS, EARLY_DATA, CCS + EARLY_DATA, ALERT, SECOND_HS, b"\x00\xffgarbage", b"\x16\x03", CCS[:3], EARLY_DATA + EARLY_DATA]


TOKEN = rb"[!#$%&'*+\-.^_`|~0-9A-Za-z]+"


def spec_host(data: bytes):
    """Independent reader of the head as HTTP defines it and as mitmproxy's own HTTP/1 reader applies it (RFC 9112 §2.1-2.2,
    §3, §5; RFC 9110 §5.6.3, §9.1): request-line = method SP request-target SP HTTP-version with method = token (ANY token);
    lines end in CRLF or in a bare LF ("MAY recognize a single LF", which h11's ReceiveBuffer used by mitmproxy does);
    field-line = field-name ":" OWS field-value OWS, OWS = *(SP / HTAB), names case-insensitive; the FIRST Host field.
    -> ("incomplete",) | ("malformed",) | ("ok", value-bytes-or-None)"""
    m = re.search(rb"\n\r?\n", data)
    if not m:
        return ("incomplete",)
    head = data[:m.start()]
    if head.endswith(b"\r"): head = head[:-1]
    lines = re.split(rb"\r?\n", head)
    if not re.fullmatch(TOKEN + rb" [^ \t\r\n]+ HTTP/\d\.\d", lines[0]):
        return ("malformed",)
    host = "absent"
    for ln in lines[1:]:
        mm = re.fullmatch(rb"(" + TOKEN + rb"):[ \t]*(.*?)[ \t]*", ln, re.S)
        if not mm or re.search(rb"[\x00-\x08\x0a-\x1f\x7f]", mm.group(2)):
            return ("malformed",)
        if mm.group(1).lower() == b"host" and host == "absent":
            host = mm.group(2)
    return ("ok", None if host in ("absent", b"") else host)


def odd_method(data: bytes) -> bool:
    """F-C19c class: the method token does not start with three letters"""
    return re.match(rb"[A-Za-z]{3}", data) is None and re.match(TOKEN + rb" ", data) is not None


def req_line_pending(p: bytes) -> bool:
    """F-C19b class: the bytes seen so far end inside the request line (no LF yet, no 'HTTP/' yet, starts like a method)"""
    if b"\n" in p or re.match(rb"[A-Z]{3,}.+HTTP/", p, re.I):
        return False
    return all(chr(c).isalpha() and c < 128 for c in p[:3])


def tls_minimum_pending(p: bytes) -> bool:
    """the documented exemption: fewer than three bytes cannot be recognised as TLS"""
    return len(p) < 3 and (b"\x16\x03"[:len(p)] == p or b"\x16\xfe"[:len(p)] == p)


def pat_regex(p):
    return ("^" if p["s"] else "") + re.escape(p["lit"]) + ("$" if p["e"] else "")


def dec(b: bytes) -> str:
    return b.decode("utf-8", "surrogateescape")


def enc(s: str) -> bytes:
    return s.encode("utf-8", "surrogateescape")


def outside_model(text: str) -> bool:
    """non-ASCII characters that really decode (case folding / \\d of Python's str regexes are modelled for ASCII only)"""
    return any(ord(ch) > 127 and not (0xDC80 <= ord(ch) <= 0xDCFF) for ch in text)


def expected_verdict(cfg, host_value, sni):
    """the property statement: destination = server address | TLS SNI | HTTP Host header; matches ignore_hosts, or matches
    none of allow_hosts -> excluded (1); else 0"""
    if not cfg["ignore"] and not cfg["allow"]:
        return 0
    if cfg.get("wg") and cfg["addr"] == ["10.0.0.53", 53]:
        return 0
    names = []
    if cfg.get("peer"):
        names.append("%s:%d" % tuple(cfg["peer"]))
    if cfg.get("addr"):
        h, port = cfg["addr"]
        names.append("%s:%d" % (h, port))
        if host_value:
            hv = dec(host_value)
            names.append(hv if re.search(r":[0-9]+$", hv) else "%s:%d" % (hv, port))
        if sni:
            names.append("%s:%d" % (sni, port))
        if cfg.get("csni"):
            names.append("%s:%d" % (cfg["csni"], port))
    if not names:
        return 0
    hit = lambda pats: any(re.search(pat_regex(p), n, re.I) for n in names for p in pats)
    if cfg["allow"] and not hit(cfg["allow"]):
        return 1
    if cfg["ignore"] and hit(cfg["ignore"]):
        return 1
    return 0


# ------------------------------------------------------------------------------------------------ real code drivers

TOPS = {"hp": modes.HttpProxy, "up": modes.HttpUpstreamProxy, "other": modes.TransparentProxy}
SCHEMES = ["http", "https", "tcp", "tls", "udp", "dtls", "dns", "http3", "quic"]


def mode_spec(cfg):
    top = cfg.get("top", "other")
    if cfg.get("wg"):
        return mode_specs.ProxyMode.parse("wireguard")
    if top.startswith("rev-"):
        return mode_specs.ProxyMode.parse("reverse:%s://target.example:7000" % top[4:])
    return mode_specs.ProxyMode.parse({"hp": "regular", "up": "upstream:http://up.example:3128", "other": "transparent"}[top])


def make_unit_context(tctx, cfg):
    transport = "tcp" if cfg["tcp"] else "udp"
    cl = Client(peername=("198.51.100.1", 40000), sockname=("127.0.0.1", 8080), state=ConnectionState.OPEN,
                proxy_mode=mode_spec(cfg), timestamp_start=1.0, transport_protocol=transport)
    ctx = context.Context(cl, tctx.options)
    top = cfg.get("top", "other")
    if top.startswith("rev-"):
        modes.ReverseProxy(ctx)
    else:
        TOPS[top](ctx)
    ctx.server.transport_protocol = transport
    ctx.server.address = tuple(cfg["addr"]) if cfg.get("addr") else None
    ctx.server.peername = tuple(cfg["peer"]) if cfg.get("peer") else None
    ctx.client.sni = cfg.get("csni")
    ctx.client.alpn = cfg["alpn"].encode() if cfg.get("alpn") else None
    ctx.client.tls_version = cfg.get("tlsver")
    return ctx


def configure(tctx, nl, cfg):
    tctx.configure(nl, ignore_hosts=[pat_regex(p) for p in cfg["ignore"]], allow_hosts=[pat_regex(p) for p in cfg["allow"]],
                   tcp_hosts=[pat_regex(p) for p in cfg.get("tcp_hosts", [])],
                   udp_hosts=[pat_regex(p) for p in cfg.get("udp_hosts", [])],
                   show_ignored_hosts=bool(cfg.get("show")), rawtcp=bool(cfg.get("rawtcp", 1)))


def stack_of(l):
    out = []
    while l is not None:
        n = type(l).__name__
        if n in ("TCPLayer", "UDPLayer"):
            n = ("tcp" if n == "TCPLayer" else "udp") + ("-ignore" if l.flow is None else "")
        elif n == "HttpLayer": n = "http-" + l.mode.name
        else: n = {"ServerTLSLayer": "servertls", "ClientTLSLayer": "clienttls", "DNSLayer": "dns", "ServerQuicLayer": "serverquic",
                   "ClientQuicLayer": "clientquic", "RawQuicLayer": "rawquic"}.get(n, n)
        out.append(n)
        l = getattr(l, "child_layer", None)
        if isinstance(l, layer.NextLayer): l = l.layer
    return out


def valid_names(dc: bytes, tcp: bool):
    """instantiates the model's `validHost` parameter with the real check.is_valid_host on the names present"""
    try:
        ch = tls_layers.parse_client_hello(dc) if tcp else tls_layers.dtls_parse_client_hello(dc)
    except ValueError:
        return []
    if ch is None: return []
    out = []
    ext = getattr(ch._client_hello, "extensions", None)
    for e in (ext.extensions if ext else []):
        if e.type == 0:
            for sn in e.body.server_names:
                if netcheck.is_valid_host(sn.host_name) and sn.host_name not in out:
                    out.append(sn.host_name)
    return out


def quic_param(dc: bytes, cfg):
    """instantiates the model's `quic` parameter with the real parser (QUIC is exercised, not modelled)"""
    if cfg["tcp"]: return "none"
    addr = tuple(cfg["addr"]) if cfg.get("addr") else None
    if not next_layer._starts_like_quic(dc, addr): return "none"
    try:
        ch = quic_layers.quic_parse_client_hello_from_datagrams([dc])
    except ValueError:
        return "inv"
    if ch is None: return "need"
    return hx(ch.sni.encode()) if ch.sni else "none"


HOOKNUM = {"tcp_start": "h0", "tcp_message": "h1", "tcp_end": "h2", "tcp_error": "h3",
           "udp_start": "h0", "udp_message": "h1", "udp_end": "h2", "udp_error": "h3"}
E2E_MODES = {"regular": ("regular", modes.HttpProxy), "transparent": ("transparent", modes.TransparentProxy),
             "socks5": ("socks5", modes.Socks5Proxy)}


class Check(PropertyCheck):
    prop = "C19"
    design_ref = "§5 C19"
    level_text = ("Lean theorems (30) over the model of NextLayer._ignore_connection/_get_host_header/_get_client_hello/_next_layer, "
                  "NextLayer buffering+replay and the TCP/UDP relay, for ALL inputs and histories. VERDICT: verdict_rule / "
                  "allow_semantics / ignore_semantics (exactly the documented rule over the candidate host names), "
                  "candidates_cover_destinations, verdict_uses_options_in_force / verdict_history_independent (one addon instance, "
                  "any history of option updates). HOST HEADER: host_header_agrees_mixed (regex scanner = RFC 9112 field syntax on "
                  "EVERY well-formed head, each line ended by CRLF or bare LF in any mixture: FIRST Host field, case-insensitive name, "
                  "any SP/HTAB, any position, empty = no host, any trailing bytes; _agrees_with_spec, _eol_partial, _bare_lf are "
                  "instances), host_header_any_method_partial / _counterexample (F-C19c). SEGMENTATION: host_header_prefix_stable, "
                  "decision_prefix_stable, decision_seg_independent_partial / _total / _counterexample (F-C19b), datagram_decision_local, "
                  "dtls_decision_prefix_stable, dtls_decision_seg_independent. PASSTHROUGH: ignored_is_passthrough (single relay "
                  "layer, nothing terminates TLS/parses HTTP, no hook unless show_ignored_hosts, stream equality while relaying, "
                  "queued in order before), relay_sends_only_what_was_received (EVERY history, no assumption: sent is a prefix of "
                  "received), ignored_is_passthrough_to_the_end + half_close_propagation (admissible histories through both EOFs), "
                  "tls_ignore_passthrough. WHOLE CONNECTION: session_decides_where_next_layer_answers, "
                  "ignored_flight_any_segmentation (flight excluded => for every guarded segmentation the stack is the relay layer "
                  "and the whole flight is sent or queued in order), not_excluded_flight_any_segmentation, not_excluded_is_intercepted, "
                  "passthrough_only_if_excluded. Tie: unit level (three functions + stack class over all modes/schemes/options), end "
                  "to end through world.py with the real NextLayer addon (regular-CONNECT, transparent tcp+udp, reverse, SOCKS5; eager "
                  "and lazy), histories on one addon instance (driver keeps the options as state), the ClientTLSLayer ignore branch, "
                  "and the SPEC side (structured heads rendered by the Lean definitions = bytes given to the real code, specHost = "
                  "its answer). check.is_valid_host is C13's complete transcription inside the driver; KNOWN_QUIC_VERSIONS, "
                  "TYPICAL_QUIC_PORTS, HTTP_ALPNS and starts_like_* are tables regenerated from the code on every run.")
    level_note = ("trusted: Lean kernel; hand model tied differentially (validated, not verified). Remaining parameters: Python "
                  "re.search (driver: literal patterns with optional ^/$ anchors, IGNORECASE, ASCII; first flights with non-ASCII "
                  "text that really decodes are skipped because str case folding and \\d are modelled for ASCII only) and the QUIC "
                  "ClientHello parser (aioquic based; real function in the tie, exercised not modelled). ClientHello parsing and "
                  "is_valid_host are Model/C13* (prefix_stable imported). PARTIAL, each with full statement + partial + proved "
                  "counterexample: F-C19b (DecisionSegIndependent: deciding prefix ends inside the request line), F-C19c "
                  "(HostHeaderAgreesAnyMethod: method token not starting with three letters). F-C19a, the cross-line Host scan and "
                  "F-C19d (bare LF) are repaired in /repo (29b075ea0, e1c95ada5, 801640255). Hypotheses that are assumptions about "
                  "the environment, not derivable from the model: ignored_is_passthrough_to_the_end needs an admissible history "
                  "(data/EOF only from a readable connection, connect result only while awaited) and for UDP that the association "
                  "does not end before the relay is active (UDPLayer.done swallows later datagrams, code and model alike); the "
                  "guards of the segmentation theorems (three bytes, not inside the request line) are the documented TLS minimum "
                  "and F-C19b. Segmentation clause: TCP; datagram boundaries are sender-chosen input (_starts_like_quic looks at "
                  "the size of what arrived; evaluated example), what remains is proved (datagram_decision_local, dtls_*). LENIENT "
                  "BRANCHES of the code, modelled as they are: fewer than 3 bytes are never TLS; an invalid or non-ClientHello TLS "
                  "flight, a ValueError of the QUIC parser, a falsy SNI => decided without SNI; server spoke first or UDP => no Host "
                  "header; Host value with :digits keeps its port, else the connection's port; empty Host = none; the first Host "
                  "field wins; a leading empty line before the request line or a method not starting with three letters => Host "
                  "not consulted (the latter is F-C19c, the former is outside the spec side, which puts the request line first); "
                  "no destination address => never ignored; wireguard 10.0.0.53:53 exempt; a failed connect or a client closing "
                  "Two theorems hold by the shape of the model and get their content from the tie (audit round 6): verdict_uses_options_in_force / verdict_history_independent say that the MODEL carries nothing but the two option lists between connections (that the real addon does not is what the hist cases check); part (a) of ignored_is_passthrough is immediate from nextLayer (its content is the nl/e2e stack comparison). "
                  "before any verdict relays nothing. known() excuses a failure only for input class AND recorded failure; "
                  "known_selftest() runs at every start. Hook completion is immediate in the tie (C04's subject); inside a CONNECT "
                  "tunnel close events are not driven (HttpStream turns half-close into full close: C29's subject); TLS "
                  "interception after a 'not excluded' verdict is observed up to the stack class.")
    technique = "Lean 4 proof (induction over bytes/events, invariants) + unit-level and end-to-end differential correspondence (world.py, real NextLayer addon)"
    rule = ("hh: request heads built from (request line x Host spelling: name case, 0/1/many SP/HTAB before and after, position "
            "among other fields, absent, empty, duplicate) incl. every prefix of short heads, single-byte mutants and raw bytes; "
            "ig/nl: destination forms (IPv4, IPv6, hostname, peername, SNI, client.sni, Host value with/without port) x regex sets "
            "(literal, ^/$ anchored, port-suffixed, case variants, allow and ignore, both) x top layer/mode/options x first "
            "flights (HTTP heads, TLS/DTLS ClientHellos whole/truncated/invalid, QUIC-looking, raw) ; e2e: mode x "
            "connection_strategy x rules x flight x every single cut of short flights + random multi-cuts x script of later "
            "data/close/connect events. distinct = distinct case; non-trivial = rules set and a destination present.")
    budget = {"quick": 3600, "thorough": 200000}
    time_budget = {"quick": 18, "thorough": 420}
    fingerprints = ["mitmproxy.addons.next_layer:NextLayer", "mitmproxy.addons.next_layer:NextLayer._ignore_connection", "mitmproxy.addons.next_layer:NextLayer._get_host_header",
                    "mitmproxy.addons.next_layer:NextLayer._get_client_hello", "mitmproxy.addons.next_layer:NextLayer._next_layer",
                    "mitmproxy.addons.next_layer:NextLayer._setup_reverse_proxy", "mitmproxy.addons.next_layer:NextLayer._setup_explicit_http_proxy",
                    "mitmproxy.addons.next_layer:NextLayer._is_destination_in_hosts", "mitmproxy.addons.next_layer:_starts_like_quic",
                    "mitmproxy.addons.next_layer:NextLayer.next_layer", "mitmproxy.addons.next_layer:stack_match",
                    "mitmproxy.proxy.layer:NextLayer._handle_event", "mitmproxy.proxy.layer:NextLayer._ask", "mitmproxy.proxy.layer:NextLayer._data",
                    "mitmproxy.proxy.layers.tcp:TCPLayer", "mitmproxy.proxy.layers.udp:UDPLayer",
                    "mitmproxy.proxy.layers.tls:ClientTLSLayer.receive_handshake_data",
                    "mitmproxy.net.tls:starts_like_tls_record", "mitmproxy.net.tls:starts_like_dtls_record"]
    trusted_base = ["Python re (search, IGNORECASE) as the regex parameter", "Model/C13_Nameprep.lean validHostFull as the transcription of check.is_valid_host",
                    "aioquic-based quic_parse_client_hello_from_datagrams as the QUIC parameter",
                    "harness/common/world.py as a stand-in for proxy/server.py's command interpreter",
                    "Model/C13.lean (ClientHello parsing) and its theorem prefix_stable"]
    parallel = False
    case_timeout = 180        # per-case SIGALRM; generous: on a loaded machine the first taddons context of a worker can take tens of seconds

    def translate(self):
        """(T) constants of next_layer.py / tls.py the model uses, regenerated from the live code on every run"""
        vers = sorted(next_layer.KNOWN_QUIC_VERSIONS); ports = sorted(next_layer.TYPICAL_QUIC_PORTS)
        alpns = [list(a) for a in tls_layers.HTTP_ALPNS]
        body = ("-- GENERATED by harness/c19.py translate() from mitmproxy/addons/next_layer.py (KNOWN_QUIC_VERSIONS, TYPICAL_QUIC_PORTS)\n"
                "-- and mitmproxy/proxy/layers/tls.py (HTTP_ALPNS). Do not edit.\n"
                "namespace MitmVerif.Gen.C19\n\n"
                f"def knownQuicVersions : List Nat := {vers}\n"
                f"def typicalQuicPorts : List Nat := {ports}\n"
                "/-- HTTP_ALPNS as byte strings -/\n"
                f"def httpAlpns : List (List UInt8) := {alpns}\n\n"
                "end MitmVerif.Gen.C19\n")
        return {"MitmVerif/Gen/C19.lean": body}

    def setup(self, tier):
        self.parallel = tier == "thorough"
        self._stash = {}
        self.known_selftest()
        if self.parallel:
            import os
            os.cpu_count = lambda: 8      # shared machine: keep the fork pool of this run at 8 workers

    # ================================================================================ generator
    HOSTS = ["example.com", "Example.COM", "sub.example.com", "example.org", "192.0.2.7", "2001:db8::1", "localhost", "xn--bcher-kva.example"]
    REQLINES = [b"GET / HTTP/1.1", b"POST /x?y=1 HTTP/1.0", b"OPTIONS * HTTP/1.1", b"get / http/1.1", b"GET http://abs.example/p HTTP/1.1",
                b"DELETE /a%20b HTTP/1.1", b"BASELINE-CONTROL /x HTTP/1.1", b"M-SEARCH * HTTP/1.1", b"XY / HTTP/1.1", b"X-1 /a HTTP/1.1"]
    NAMES = [b"Host", b"host", b"HOST", b"hOsT"]
    OWS = [b"", b" ", b"\t", b"  ", b" \t ", b"\t\t"]
    OTHER = [b"X-A: b", b"Accept: */*", b"X-Host: decoy.example", b"Hostx: q.example", b"User-Agent: Host: evil.example",
             b"Referer:http://example.org/", b"X-Empty:", b"Cookie: a=b; Host=c"]

    def pats_for(self, rng, names):
        n = rng.pick(names) if names and rng.chance(0.8) else rng.pick(self.HOSTS)
        k = rng.randint(0, 7)
        if k == 0: return {"s": 0, "e": 0, "lit": n}
        if k == 1: return {"s": 0, "e": 0, "lit": n.upper()}
        if k == 2: return {"s": 1, "e": 0, "lit": n}
        if k == 3: return {"s": 0, "e": 1, "lit": n + ":" + str(rng.pick([80, 443, 8000, 8443]))}
        if k == 4: return {"s": 1, "e": 1, "lit": n + ":" + str(rng.pick([80, 443, 8000]))}
        if k == 5: return {"s": 0, "e": 1, "lit": ":" + str(rng.pick([80, 443, 8000, 53]))}
        if k == 6: return {"s": 0, "e": 0, "lit": n[: max(1, len(n) // 2)]}
        return {"s": 0, "e": 1, "lit": n}

    def head(self, rng, host_value=None, wellformed=True):
        """a request head; returns bytes"""
        lines = [rng.pick(self.REQLINES)]
        nb, na = rng.randint(0, 2), rng.randint(0, 2)
        for _ in range(nb): lines.append(rng.pick(self.OTHER))
        mode = rng.weighted([(8, "one"), (1, "absent"), (1, "empty"), (1, "dup")])
        if host_value is None and mode != "absent": host_value = rng.pick(self.HOSTS).encode()
        if mode in ("one", "dup"):
            lines.append(rng.pick(self.NAMES) + b":" + rng.pick(self.OWS) + host_value + rng.pick(self.OWS))
            if mode == "dup": lines.append(b"Host: second.example")
        elif mode == "empty":
            lines.append(rng.pick(self.NAMES) + b":" + rng.pick(self.OWS))
        for _ in range(na): lines.append(rng.pick(self.OTHER))
        d = b"\r\n".join(lines) + b"\r\n\r\n"
        r = rng.random()
        if r < 0.06: d = d.replace(b"\r\n", b"\n")                       # bare LF throughout (RFC 9112 §2.2 MAY)
        elif r < 0.10:
            i = rng.randrange(d.count(b"\r\n")); parts = d.split(b"\r\n")
            d = b"\r\n".join(parts[:i + 1]) + b"\n" + b"\r\n".join(parts[i + 1:])   # a single bare LF
        return d

    def host_value(self, rng):
        h = rng.pick(self.HOSTS)
        k = rng.randint(0, 9)
        if k <= 4: return h.encode()
        if k == 5: return (h + ":" + str(rng.pick([80, 8080, 443]))).encode()
        if k == 6: return ("[" + h + "]:8080").encode() if ":" in h else (h + ":").encode()
        if k == 7: return h.encode() + b" x"
        if k == 8: return h.encode() + b"\xff"
        return (h + ":80a").encode()

    def mutate(self, rng, b):
        if not b: return b
        i = rng.randrange(len(b))
        k = rng.randint(0, 5)
        v = rng.pick([b"\r", b"\n", b" ", b"\t", b"\x0b", b"\x0c", b"\x00", b":", b"H", b"\r\n", b"\xff"])
        if k == 0: return b[:i] + b[i + 1:]
        if k == 1: return b[:i] + v + b[i:]
        if k == 2: return b[:i] + v + b[i + 1:]
        if k == 3: return b.replace(b"\r\n", b"\n", 1)
        if k == 4: return b"\r\n" + b
        return b[:i]

    def flight(self, rng, tcp=True):
        """-> (bytes, intent) where intent = {"host": bytes|None, "sni": str|None} or None when the flight is not a complete
        well-formed first flight"""
        k = rng.weighted([(5, "http"), (3, "tls"), (2, "tls2"), (3, "tlsplus"), (1, "raw"), (1, "mut"), (1, "trunc")]) if tcp else \
            rng.weighted([(4, "dtls"), (1, "dtlsplus"), (2, "quicish"), (1, "raw"), (1, "trunc")])
        if k == "http":
            d = self.head(rng, self.host_value(rng) if rng.chance(0.9) else None)
            return d, "spec"
        if k in ("tls", "tls2", "dtls"):
            sni = rng.pick(self.HOSTS + [None, "bad host!", "a.example"])
            if sni is not None and ":" in sni: sni = "v6.example"
            if k == "tls2":
                sizes = rng.pick(TINY_SPLITS) if rng.chance(0.6) else [rng.randint(1, 9) for _ in range(rng.randint(1, 12))]
                d = tls_hello_sized(sni, sizes)
            else:
                d = tls_hello(sni, dtls=(k == "dtls"), extra_ext=rng.pick([b"", b"\x00\x10\x00\x05\x00\x03\x02h2"]))
            ok = sni is not None and netcheck.is_valid_host(sni.encode())
            return d, {"host": None, "sni": sni if ok else None}
        if k == "tls" and tcp and rng.chance(0.04):
            sni = rng.pick(self.HOSTS[:4])
            n = rng.pick([MAX_RECORD - 1, MAX_RECORD, MAX_RECORD - rng.randint(2, 40)])
            d = tls_hello_payload(sni, n)
            if rng.chance(0.5): d = tls_resplit(d, [rng.pick([1, 2, 3, 4, 100, n - 1])])
            return d, {"host": None, "sni": sni}
        if k in ("tlsplus", "dtlsplus"):
            # a complete ClientHello (1..n records) FOLLOWED by other records / bytes already in the first flight
            sni = rng.pick(self.HOSTS[:5] + [None, "a.example"])
            ext = rng.pick([b"", b"\x00\x10\x00\x05\x00\x03\x02h2"])
            if k == "dtlsplus":
                d = tls_hello(sni, dtls=True, extra_ext=ext) + rng.pick([DTLS_CCS, DTLS_CCS + b"\x17\xfe\xfd" + bytes(10) + b"\x00\x02ab", b"\x00junk"])
            else:
                d = (tls_hello_sized(sni, rng.pick(TINY_SPLITS), ext) if rng.chance(0.35) else tls_hello_records(sni, rng.randint(1, 4), ext)) + rng.pick(TRAILERS)
                if rng.chance(0.2): d += rng.pick(TRAILERS)
            ok = sni is not None and netcheck.is_valid_host(sni.encode())
            return d, {"host": None, "sni": sni if ok else None}
        if k == "quicish":
            d = bytes([rng.pick([0xC0, 0x40, 0xC3])]) + rng.pick([b"\x00\x00\x00\x01", b"\x1a\x2a\x3a\x4a", b"\x00\x00\x00\x09"]) + rng.bytes_(rng.randint(10, 30))
            return d, None
        if k == "raw":
            return rng.pick([b"SSH-2.0-x\r\n", b"\x00\x01\x02", b"GE", b"", b"HELO a\r\n", b"\x16\x03", b"\x16\x03\x01", b"ABC" + rng.bytes_(5)]), None
        if k == "mut":
            return self.mutate(rng, self.head(rng, self.host_value(rng))), "spec"
        d = tls_hello(rng.pick(self.HOSTS[:3]), dtls=not tcp) if rng.chance(0.6) else self.head(rng)
        return d[: rng.randrange(len(d))], "spec" if d[:1].isalpha() else None

    def cfg(self, rng, tcp=True, names=()):
        names = list(names)
        addr = rng.weighted([(8, [rng.pick(self.HOSTS[:6]), rng.pick([80, 443, 8000, 53, 8443])]), (1, None), (1, ["10.0.0.53", 53])])
        if addr: names.append(addr[0])
        peer = [rng.pick(["203.0.113.5", "2001:db8::5"]), addr[1] if addr else 80] if rng.chance(0.3) else None
        if peer: names.append(peer[0])
        csni = rng.pick(self.HOSTS[:4]) if rng.chance(0.15) else None
        if csni: names.append(csni)
        rules = rng.weighted([(5, "ignore"), (3, "allow"), (1, "both"), (1, "none")])
        ig = [self.pats_for(rng, names) for _ in range(rng.randint(1, 2))] if rules in ("ignore", "both") else []
        al = [self.pats_for(rng, names) for _ in range(rng.randint(1, 2))] if rules in ("allow", "both") else []
        return {"tcp": int(tcp), "ignore": ig, "allow": al, "wg": int(rng.chance(0.05)), "peer": peer, "addr": addr, "csni": csni}

    def ncfg(self, rng, tcp=True, names=()):
        c = self.cfg(rng, tcp, names)
        c["wg"] = 0
        c["top"] = rng.weighted([(5, "other"), (1, "hp"), (1, "up"), (3, "rev-" + rng.pick(SCHEMES))])
        c["show"] = int(rng.chance(0.2)); c["rawtcp"] = int(rng.chance(0.7))
        c["tcp_hosts"] = [self.pats_for(rng, names)] if rng.chance(0.2) else []
        c["udp_hosts"] = [self.pats_for(rng, names)] if rng.chance(0.2) else []
        c["alpn"] = rng.weighted([(6, None), (1, "h2"), (1, "http/1.1"), (1, "h3"), (1, "foo")])
        c["tlsver"] = rng.weighted([(6, None), (1, "QUICv1"), (1, "TLSv1.3")])
        return c

    def names_in(self, d, intent):
        out = []
        if isinstance(intent, dict) and intent.get("sni"): out.append(intent["sni"])
        if intent == "spec":
            s = spec_host(d)
            if s[0] == "ok" and s[1]:
                t = dec(s[1])
                if not outside_model(t): out.append(re.sub(r":\d+$", "", t) or t)
        return out

    def e2e_case(self, rng, cuts=None, base=None):
        mode = rng.pick(["regular", "transparent", "socks5", "reverse"])
        udp = mode == "transparent" and base is None and rng.chance(0.12)
        d, intent = self.flight(rng, tcp=not udp) if base is None else base
        names = self.names_in(d, intent)
        addr = ["192.0.2.9", rng.pick([8000, 443, 80])] if rng.chance(0.6) else [rng.pick(self.HOSTS[:3]), rng.pick([8000, 443])]
        names.append(addr[0])
        strategy = rng.pick(["eager", "lazy"])
        peer = ["203.0.113.5", addr[1]] if strategy == "eager" and rng.chance(0.5) else None
        if peer: names.append(peer[0])
        rules = rng.weighted([(5, "ignore"), (3, "allow"), (1, "both"), (0.5, "none")])
        ig = [self.pats_for(rng, names) for _ in range(rng.randint(1, 2))] if rules in ("ignore", "both") else []
        al = [self.pats_for(rng, names) for _ in range(rng.randint(1, 2))] if rules in ("allow", "both") else []
        c = {"tcp": int(not udp), "ignore": ig, "allow": al, "wg": 0, "peer": peer, "addr": addr, "csni": None, "show": int(rng.chance(0.15))}
        if udp or not d: segs = [d] if d else []
        elif cuts is not None: segs = [d[:cuts], d[cuts:]]
        else: segs = rng.split(d, rng.weighted([(3, 1), (3, 2), (2, 3), (1, 5)]))
        script = []
        for _ in range(rng.randint(0, 6)):
            script.append(rng.weighted([(4, ["c", hx(rng.pick([b"more", b"\x00\xff", b"GET /2 HTTP/1.1\r\n\r\n", b"x" * 40, bytes(range(256)) * rng.pick([5, 70])]))]),
                                        (4, ["s", hx(rng.pick([b"HTTP/1.1 200 OK\r\n\r\n", b"\x16\x03\x03\x00\x01\x00", b"srv", bytes(range(255, -1, -1)) * rng.pick([6, 65])]))]),
                                        (1, ["xc"]), (1, ["xs"]), (3, ["ok"]), (0.4, ["err"])]))
        if strategy == "lazy" and rng.chance(0.8): script.insert(0, ["ok"])
        if base is not None: script.append(["c", hx(b"following-data")])
        return {"kind": "e2e", "mode": mode, "scheme": rng.pick(["http", "tcp", "https", "tls"]) if not udp else "udp", "strategy": strategy,
                "cfg": c, "flight": [hx(s) for s in segs], "script": script, "intent": self.ser_intent(intent)}

    def spec_case(self, rng):
        """the SPECIFICATION side of the Lean development on a structured head: request line, field lines
        (name, OWS, value, OWS) each with its own line terminator — rendered by the Lean model and by the harness"""
        def fld():
            name = rng.weighted([(4, rng.pick(self.NAMES)), (3, rng.pick([b"X-A", b"Accept", b"X-Host", b"Hostx", b"Hos", b"Cookie"]))])
            val = rng.weighted([(6, self.host_value(rng).strip(b" \t")), (1, b""), (1, b"a b"), (1, b"x\xff")])
            return {"n": hx(name), "o1": hx(rng.pick(self.OWS)), "v": hx(val), "o2": hx(rng.pick(self.OWS)), "lf": int(rng.chance(0.3))}
        return {"kind": "spec", "rl_hex": hx(rng.pick(self.REQLINES[:7])), "rl_lf": int(rng.chance(0.3)), "end_lf": int(rng.chance(0.3)),
                "fields": [fld() for _ in range(rng.randint(0, 4))], "rest_hex": hx(rng.pick([b"", b"BODY", b"\r\n"]))}

    def hist_case(self, rng, n_conn=None):
        """a HISTORY on ONE NextLayer instance: option updates (ignore_hosts / allow_hosts set -> other, set -> unset,
        unset -> set, one key or both per update) interleaved with connections to a small pool of destinations, so that
        the same destination is decided again after the options changed"""
        pool = []
        for _ in range(rng.randint(2, 3)):
            tcp = rng.chance(0.85)
            host = rng.pick(self.HOSTS[:4] + ["a.example"])
            if tcp and rng.chance(0.5):
                d = b"\r\n".join([rng.pick(self.REQLINES[:7]), rng.pick(self.NAMES) + b":" + rng.pick(self.OWS) + host.encode()]) + b"\r\n\r\n"
                intent = "spec"
            else:
                d = tls_hello(host, dtls=not tcp) if rng.chance(0.7) else tls_hello_records(host, 2) if tcp else tls_hello(host, dtls=True)
                intent = {"sni": host}
            addr = [rng.pick(["192.0.2.9", "198.51.100.7", host]), rng.pick([80, 443, 8000])]
            pool.append({"cfg": {"tcp": int(tcp), "wg": 0, "peer": None, "addr": addr, "csni": None, "top": rng.pick(["other", "other", "rev-tcp", "rev-http"]),
                                 "show": 0, "rawtcp": 1, "tcp_hosts": [], "udp_hosts": [], "alpn": None, "tlsver": None},
                         "dc_hex": hx(d), "ds_hex": "-", "intent": self.ser_intent(intent), "names": [host, addr[0]]})
        names = [n for d in pool for n in d["names"]]
        for d in pool: d.pop("names")

        def pats(): return [self.pats_for(rng, names) for _ in range(rng.randint(1, 2))]
        steps = [{"op": "set", **rng.pick([{"ignore": pats()}, {"allow": pats()}, {"ignore": pats(), "allow": pats()}, {}])}]
        for _ in range(n_conn or rng.randint(3, 7)):
            if rng.chance(0.45):
                upd = {}
                for key in rng.pick([["ignore"], ["allow"], ["allow"], ["ignore", "allow"]]):
                    upd[key] = [] if rng.chance(0.3) else pats()
                steps.append({"op": "set", **upd})
            steps.append(dict(rng.pick(pool), op="conn"))
        return {"kind": "hist", "steps": steps}

    @staticmethod
    def ser_intent(intent):
        if isinstance(intent, dict): return {"sni": intent.get("sni")}
        return intent

    def generate(self, rng, tier):
        # --- small-scope exhaustive part: Host spellings x OWS x position, every prefix of two short heads
        for name, o1, o2 in itertools.product(self.NAMES, self.OWS, self.OWS):
            for pre in ([], [b"X-A: b"]):
                d = b"\r\n".join([b"GET / HTTP/1.1"] + pre + [name + b":" + o1 + b"example.com" + o2]) + b"\r\n\r\n"
                yield {"kind": "hh", "tcp": 1, "dc_hex": hx(d), "ds_hex": "-", "full_hex": hx(d)}
        for d in (b"GET / HTTP/1.1\r\nHost:a.example\r\n\r\n", b"PUT /x HTTP/1.0\r\nX: y\r\nhost: \tb.example \r\nZ: w\r\n\r\nBODY", b"GET / HTTP/1.1\r\nHost:\r\nX: evil.example\r\n\r\n"):
            for i in range(len(d) + 1):
                yield {"kind": "hh", "tcp": 1, "dc_hex": hx(d[:i]), "ds_hex": "-", "full_hex": hx(d)}
        # every single cut of two short flights end to end
        short = [(b"GET / HTTP/1.1\r\nHost:example.com\r\n\r\n", "spec"), (tls_hello("example.com"), {"host": None, "sni": "example.com"}),
                 (tls_hello("example.com") + CCS + EARLY_DATA, {"host": None, "sni": "example.com"}),
                 (tls_hello_records("example.com", 3) + CCS, {"host": None, "sni": "example.com"})]
        # the record-size boundary (2^14): unit level under SNI-only rules, a few end to end / through ClientTLSLayer
        for i, (label, d, dtls) in enumerate(boundary_hellos("example.com")):
            for rules in ({"ignore": [{"s": 0, "e": 0, "lit": "example.com"}], "allow": []}, {"ignore": [], "allow": [{"s": 0, "e": 0, "lit": "example.com"}]}):
                yield {"kind": "ig", "cfg": dict(rules, tcp=int(not dtls), wg=0, peer=None, addr=["192.0.2.1", 443], csni=None), "dc_hex": hx(d), "ds_hex": "-",
                       "intent": {"sni": "example.com"}, "note": label}
            if not dtls and (tier == "thorough" or i % 4 == 0):
                yield self.e2e_case(rng, cuts=rng.pick([5, 9, MAX_RECORD + 5, len(d) - 1]), base=(d, {"host": None, "sni": "example.com"}))
                yield {"kind": "tlsig", "dtls": 0, "flight": [hx(x) for x in rng.split(d, 3)], "after": [hx(b"zz")], "complete": 1}
        # unit level: ClientHello fragmented into tiny records (first record 1..5 handshake bytes, one byte per record, ...)
        for sizes in TINY_SPLITS:
            for tr in (b"", CCS):
                d = tls_hello_sized("example.com", sizes) + tr
                for rules in ({"ignore": [{"s": 0, "e": 0, "lit": "example.com"}], "allow": []}, {"ignore": [], "allow": [{"s": 0, "e": 0, "lit": "example.com"}]},
                              {"ignore": [], "allow": [{"s": 0, "e": 0, "lit": "other.example"}]}):
                    yield {"kind": "ig", "cfg": dict(rules, tcp=1, wg=0, peer=None, addr=["192.0.2.1", 443], csni=None), "dc_hex": hx(d), "ds_hex": "-",
                           "intent": {"sni": "example.com"}}
            yield {"kind": "tlsig", "dtls": 0, "flight": [hx(tls_hello_sized("example.com", sizes))], "after": [hx(b"zz")], "complete": 1}
            yield self.e2e_case(rng, base=(tls_hello_sized("example.com", sizes), {"host": None, "sni": "example.com"}))
        short_tiny = [(tls_hello_sized("example.com", [1]), {"host": None, "sni": "example.com"}),
                      (tls_hello_sized("example.com", [1] * 8) + CCS, {"host": None, "sni": "example.com"})]
        for base in short_tiny:
            for cut in range(1, len(base[0]), 2 if tier == "thorough" else 7):
                yield self.e2e_case(rng, cuts=cut, base=base)
        # unit level: a ClientHello followed by every trailer, ignore and allow rule matching by SNI only
        for tr in TRAILERS:
            for n in (1, 2, 3):
                d = tls_hello_records("example.com", n) + tr
                for rules in ({"ignore": [{"s": 0, "e": 0, "lit": "example.com"}], "allow": []}, {"ignore": [], "allow": [{"s": 0, "e": 0, "lit": "example.com"}]}):
                    yield {"kind": "ig", "cfg": dict(rules, tcp=1, wg=0, peer=None, addr=["192.0.2.1", 443], csni=None), "dc_hex": hx(d), "ds_hex": "-",
                           "intent": {"sni": "example.com"}}
        for base in short:
            step = 1 if tier == "thorough" else 3
            for cut in range(1, len(base[0]), step):
                yield self.e2e_case(rng, cuts=cut, base=base)
        ex = {"s": 0, "e": 0, "lit": "example.com"}; oth = {"s": 0, "e": 0, "lit": "other.example"}
        conn = {"op": "conn", "cfg": {"tcp": 1, "wg": 0, "peer": None, "addr": ["192.0.2.9", 443], "csni": None, "top": "other", "show": 0, "rawtcp": 1,
                                      "tcp_hosts": [], "udp_hosts": [], "alpn": None, "tlsver": None},
                "dc_hex": hx(tls_hello("example.com")), "ds_hex": "-", "intent": {"sni": "example.com"}}
        for key in ("allow", "ignore"):
            for first, second in (([ex], [oth]), ([oth], [ex]), ([ex], []), ([], [ex]), ([oth], []), ([], [oth])):
                yield {"kind": "hist", "steps": [{"op": "set", key: first}, conn, {"op": "set", key: second}, conn, {"op": "set", key: first}, conn]}
        while True:
            k = rng.weighted([(28, "hh"), (28, "ig"), (18, "nl"), (12, "e2e"), (3, "tlsig"), (11, "hist")])
            if k == "hist":
                yield self.hist_case(rng); continue
            if rng.chance(0.04):
                yield self.spec_case(rng); continue
            if k == "hh":
                d = self.head(rng, self.host_value(rng))
                full = d
                r = rng.random()
                if r < 0.25: d = d[: rng.randrange(len(d) + 1)]
                elif r < 0.45: d = full = self.mutate(rng, d)
                elif r < 0.5: d = full = rng.bytes_(rng.randint(0, 12))
                yield {"kind": "hh", "tcp": int(rng.chance(0.95)), "dc_hex": hx(d), "ds_hex": hx(b"220 hi\r\n") if rng.chance(0.05) else "-", "full_hex": hx(full)}
            elif k in ("ig", "nl"):
                tcp = rng.chance(0.8)
                d, intent = self.flight(rng, tcp)
                names = self.names_in(d, intent)
                c = self.cfg(rng, tcp, names) if k == "ig" else self.ncfg(rng, tcp, names)
                yield {"kind": k, "cfg": c, "dc_hex": hx(d), "ds_hex": hx(b"220 hi\r\n") if rng.chance(0.06) else "-", "intent": self.ser_intent(intent)}
            elif k == "e2e":
                yield self.e2e_case(rng)
            else:
                dtls = rng.chance(0.25)
                d = tls_hello(rng.pick(self.HOSTS[:4] + [None]), dtls=dtls)
                complete = 1
                if not dtls and rng.chance(0.4): d = tls_hello_records(rng.pick(self.HOSTS[:4]), rng.randint(1, 3)) + rng.pick(TRAILERS)
                elif not dtls and rng.chance(0.3): d = tls_hello_sized(rng.pick(self.HOSTS[:4]), rng.pick(TINY_SPLITS))
                elif dtls and rng.chance(0.3): d += DTLS_CCS
                if rng.chance(0.15): d = self.mutate(rng, d); complete = 0
                segs = [d] if dtls else rng.split(d, rng.randint(1, 4))
                yield {"kind": "tlsig", "dtls": int(dtls), "flight": [hx(s) for s in segs], "after": [hx(rng.pick([b"\x17\x03\x03\x00\x02ab", b"zz"])) for _ in range(rng.randint(0, 2))], "complete": complete}

    # ================================================================================ implementation runner
    def impl(self, case):
        k = case["kind"]
        if k == "hh": return self.impl_hh(case)
        if k in ("ig", "nl"): return self.impl_unit(case)
        if k == "e2e": return self.impl_e2e(case)
        if k == "tlsig": return self.impl_tlsig(case)
        if k == "hist": return self.impl_hist(case)
        if k == "spec": return self.impl_spec(case)
        raise Skip()

    def impl_hh(self, case):
        class C: pass
        c = C(); c.client = C(); c.client.transport_protocol = "tcp" if case["tcp"] else "udp"
        out = {}
        for key in ("dc_hex", "full_hex"):
            try:
                r = NextLayer._get_host_header(c, unhx(case[key]), unhx(case["ds_hex"]))
                out[key] = None if r is None else hx(enc(r))
            except NeedsMoreData:
                out[key] = "need"
        return {"hh": out["dc_hex"], "hh_full": out["full_hex"]}

    def impl_unit(self, case):
        cfg = case["cfg"]
        nl = NextLayer()
        dc, ds = unhx(case["dc_hex"]), unhx(case["ds_hex"])
        with taddons.context(nl) as tctx:
            configure(tctx, nl, cfg)
            ctx = make_unit_context(tctx, cfg)
            try:
                dec_ = int(bool(nl._ignore_connection(ctx, dc, ds)))
            except NeedsMoreData:
                dec_ = "need"
            obs = {"dec": dec_}
            if case["kind"] == "nl":
                try:
                    obs["stack"] = stack_of(nl._next_layer(ctx, dc, ds))
                except NeedsMoreData:
                    obs["stack"] = "need"
        return obs

    def impl_e2e(self, case):
        cfg = case["cfg"]; mode = case["mode"]; udp = not cfg["tcp"]
        transport = "udp" if udp else "tcp"
        addr = tuple(cfg["addr"])
        nl = NextLayer()
        with taddons.context(nl, proxyserver.Proxyserver()) as tctx:
            configure(tctx, nl, cfg)
            tctx.options.connection_strategy = case["strategy"]
            if mode == "reverse":
                spec = mode_specs.ProxyMode.parse("reverse:%s://%s:%d" % (case["scheme"], "[%s]" % addr[0] if ":" in addr[0] else addr[0], addr[1]))
                top_cls = modes.ReverseProxy
            else:
                spec = mode_specs.ProxyMode.parse(E2E_MODES[mode][0]); top_cls = E2E_MODES[mode][1]
            cl = Client(peername=("198.51.100.1", 40000), sockname=("127.0.0.1", 8080), state=ConnectionState.OPEN,
                        proxy_mode=spec, timestamp_start=1.0, transport_protocol=transport)
            ctx = context.Context(cl, tctx.options)
            ctx.server.transport_protocol = transport
            if mode == "transparent": ctx.server.address = addr
            target, decisions = {}, []
            steps, events = [], []

            def on_hook(w, h):
                tctx.master.addons.trigger(h)
                if isinstance(h, layer.NextLayerHook):
                    d = h.data
                    if "id" not in target and d.context.server.address and (mode != "regular" or len(d.context.layers) > 1):
                        target["id"] = id(d); target["nl"] = d
                    if target.get("id") == id(d) and d.layer is not None and not decisions:
                        decisions.append(stack_of(d.layer)); target["at"] = len(events)
            defer = {"on": False}

            def on_connect(w, c):
                if defer["on"]: return "defer"
                if cfg.get("peer"): c.connection.peername = tuple(cfg["peer"])
                return None
            w = World(top_cls(ctx), ctx, on_hook=on_hook, on_connect=on_connect)
            w.start()
            hostb = addr[0].encode()
            if mode == "regular":
                hp = b"[%s]:%d" % (hostb, addr[1]) if b":" in hostb else b"%s:%d" % (hostb, addr[1])
                w.recv("client", b"CONNECT %s HTTP/1.1\r\nHost: %s\r\n\r\n" % (hp, hp))
            elif mode == "socks5":
                w.recv("client", b"\x05\x01\x00")
                w.recv("client", b"\x05\x01\x00\x03" + bytes([len(hostb)]) + hostb + addr[1].to_bytes(2, "big"))
            connected = bool(w.server_labels())
            if connected != (case["strategy"] == "eager" and not udp):     # DestinationKnown.finish_start connects eagerly for tcp only
                return {"__setup__": "unexpected connection state after the preamble", "labels": w.server_labels()}
            defer["on"] = True
            pos = len(w.trace)

            def snap():
                nonlocal pos
                toks = []
                for t in w.trace[pos:]:
                    if t[0] == "send": toks.append(("S:" if t[1].startswith("server") else "C:") + hx(t[2]))
                    elif t[0] == "open": toks.append("open")
                    elif t[0] == "close":
                        toks.append("x" + ("S" if t[1].startswith("server") else "C") + ("h" if t[2] else "f"))
                    elif t[0] == "hook" and t[1] in HOOKNUM: toks.append(HOOKNUM[t[1]])
                pos = len(w.trace)
                steps.append(toks)

            def srv():
                labs = w.server_labels()
                return labs[-1] if labs else None
            for seg in case["flight"]:
                if w.recv("client", unhx(seg)):
                    events.append("c:" + seg); snap()
            for st in case["script"]:
                if decisions and decisions[0] not in (["tcp-ignore"], ["udp-ignore"], ["tcp"], ["udp"]):
                    break      # intercepted: the rest is another property's subject
                if st[0] == "c":
                    if w.recv("client", unhx(st[1])): events.append("c:" + st[1]); snap()
                elif st[0] == "s":
                    if srv() and w.recv(srv(), unhx(st[1])): events.append("s:" + st[1]); snap()
                elif st[0] in ("xc", "xs"):
                    # inside a CONNECT tunnel HttpStream turns the relay's half-close into a full close of both sides (C29's
                    # subject, not the relay layer's): close events are not driven in regular mode
                    if mode != "regular" and (w.peer_close("client") if st[0] == "xc" else (srv() and w.peer_close(srv()))):
                        events.append(st[0]); snap()
                elif st[0] in ("ok", "err"):
                    if w.deferred_connects:
                        cmd = w.deferred_connects[0]
                        if st[0] == "ok" and cfg.get("peer"): cmd.connection.peername = tuple(cfg["peer"])
                        w.finish_connect(cmd, None if st[0] == "ok" else "connect failed")
                        events.append(st[0]); snap()
            hooks = [n for n in w.hook_names() if n not in ("next_layer", "server_connect", "server_connected", "server_disconnected",
                                                             "server_connect_error", "http_connect", "http_connected", "client_disconnected")]
            obs = {"stack": decisions[0] if decisions else None, "steps": steps, "events": events, "hooks": hooks,
                   "errors": [e[:2] for e in w.errors], "connected": int(connected), "decided_at": target.get("at")}
            self._stash[json.dumps(case, sort_keys=True)] = obs
            return obs

    def impl_hist(self, case):
        """all steps on ONE NextLayer instance and one options object"""
        nl = NextLayer()
        out = []
        with taddons.context(nl) as tctx:
            for st in case["steps"]:
                if st["op"] == "set":
                    kw = {}
                    if "ignore" in st: kw["ignore_hosts"] = [pat_regex(p) for p in st["ignore"]]
                    if "allow" in st: kw["allow_hosts"] = [pat_regex(p) for p in st["allow"]]
                    tctx.configure(nl, **kw)         # `updated` holds exactly these keys
                    continue
                cfg = st["cfg"]
                tctx.options.show_ignored_hosts = bool(cfg.get("show")); tctx.options.rawtcp = bool(cfg.get("rawtcp", 1))
                ctx = make_unit_context(tctx, cfg)
                dc, ds = unhx(st["dc_hex"]), unhx(st["ds_hex"])
                try:
                    d = int(bool(nl._ignore_connection(ctx, dc, ds)))
                except NeedsMoreData:
                    d = "need"
                try:
                    stack = stack_of(nl._next_layer(ctx, dc, ds))
                except NeedsMoreData:
                    stack = "need"
                out.append({"dec": d, "stack": stack})
        return {"conns": out}

    @staticmethod
    def hist_options(case):
        """options in force at every connection step, from the case's inputs alone"""
        ig, al, res = [], [], []
        for st in case["steps"]:
            if st["op"] == "set":
                if "ignore" in st: ig = st["ignore"]
                if "allow" in st: al = st["allow"]
            else:
                res.append((st, ig, al))
        return res

    @staticmethod
    def render_spec(case):
        eol = lambda lf: b"\n" if lf else b"\r\n"
        d = unhx(case["rl_hex"]) + eol(case["rl_lf"])
        for f in case["fields"]:
            d += unhx(f["n"]) + b":" + unhx(f["o1"]) + unhx(f["v"]) + unhx(f["o2"]) + eol(f["lf"])
        return d + eol(case["end_lf"])

    def impl_spec(self, case):
        class C: pass
        c = C(); c.client = C(); c.client.transport_protocol = "tcp"
        d = self.render_spec(case)
        try:
            r = NextLayer._get_host_header(c, d + unhx(case["rest_hex"]), b"")
            r = None if r is None else hx(enc(r))
        except NeedsMoreData:
            r = "need"
        return {"rendered": hx(d), "hh": r}

    def impl_tlsig(self, case):
        from mitmproxy.proxy.layers.tls import TlsClienthelloHook
        nl = NextLayer()
        dtls = bool(case["dtls"])
        transport = "udp" if dtls else "tcp"
        with taddons.context(nl, proxyserver.Proxyserver()) as tctx:
            tctx.options.connection_strategy = "eager"
            cl = Client(peername=("198.51.100.1", 40000), sockname=("127.0.0.1", 8080), state=ConnectionState.OPEN,
                        proxy_mode=mode_specs.ProxyMode.parse("transparent"), timestamp_start=1.0, transport_protocol=transport)
            ctx = context.Context(cl, tctx.options)
            ctx.server.transport_protocol = transport
            ctx.server.address = ("192.0.2.9", 443)
            seen = []

            forced = []

            def on_hook(w, h):
                if isinstance(h, layer.NextLayerHook) and not forced:
                    # the stack NextLayer._next_layer instantiates for TLS (3a); forced so that the ClientTLSLayer sees every segmentation
                    st = tls_layers.ServerTLSLayer(h.data.context)
                    st.child_layer = tls_layers.ClientTLSLayer(h.data.context)
                    h.data.layer = st; forced.append(1)
                    return
                tctx.master.addons.trigger(h)
                if isinstance(h, TlsClienthelloHook):
                    h.data.ignore_connection = True
                    seen.append("tls_clienthello")
            w = World(modes.TransparentProxy(ctx), ctx, on_hook=on_hook)
            w.start()
            chunks = []
            for seg in case["flight"] + case["after"]:
                before = len(w.sent_to("server0"))
                if not w.recv("client", unhx(seg)): break
                new = w.sent_to("server0")[before:]
                if new: chunks.append(hx(new))
            state = "parsed" if "tls_clienthello" in seen else ("failed" if not (ctx.client.state & ConnectionState.CAN_READ) or any(
                t[0] == "close" and t[1] == "client" for t in w.trace) else "waiting")
            hooks = [n for n in w.hook_names() if n.startswith(("tls_", "tcp_", "udp_", "request", "response"))]
            return {"state": state, "toServer": chunks, "toClient": hx(w.sent_to("client")), "hooks": hooks, "first": seen[:1],
                    "errors": [e[:2] for e in w.errors]}

    # ================================================================================ property oracle
    def oracle(self, case, obs):
        k = case["kind"]
        fails = []
        if isinstance(obs, dict) and "__setup__" in obs:
            return ["harness: " + obs["__setup__"]]
        if k == "hh":
            full = unhx(case["full_hex"]); dc = unhx(case["dc_hex"])
            if not case["tcp"] or case["ds_hex"] != "-":
                if obs["hh"] is not None: fails.append("host header reported although the client is not tcp / the server spoke first")
                return fails
            s = spec_host(full)
            if s[0] == "ok":
                want = None if s[1] is None else hx(s[1])
                # "HTTP Host header as HTTP defines it": the first Host field of the well-formed head
                if obs["hh_full"] != want:
                    fails.append(f"host: head {full!r}: HTTP defines Host = {s[1]!r}, _get_host_header gives {obs['hh_full']!r}")
                # "the decision does not depend on how the first client bytes are segmented": an answer on a prefix is final
                if full.startswith(dc) and obs["hh"] != "need" and obs["hh"] != want:
                    fails.append(f"seg-dependent: prefix {dc!r} of {full!r} already answers {obs['hh']!r} (whole head: {want!r})")
            return fails
        if k in ("ig", "nl"):
            cfg = case["cfg"]; dc = unhx(case["dc_hex"])
            exp = self.expect(case, dc)
            if exp is not None:
                if obs["dec"] == "need":
                    fails.append("verdict: no verdict on a complete first flight")
                elif obs["dec"] != exp:
                    fails.append(f"verdict: expected {'excluded' if exp else 'not excluded'} by the allow/ignore rules, _ignore_connection says {obs['dec']}")
            if k == "nl" and obs["stack"] != "need" and obs["dec"] != "need":
                relay = obs["stack"] in (["tcp-ignore"], ["udp-ignore"]) or (cfg.get("show") and obs["stack"] in (["tcp"], ["udp"]))
                if obs["dec"] == 1 and not relay:
                    fails.append(f"passthrough: excluded connection gets stack {obs['stack']}")   # "no TLS is terminated, no HTTP is parsed"
                if obs["dec"] == 0 and any(x.endswith("-ignore") for x in obs["stack"]):
                    fails.append(f"intercept: connection not excluded by the rules is passed through: {obs['stack']}")
            return fails
        if k == "e2e":
            return self.oracle_e2e(case, obs)
        if k == "spec":
            d = unhx(obs["rendered"]) + unhx(case["rest_hex"])
            sp = spec_host(d)
            if sp[0] == "ok":
                want = None if sp[1] is None else hx(sp[1])
                if obs["hh"] != want:
                    fails.append(f"host: head {d!r}: HTTP defines Host = {sp[1]!r}, _get_host_header gives {obs['hh']!r}")
            return fails
        if k == "hist":
            # every connection is judged by the allow/ignore rules in force when it is decided
            for i, ((st, ig, al), o) in enumerate(zip(self.hist_options(case), obs["conns"])):
                cfg = dict(st["cfg"], ignore=ig, allow=al)
                exp = self.expect({"cfg": cfg, "intent": st["intent"], "ds_hex": st["ds_hex"]}, unhx(st["dc_hex"]))
                if exp is None: continue
                if o["dec"] == "need":
                    fails.append(f"history: connection #{i}: no verdict on a complete first flight")
                elif o["dec"] != exp:
                    fails.append(f"history: connection #{i} to {st['cfg']['addr']}: options in force ignore={[pat_regex(p) for p in ig]} "
                                 f"allow={[pat_regex(p) for p in al]} => {'excluded' if exp else 'not excluded'}, _ignore_connection says {o['dec']}")
                elif o["stack"] != "need":
                    relay = o["stack"] in (["tcp-ignore"], ["udp-ignore"])
                    if bool(exp) != relay:
                        fails.append(f"history: connection #{i}: verdict {'excluded' if exp else 'not excluded'} but stack {o['stack']}")
            return fails
        if k == "tlsig":
            if obs["errors"]: fails.append(f"layer raised: {obs['errors'][:1]}")
            sent = b"".join(unhx(x) for x in obs["toServer"])
            allc = b"".join(unhx(x) for x in case["flight"] + case["after"])
            if case.get("complete") and obs["state"] != "parsed":
                # "every byte is relayed ... including bytes received before the decision": the decision must come once the hello is complete
                fails.append(f"passthrough(tls): complete ClientHello delivered but ClientTLSLayer is '{obs['state']}', relayed {len(sent)} of {len(allc)} bytes")
            if obs["state"] == "parsed":
                # "every byte is relayed unmodified and in order ..., including bytes received before the decision"
                if sent != allc: fails.append(f"passthrough(tls): server got {sent.hex()} client sent {allc.hex()}")
                if obs["toClient"] != "-": fails.append("passthrough(tls): mitmproxy wrote to the client on an ignored connection")
                if any(h.startswith(("tls_start", "tls_established", "tcp_", "udp_", "request")) for h in obs["hooks"]):
                    fails.append(f"passthrough(tls): hooks {obs['hooks']} on an ignored connection")
            return fails
        return fails

    def expect(self, case, dc):
        """expected verdict by the property statement, or None when the first flight is not a complete well-formed one"""
        cfg = case["cfg"]; intent = case.get("intent")
        if case.get("ds_hex", "-") != "-": return None
        if not cfg["tcp"] and isinstance(intent, dict):
            return expected_verdict(cfg, None, intent["sni"])
        if not cfg["tcp"]: return None
        if isinstance(intent, dict):
            return expected_verdict(cfg, None, intent["sni"])
        if intent == "spec":
            s = spec_host(dc)
            if s[0] == "ok":
                if s[1] is not None and outside_model(dec(s[1])): return None
                return expected_verdict(cfg, s[1], None)
        return None

    def oracle_e2e(self, case, obs):
        fails = []
        cfg = case["cfg"]
        if obs["errors"] and (obs["stack"] is None or obs["stack"] in (["tcp-ignore"], ["udp-ignore"], ["tcp"], ["udp"])):
            return [f"layer raised: {obs['errors'][:1]}"]      # (after interception the missing TLS addon makes the TLS layers fail)
        flight = [unhx(x) for x in case["flight"]]
        whole = b"".join(flight)
        c = dict(cfg)
        eager = case["strategy"] == "eager" and cfg["tcp"]
        c["peer"] = cfg["peer"] if eager else None
        if eager and not cfg.get("peer"): c["peer"] = cfg["addr"]   # world: peername defaults to the address
        exp = self.expect({"cfg": c, "intent": case["intent"]}, whole)
        stack = obs["stack"]
        is_relay = stack in (["tcp-ignore"], ["udp-ignore"]) or (cfg.get("show") and stack in (["tcp"], ["udp"]) and exp == 1)
        n_flight = sum(1 for e in obs["events"][: len(flight)] if e.startswith("c:"))
        if exp is not None and n_flight == len(flight):
            if stack is None:
                later = sum(1 for e in obs["events"][len(flight):] if e.startswith("c:"))
                fails.append(f"verdict: no layer chosen after the complete first flight ({len(whole)} bytes) and {later} later client "
                             f"segment(s): nothing is relayed, the connection hangs")
            elif bool(exp) != bool(is_relay):
                # at which prefix was the decision taken?
                k = obs.get("decided_at")
                p = b"".join(flight[: (k + 1) if k is not None else len(flight)])
                if len(p) < len(whole) and tls_minimum_pending(p):
                    pass    # "beyond the documented minimum needed to recognise TLS"
                elif len(p) < len(whole) and req_line_pending(p) and cfg["tcp"]:
                    fails.append(f"seg-dependent: decided on {p!r} (inside the request line): stack {stack}, whole flight {'excluded' if exp else 'not excluded'}")
                else:
                    fails.append(f"verdict: expected {'excluded' if exp else 'not excluded'}, chosen stack {stack}")
        if stack in (["tcp-ignore"], ["udp-ignore"]):
            # relay exactness for what was really delivered, whether or not we could predict the verdict
            toS = b"".join(unhx(t[2:]) for st in obs["steps"] for t in st if t.startswith("S:"))
            toC = b"".join(unhx(t[2:]) for st in obs["steps"] for t in st if t.startswith("C:"))
            gotC = b"".join(unhx(e[2:]) for e in obs["events"] if e.startswith("c:"))
            gotS = b"".join(unhx(e[2:]) for e in obs["events"] if e.startswith("s:"))
            failed = "err" in obs["events"]
            established = obs["connected"] or "ok" in obs["events"]
            if established and not failed:
                if toS != gotC: fails.append(f"passthrough: server got {toS!r}, client sent {gotC!r}")
                if toC != gotS: fails.append(f"passthrough: client got {toC!r}, server sent {gotS!r}")
            elif toS or toC:
                fails.append("passthrough: bytes written without an established server connection")
            if obs["hooks"]:
                fails.append(f"passthrough: hooks {obs['hooks']} ran on an ignored connection")
        return fails

    def known(self, case, obs, failure):
        """id of the recorded finding iff the INPUT is in the finding's recorded class AND the FAILURE is the recorded one
        (clause of the oracle + the structured fact the finding describes); everything else is reported."""
        k = case["kind"]
        if not isinstance(obs, dict): return None
        # ---- F-C19b: the bytes at the deciding point end inside the request line and _get_host_header answered "no Host
        #      header" there (None), where the whole flight has one => clause "seg-dependent" only
        if failure.startswith("seg-dependent:"):
            if k == "hh" and case["tcp"] and case["ds_hex"] == "-" and req_line_pending(unhx(case["dc_hex"])) and obs.get("hh") is None:
                return "F-C19b"
            if k == "e2e" and case["cfg"]["tcp"]:
                flight = [unhx(x) for x in case["flight"]]
                at = obs.get("decided_at")
                if at is not None:
                    p = b"".join(flight[: at + 1])
                    if len(p) < len(b"".join(flight)) and req_line_pending(p) and self.verdict_without_host(case, obs):
                        return "F-C19b"
        # ---- F-C19c: method token not starting with three letters, well-formed head; the recorded failure is "the Host
        #      header is not consulted": _get_host_header gives None / the verdict equals the verdict without Host header
        if failure.startswith(("host:", "seg-dependent:")) and k == "hh" and case["tcp"] and case["ds_hex"] == "-":
            full = unhx(case["full_hex"])
            if odd_method(full) and spec_host(full)[0] == "ok":
                if failure.startswith("host:") and obs.get("hh_full") is None: return "F-C19c"
                if failure.startswith("seg-dependent:") and obs.get("hh") is None: return "F-C19c"
        if failure.startswith("verdict: expected") and k in ("ig", "nl", "e2e") and case["cfg"]["tcp"] and case.get("intent") == "spec":
            data = unhx(case["dc_hex"]) if k in ("ig", "nl") else b"".join(unhx(x) for x in case["flight"])
            if odd_method(data) and spec_host(data)[0] == "ok" and self.verdict_without_host(case, obs):
                return "F-C19c"
        return None

    def verdict_without_host(self, case, obs):
        """structured fact behind F-C19b/c: the observed verdict is the one the rules give when the Host header is left out"""
        cfg = dict(case["cfg"])
        if case["kind"] == "e2e":
            eager = case["strategy"] == "eager" and cfg["tcp"]
            cfg["peer"] = (cfg.get("peer") or cfg["addr"]) if eager else None
            if obs.get("stack") is None: return False
            seen = int(obs["stack"] in (["tcp-ignore"], ["udp-ignore"]) or bool(cfg.get("show") and obs["stack"] in (["tcp"], ["udp"])))
        else:
            if obs.get("dec") not in (0, 1): return False
            seen = obs["dec"]
        return seen == expected_verdict(cfg, None, None)

    def known_selftest(self):
        """known_audit.txt: one positive witness per finding and near misses (same class / other failure; neighbouring input /
        same failure) — a disagreement ends the run as an infrastructure error, not as a pass"""
        full = b"GET / HTTP/1.1\r\nHost:example.com\r\n\r\n"
        odd = b"M-SEARCH * HTTP/1.1\r\nHost: example.com\r\n\r\n"
        ig = lambda lit: {"s": 0, "e": 0, "lit": lit}
        cfg = {"tcp": 1, "ignore": [ig("example.com")], "allow": [], "wg": 0, "peer": None, "addr": ["192.0.2.1", 80], "csni": None}
        hh = lambda dc, fl, **kw: dict({"kind": "hh", "tcp": 1, "dc_hex": hx(dc), "ds_hex": "-", "full_hex": hx(fl)}, **kw)
        e2e = lambda flight: {"kind": "e2e", "mode": "transparent", "scheme": "tcp", "strategy": "lazy", "cfg": dict(cfg, show=0, addr=["192.0.2.9", 80]),
                              "flight": [hx(x) for x in flight], "script": [], "intent": "spec"}
        want = hx(b"example.com")
        T = [
            # F-C19b positive, and its near misses
            (hh(b"GET / HT", full), {"hh": None, "hh_full": want}, "seg-dependent: prefix ...", "F-C19b"),
            (hh(b"GET / HT", full), {"hh": None, "hh_full": None}, "host: head ...", None),                       # same input, other clause
            (hh(b"GET / HT", full), {"hh": hx(b"evil"), "hh_full": want}, "seg-dependent: prefix ...", None),      # same input, a wrong host instead of none
            (hh(b"GET / HTTP/1.1\r\nHo", full), {"hh": None, "hh_full": want}, "seg-dependent: prefix ...", None),   # neighbour: request line complete
            (hh(b"GET / HT", full, tcp=0), {"hh": None, "hh_full": want}, "seg-dependent: prefix ...", None),
            (e2e([full[:8], full[8:]]), {"stack": ["http-transparent"], "decided_at": 0, "steps": [], "events": []}, "seg-dependent: decided on ...", "F-C19b"),
            (e2e([full[:8], full[8:]]), {"stack": ["http-transparent"], "decided_at": 0, "steps": [], "events": []}, "passthrough: server got ...", None),
            (e2e([full[:20], full[20:]]), {"stack": ["http-transparent"], "decided_at": 0, "steps": [], "events": []}, "seg-dependent: decided on ...", None),
            (e2e([full[:8], full[8:]]), {"stack": ["tcp-ignore"], "decided_at": 0, "steps": [], "events": []}, "seg-dependent: decided on ...", None),   # not the host-less verdict
            # F-C19c positive, and its near misses
            (hh(odd, odd), {"hh": None, "hh_full": None}, "host: head ...", "F-C19c"),
            (hh(odd[:30], odd), {"hh": None, "hh_full": None}, "seg-dependent: prefix ...", "F-C19c"),
            (hh(odd, odd), {"hh": hx(b"evil"), "hh_full": hx(b"evil")}, "host: head ...", None),                 # same input, wrong value instead of none
            (hh(full, full), {"hh": None, "hh_full": None}, "host: head ...", None),                              # neighbour: GET
            (hh(b"M-SEARCH * HTTP/1.1\r\nHost : x\r\n\r\n", b"M-SEARCH * HTTP/1.1\r\nHost : x\r\n\r\n"), {"hh": None, "hh_full": None}, "host: head ...", None),   # malformed head
            ({"kind": "ig", "cfg": cfg, "dc_hex": hx(odd), "ds_hex": "-", "intent": "spec"}, {"dec": 0}, "verdict: expected excluded by the allow/ignore rules, ...", "F-C19c"),
            ({"kind": "ig", "cfg": cfg, "dc_hex": hx(odd), "ds_hex": "-", "intent": "spec"}, {"dec": "need"}, "verdict: no verdict on a complete first flight", None),
            ({"kind": "ig", "cfg": dict(cfg, ignore=[ig("192.0.2.1")]), "dc_hex": hx(odd), "ds_hex": "-", "intent": "spec"}, {"dec": 0}, "verdict: expected excluded ...", None),  # not the host-less verdict
            ({"kind": "ig", "cfg": cfg, "dc_hex": hx(full), "ds_hex": "-", "intent": "spec"}, {"dec": 0}, "verdict: expected excluded ...", None),
            (e2e([odd]), {"stack": ["http-transparent"], "decided_at": 0, "steps": [], "events": []}, "verdict: expected excluded, chosen stack ...", "F-C19c"),
            (e2e([odd]), {"stack": ["tcp-ignore"], "decided_at": 0, "steps": [], "events": []}, "passthrough: server got b'' ...", None),
            (e2e([odd]), {"stack": None, "decided_at": None, "steps": [], "events": []}, "verdict: no layer chosen after the complete first flight ...", None),
            # the repaired F-C19d class is no longer excused
            (hh(b"GET / HTTP/1.1\nHost: a\n\n", b"GET / HTTP/1.1\nHost: a\n\n"), {"hh": "need", "hh_full": "need"}, "host: head ...", None),
        ]
        for case, obs, failure, expect in T:
            got = self.known(case, obs, failure)
            assert got == expect, f"known() self-test: {failure!r} on {json.dumps(case)[:200]} -> {got}, expected {expect}"

    # ================================================================================ model tie
    @staticmethod
    def pats_field(pats):
        if not pats: return "."
        for p in pats:
            if any(ord(ch) > 127 for ch in p["lit"]): raise Skip()
        return ",".join("%d:%d:%s" % (p["s"], p["e"], hx(p["lit"].encode())) for p in pats)

    @staticmethod
    def addr_field(a):
        return "none" if not a else "%s:%d" % (hx(a[0].encode()), a[1])

    def cfg_fields(self, cfg, dc):
        if outside_model(dec(dc)) and cfg["tcp"]: raise Skip()
        valid = []       # check.is_valid_host is no longer a parameter of the tie: the driver runs C13's transcription Np.validHostFull
        alpn = cfg.get("alpn")
        return [str(cfg["tcp"]), self.pats_field(cfg["ignore"]), self.pats_field(cfg["allow"]), str(cfg.get("wg", 0)),
                self.addr_field(cfg.get("peer")), self.addr_field(cfg.get("addr")),
                "none" if cfg.get("csni") is None else hx(cfg["csni"].encode()),
                ",".join(hx(v) for v in valid) if valid else ".", quic_param(dc, cfg), cfg.get("top", "other"),
                str(cfg.get("show", 0)), str(cfg.get("rawtcp", 1)), self.pats_field(cfg.get("tcp_hosts", [])),
                self.pats_field(cfg.get("udp_hosts", [])), ("none" if not alpn else hx(alpn.encode())), "-",
                str(int(cfg.get("tlsver") == "QUICv1"))]

    def model_lines(self, case):
        k = case["kind"]
        if k == "hh":
            if outside_model(dec(unhx(case["dc_hex"]))): raise Skip()
            return [f"hh {case['tcp']} {case['dc_hex']} {case['ds_hex']}"]
        if k in ("ig", "nl"):
            dc = unhx(case["dc_hex"])
            f = " ".join(self.cfg_fields(case["cfg"], dc)) + f" {case['dc_hex']} {case['ds_hex']}"
            return ["ig " + f] + (["nl " + f] if k == "nl" else [])
        if k == "e2e":
            obs = self._stash.pop(json.dumps(case, sort_keys=True), None)
            if obs is None:
                obs = self.impl_e2e(case); self._stash.pop(json.dumps(case, sort_keys=True), None)
            if "__setup__" in obs: return None
            cfg = dict(case["cfg"])
            cfg["top"] = "rev-" + case["scheme"] if case["mode"] == "reverse" else "other"
            if case["strategy"] == "eager" and cfg["tcp"]:
                cfg["peer"] = cfg.get("peer") or cfg["addr"]
            else:
                cfg["peer"] = None     # set when the connection is opened, after the decision
            whole = b"".join(unhx(e[2:]) for e in obs["events"] if e.startswith("c:"))
            first = b"".join(unhx(x) for x in case["flight"])
            return ["run " + " ".join(self.cfg_fields(cfg, first if whole.startswith(first) else whole)) + f" {obs['connected']} " + " ".join(obs["events"])]
        if k == "tlsig":
            return ["tls " + " ".join([str(case["dtls"])] + case["flight"] + case["after"])]
        if k == "spec":
            if outside_model(dec(self.render_spec(case))): raise Skip()
            return ["spec %s %d %d " % (case["rl_hex"], case["rl_lf"], case["end_lf"]) +
                    " ".join("%s:%s:%s:%s:%d" % (f["n"], f["o1"], f["v"], f["o2"], f["lf"]) for f in case["fields"])]
        if k == "hist":
            lines = ["hreset"]
            for st in case["steps"]:
                if st["op"] == "set":
                    lines.append("hset %s %s" % (self.pats_field(st["ignore"]) if "ignore" in st else "=", self.pats_field(st["allow"]) if "allow" in st else "="))
                else:
                    cfg = dict(st["cfg"], ignore=[], allow=[])      # the pattern fields come from the model's addon state
                    lines.append("hconn " + " ".join(self.cfg_fields(cfg, unhx(st["dc_hex"]))) + f" {st['dc_hex']} {st['ds_hex']}")
            return lines
        return None

    def model_obs(self, case, replies):
        k = case["kind"]
        if k == "hh": return replies[0]
        if k == "ig": return replies[0].split(" ")[:2] if replies[0] != "need" else ["need"]
        if k == "nl":
            a = replies[0].split(" ")[:2] if replies[0] != "need" else ["need"]
            return [a, replies[1]]
        if k == "e2e":
            toks = replies[0].split(" ")
            stack = toks[-1]; steps = toks[:-2]
            if stack not in ("tcp-ignore", "udp-ignore", "tcp", "udp", "."):
                return {"stack": stack}
            return {"stack": stack, "steps": [self.norm_step(s) for s in steps]}
        if k == "tlsig":
            st, _, l = replies[0].partition(" ")
            return [st, l]
        if k == "spec":
            return replies[0]
        if k == "hist":
            return [r for r in replies if r != "ok"]
        return replies

    @staticmethod
    def norm_step(s):
        return [] if s == "." else s.split(",")

    def impl_view(self, case, obs):
        k = case["kind"]
        if k == "hh":
            return "need" if obs["hh"] == "need" else ("none" if obs["hh"] is None else "some " + obs["hh"])
        if k == "ig":
            return ["need"] if obs["dec"] == "need" else ["ok", str(obs["dec"])]
        if k == "nl":
            a = ["need"] if obs["dec"] == "need" else ["ok", str(obs["dec"])]
            return [a, "need" if obs["stack"] == "need" else "ok " + ",".join(obs["stack"])]
        if k == "e2e":
            stack = "." if obs["stack"] is None else ",".join(obs["stack"])
            if stack not in ("tcp-ignore", "udp-ignore", "tcp", "udp", "."):
                return {"stack": stack}
            return {"stack": stack, "steps": obs["steps"]}
        if k == "tlsig":
            return [obs["state"], ",".join(obs["toServer"]) if obs["toServer"] else "."]
        if k == "spec":
            # the Lean rendering of the structured head = the bytes given to the real code, and specHost = the real answer
            return obs["rendered"] + " " + ("none" if obs["hh"] is None else obs["hh"] if obs["hh"] == "need" else "some " + obs["hh"])
        if k == "hist":
            return ["need" if (o["dec"] == "need" or o["stack"] == "need") else "ok %d %s" % (o["dec"], ",".join(o["stack"])) for o in obs["conns"]]
        return obs

    # ================================================================================ bookkeeping
    def classify(self, case, obs):
        k = case["kind"]
        if k == "hh": return None if case["dc_hex"] == "-" else ("hh", case["tcp"], case["dc_hex"], case["ds_hex"])
        if k in ("ig", "nl"):
            c = case["cfg"]
            if not (c["ignore"] or c["allow"]) or not (c.get("addr") or c.get("peer")): return None
        return json.dumps(case, sort_keys=True)

    def branches(self, case, obs):
        k = case["kind"]; out = ["kind:" + k]
        if isinstance(obs, dict) and "__setup__" in obs: return out + ["setup-problem"]
        if k == "hh":
            out.append("hh:" + ("need" if obs["hh"] == "need" else "none" if obs["hh"] is None else "some"))
            out.append("hh-spec:" + spec_host(unhx(case["full_hex"]))[0])
        elif k in ("ig", "nl"):
            out.append(f"{k}:dec={obs['dec']}")
            out.append("rules:" + ("both" if case["cfg"]["ignore"] and case["cfg"]["allow"] else "ignore" if case["cfg"]["ignore"] else "allow" if case["cfg"]["allow"] else "none"))
            out.append("transport:" + ("tcp" if case["cfg"]["tcp"] else "udp"))
            out.append("oracle:" + ("predicted" if self.expect(case, unhx(case["dc_hex"])) is not None else "tie-only"))
            if k == "nl": out.append("stack:" + ("need" if obs["stack"] == "need" else ",".join(obs["stack"])))
        elif k == "e2e":
            out.append("e2e:" + case["mode"] + "/" + case["strategy"])
            out.append("e2e-stack:" + ("undecided" if obs["stack"] is None else ",".join(obs["stack"])))
            out.append("e2e-segments:%d" % min(len(case["flight"]), 4))
            if "ok" in obs["events"]: out.append("e2e:connect-after-decision")
            if "err" in obs["events"]: out.append("e2e:connect-failed")
        elif k == "tlsig":
            out.append("tlsig:" + obs["state"])
        elif k == "spec":
            out.append("spec:fields=%d" % len(case["fields"])); out.append("spec:" + ("need" if obs["hh"] == "need" else "none" if obs["hh"] is None else "some"))
        elif k == "hist":
            opts = self.hist_options(case)
            out.append("hist:conns=%d" % min(len(opts), 8))
            seen = {}
            for (st, ig, al), o in zip(opts, obs["conns"]):
                key = (st["dc_hex"], json.dumps(st["cfg"]["addr"]))
                if key in seen and seen[key] != (json.dumps(ig), json.dumps(al)): out.append("hist:same-destination-after-option-change"); break
                seen[key] = (json.dumps(ig), json.dumps(al))
            if any(o["dec"] == 1 for o in obs["conns"]) and any(o["dec"] == 0 for o in obs["conns"]): out.append("hist:both-verdicts")
        return out

    def shrink_candidates(self, case):
        """generic reductions, but never let a reduced byte string keep the structured intent (the SNI the generator put
        into the ClientHello) it no longer carries"""
        from common.check import generic_shrink
        for c in generic_shrink(case):
            if isinstance(case.get("intent"), dict) and (c.get("flight") != case.get("flight") or c.get("dc_hex") != case.get("dc_hex")):
                continue
            if c.get("kind") == "hh" and c.get("full_hex") != case.get("full_hex"):
                continue
            if c.get("kind") == "hist":       # histories shrink by dropping steps, never by cutting a flight below its intent
                orig = {st.get("dc_hex") for st in case["steps"]}
                if any(st.get("dc_hex") not in orig for st in c["steps"]) or not any(st["op"] == "conn" for st in c["steps"]):
                    continue
            yield c

    def neighbours(self, case, rng):
        if case["kind"] == "hh":
            d = unhx(case["dc_hex"])
            for _ in range(200):
                m = self.mutate(rng, d)
                yield {"kind": "hh", "tcp": 1, "dc_hex": hx(m), "ds_hex": "-", "full_hex": hx(m)}
        elif case["kind"] in ("ig", "nl"):
            for _ in range(100):
                c = json.loads(json.dumps(case))
                c["dc_hex"] = hx(self.head(rng, self.host_value(rng)))
                c["intent"] = "spec"
                yield c

    def exhaustive(self, tier):
        for name, o1, o2, pre in itertools.product(self.NAMES, self.OWS, self.OWS, ([], [b"X-A: b"], [b"X-A: b", b"Accept: */*"])):
            for hv in (b"example.com", b"example.com:8080", b"192.0.2.7"):
                d = b"\r\n".join([b"GET / HTTP/1.1"] + pre + [name + b":" + o1 + hv + o2]) + b"\r\n\r\n"
                yield {"kind": "hh", "tcp": 1, "dc_hex": hx(d), "ds_hex": "-", "full_hex": hx(d)}
                yield {"kind": "ig", "cfg": {"tcp": 1, "ignore": [{"s": 0, "e": 0, "lit": "example.com"}], "allow": [], "wg": 0, "peer": None,
                                             "addr": ["192.0.2.1", 80], "csni": None}, "dc_hex": hx(d), "ds_hex": "-", "intent": "spec"}
                yield {"kind": "ig", "cfg": {"tcp": 1, "ignore": [], "allow": [{"s": 0, "e": 0, "lit": "example.com"}], "wg": 0, "peer": None,
                                             "addr": ["192.0.2.1", 80], "csni": None}, "dc_hex": hx(d), "ds_hex": "-", "intent": "spec"}
