"""C20 — proxy authentication is enforced on every entry path.

Anchors: mitmproxy/addons/proxyauth.py (ProxyAuth.requestheaders / http_connect / socks5_auth / authenticate_http,
parse_http_basic_auth, validators), mitmproxy/proxy/layers/modes.py (Socks5Proxy.state_greet / state_auth),
mitmproxy/proxy/layers/http/__init__.py (HttpStream: a response set in requestheaders / http_connect is sent instead of
opening upstream).

Three kinds of cases, all answered by the REAL ProxyAuth addon (taddons.context(ProxyAuth(), NextLayer(), Proxyserver())
+ tctx.master.addons.trigger(hook)):
  conn  — end to end: 1–2 client connections (each with its own proxy mode) are driven through the real mode layer
          (HttpProxy / HttpUpstreamProxy / ReverseProxy / TransparentProxy / Socks5Proxy -> NextLayer -> HttpLayer ...)
          in harness/common/world.py; an origin stub answers every request head that reaches an upstream connection
          with status 299.  Observed per step: statuses / SOCKS replies received by the client, request heads (with
          all header fields except Host) that reached an upstream connection, tunnels opened, connection closed.
  hook  — the addon's hook methods called directly on synthetic flows (covers the replay exemption and header strings
          the HTTP/1 parser would normalise: leading/trailing/exotic whitespace, lone surrogates).
  parse — parse_http_basic_auth alone (user / password extracted).
"""
import base64, binascii, hashlib, os, re
from typing import Optional

from common.check import PropertyCheck, Skip, hx, unhx
from common.paths import WORK
from common.world import World

from mitmproxy import http
from mitmproxy.addons import next_layer, proxyauth, proxyserver, upstream_auth
from mitmproxy.connection import Client, ConnectionState
from mitmproxy.proxy import context, mode_specs
from mitmproxy.proxy.layers import modes
from mitmproxy.test import taddons, tflow

HT_DIR = os.path.join(WORK, "c20")
MODES = {"regular": "regular", "upstream": "upstream:http://up.example:3128", "reverse": "reverse:http://origin.example:80",
         "transparent": "transparent", "socks5": "socks5"}
TOP = {"regular": modes.HttpProxy, "upstream": modes.HttpUpstreamProxy, "reverse": modes.ReverseProxy,
       "transparent": modes.TransparentProxy, "socks5": modes.Socks5Proxy}
SOCKS_CONNECT = b"\x05\x01\x00\x03\x0eorigin.example\x00\x50"
SOCKS_OK = bytes.fromhex("05000001000000000000")


# ------------------------------------------------------------------------------------------------ wire helpers
def cps(s: str) -> str:
    """text on the driver wire: code points in hex separated by '.', '-' = empty"""
    return ".".join("%x" % ord(c) for c in s) or "-"


def uncps(s: str) -> str:
    return "" if s == "-" else "".join(chr(int(x, 16)) for x in s.split("."))


def hval(b: bytes) -> str:
    """a header value as http.Headers hands it to addons"""
    return b.decode("utf-8", "surrogateescape")


def has_surrogate(s: str) -> bool:
    return any(0xD800 <= ord(c) <= 0xDFFF for c in s)


def lib_decode_cred(tok: str):
    """the library part of parse_http_basic_auth: a2b_base64(tok.encode()).decode('utf8','replace'); None = binascii.Error"""
    try:
        return binascii.a2b_base64(tok.encode()).decode("utf8", "replace")
    except binascii.Error:
        return None


def lib_sock_decode(b: bytes) -> str:
    return b.decode("utf-8", "backslashreplace")


def ht_hash(pw: str) -> str:
    return "{SHA}" + base64.b64encode(hashlib.sha1(pw.encode("utf-8")).digest()).decode()


B64BC = "./ABCDEFGHIJKLMNOPQRSTUVWXYZabcdefghijklmnopqrstuvwxyz0123456789"


def bcrypt_hash(rng, pw: str) -> str:
    """htpasswd bcrypt entry (cost 4) with a salt drawn from the case PRNG"""
    import bcrypt
    salt = "$2b$04$" + "".join(rng.pick(B64BC) for _ in range(21)) + rng.pick(".Oeu")
    try:
        return bcrypt.hashpw(pw.encode("utf-8")[:72], salt.encode()).decode()
    except ValueError:
        return bcrypt.hashpw(pw.encode("utf-8")[:72], bcrypt.gensalt(4)).decode()


def ht_check(pwhash: str, pw: str):
    """library part of HtpasswdFile.check_password: True / False, or None when the hash comparison raises"""
    try:
        if pwhash.startswith("{SHA}"):
            return pwhash[5:] == base64.b64encode(hashlib.sha1(pw.encode("utf-8")).digest()).decode("ascii")
        import bcrypt
        return bcrypt.checkpw(pw.encode("utf-8"), pwhash.encode("utf-8"))
    except Exception:
        return None


class RaisingValidator(proxyauth.Validator):
    """fault injection: a validator whose __call__ raises for some inputs (an LDAP server error, a hashing library limit …)"""

    def __init__(self, inner, bad):
        self.inner, self.bad = inner, {tuple(x) for x in bad}

    def __call__(self, username: str, password: str) -> bool:
        if (username, password) in self.bad:
            raise RuntimeError("validator backend failure (injected)")
        return self.inner(username, password)


def ht_lines(val):
    return [f"{u}:{h}" for u, h in val["entries"]]


def ht_path(val):
    os.makedirs(HT_DIR, exist_ok=True)
    content = "# generated by harness/c20.py\n" + "".join(l + "\n" for l in ht_lines(val))
    p = os.path.join(HT_DIR, "ht_" + hashlib.sha1(content.encode("utf-8", "surrogatepass")).hexdigest()[:16] + ".htpasswd")
    if not os.path.exists(p):
        tmp = p + ".%d" % os.getpid()
        with open(tmp, "w", encoding="utf-8") as f: f.write(content)
        os.replace(tmp, p)
    return p


def proxyauth_option(val):
    k = val["k"]
    if k == "none": return None
    if k == "any": return "any"
    if k == "single": return val["u"] + ":" + val["p"]
    if k == "ht": return "@" + ht_path(val)
    raise ValueError(k)


def val_accepts(val, u: str, p: str) -> bool:
    """reference validator (what the configured credentials mean) — used by the oracle only"""
    k = val["k"]
    if [u, p] in val.get("raise_on", []): return False        # a validator that raises has not accepted anything
    if k == "any": return True
    if k == "single": return (u, p) == (val["u"], val["p"])
    if k == "ht":
        # what the htpasswd validator accepts is defined by the stored hash (library semantics: e.g. bcrypt reads the
        # password as a C string, so "\x00" matches the hash of ""): last entry for the user, compared by the hash library
        hs = [h for eu, h in val["entries"] if eu == u]
        return bool(hs) and ht_check(hs[-1].split(":", 1)[0], p) is True
    return False


AUTH_NAME = {True: "proxy-authorization", False: "authorization"}


def is_proxy_mode(mode): return mode in ("regular", "upstream")


def ref_presented(mode, hdrs):
    """reference reading (RFC 7617) of the credentials a request presents on this path: the single header of the
    path's name, 'Basic' SP token68, user = up to the first colon.  None when nothing well-formed is presented.
    Lenient cases (several headers, odd whitespace, lenient base64) are *not* decided here (returns 'unclear')."""
    name = AUTH_NAME[is_proxy_mode(mode)]
    vals = [unhx(v) for n, v in hdrs if n.lower() == name]
    if not vals: return None
    if len(vals) > 1: return "unclear"
    m = re.fullmatch(rb"[Bb][Aa][Ss][Ii][Cc] ([A-Za-z0-9+/]+={0,2})", vals[0])
    if not m: return "unclear" if b"basic" in vals[0].lower() else None
    try:
        raw = base64.b64decode(m.group(1), validate=True)
        txt = raw.decode("utf-8")
    except Exception:
        return "unclear"
    if ":" not in txt: return None
    u, p = txt.split(":", 1)
    return (u, p)


# ------------------------------------------------------------------------------------------------ request building
LIMITS = {"1k": 1024, "2k": 2048}


def body_segments(step):
    """client-side body bytes of a request step, already cut into delivery segments"""
    b = step.get("body")
    if not b or not b["n"]: return [] if not b or b["enc"] == "cl" else [b"0\r\n\r\n"]
    payload = bytes((i * 7 + 65) % 251 for i in range(b["n"]))
    k = max(1, min(b.get("segs", 1), b["n"]))
    size = -(-b["n"] // k)
    parts = [payload[i:i + size] for i in range(0, b["n"], size)]
    if b["enc"] == "cl": return parts
    return [b"%x\r\n" % len(x) + x + b"\r\n" for x in parts] + [b"0\r\n\r\n"]


def req_bytes(mode, tunnel, step, idx):
    hdrs = b"".join(n.encode("ascii") + b": " + unhx(v) + b"\r\n" for n, v in step["hdrs"])
    if step["m"] == "CONNECT":
        t = b"t%d.example:80" % idx
        return b"CONNECT " + t + b" HTTP/1.1\r\nHost: " + t + b"\r\n" + hdrs + b"\r\n"
    verb = b"POST" if step.get("body") else b"GET"
    if is_proxy_mode(mode) and not tunnel:
        return verb + b" http://origin.example/r%d HTTP/1.1\r\nHost: origin.example\r\n" % idx + hdrs + b"\r\n"
    return verb + b" /r%d HTTP/1.1\r\nHost: origin.example\r\n" % idx + hdrs + b"\r\n"


def is_big(case, step):
    """Content-Length declared above body_size_limit (HttpStream.check_body_size answers 413 before any hook result counts)"""
    lim = (case.get("opts") or {}).get("body_size_limit")
    b = step.get("body")
    return bool(lim and b and b["enc"] == "cl" and b["n"] > LIMITS[lim])


def parse_requests(data: bytes):
    """complete requests (head, body length) at the start of an upstream byte stream; returns (requests, bytes consumed)"""
    out, pos = [], 0
    while True:
        i = data.find(b"\r\n\r\n", pos)
        if i < 0: break
        head = data[pos:i + 4]
        lines = head[:-4].split(b"\r\n")
        hs = [(k.strip().lower(), v.strip()) for k, _, v in (l.partition(b":") for l in lines[1:])]
        cl = [v for k, v in hs if k == b"content-length"]
        te = [v for k, v in hs if k == b"transfer-encoding"]
        j = i + 4
        body = 0
        if lines[0].startswith(b"CONNECT "):
            pass
        elif te and b"chunked" in te[-1].lower():
            while True:
                e = data.find(b"\r\n", j)
                if e < 0: return out, pos
                try: n = int(data[j:e].split(b";")[0], 16)
                except ValueError: return out, pos
                j = e + 2
                if n == 0:
                    if len(data) < j + 2: return out, pos
                    j += 2; break
                if len(data) < j + n + 2: return out, pos
                body += n; j += n + 2
        elif cl:
            try: n = int(cl[0])
            except ValueError: return out, pos
            if len(data) < j + n: return out, pos
            body = n; j += n
        out.append((head, body)); pos = j
    return out, pos


def parse_heads(data: bytes):
    """request heads in an upstream byte stream (the generator sends no request bodies)"""
    out = []
    while True:
        i = data.find(b"\r\n\r\n")
        if i < 0: break
        lines = data[:i].split(b"\r\n"); data = data[i + 4:]
        first = lines[0].split(b" ")
        hs = []
        for l in lines[1:]:
            k, _, v = l.partition(b":")
            hs.append((k.lower(), v.strip(b" \t")))
        out.append((first[0], first[1] if len(first) > 1 else b"", hs))
    return out, data


def parse_pages(data: bytes):
    """(status, {field: value}, body) of every response in a client-bound byte stream"""
    out = []
    while data:
        i = data.find(b"\r\n\r\n")
        if i < 0: break
        lines = data[:i].split(b"\r\n")
        m = re.fullmatch(rb"HTTP/1\.[01] (\d{3}) (.*)", lines[0])
        if not m: break
        hs = {}
        for l in lines[1:]:
            k, _, v = l.partition(b":")
            hs[k.strip().lower()] = v.strip()
        n = int(hs.get(b"content-length", b"0"))
        out.append((int(m.group(1)), m.group(2), hs, data[i + 4:i + 4 + n]))
        data = data[i + 4 + n:]
    return out


def page_digest(status, reason, name, value, body):
    return hashlib.sha1(b"|".join([str(status).encode(), reason, name.lower(), value, body])).hexdigest()[:10]


def parse_statuses(data: bytes):
    out = []
    while data:
        i = data.find(b"\r\n\r\n")
        if i < 0: out.append("partial"); break
        lines = data[:i].split(b"\r\n")
        m = re.fullmatch(rb"HTTP/1\.[01] (\d{3}) .*", lines[0])
        if not m: out.append("garbage"); break
        n = 0
        for l in lines[1:]:
            k, _, v = l.partition(b":")
            if k.lower() == b"content-length": n = int(v.strip())
        out.append(int(m.group(1)))
        data = data[i + 4 + n:]
    return out


class Conn:
    def __init__(self, tctx, cid, mode):
        self.cid, self.mode = cid, mode
        spec = mode_specs.ProxyMode.parse(MODES[mode])
        self.client = Client(peername=("192.0.2.%d" % (cid + 1), 40000 + cid), sockname=("127.0.0.1", 8080),
                             state=ConnectionState.OPEN, proxy_mode=spec, timestamp_start=1.0)
        self.ctx = context.Context(self.client, tctx.options)
        if mode == "transparent":
            self.ctx.server.address = ("origin.example", 80)
        self.snap = []      # header fields of every flow at the moment the addon sees it

        def on_hook(w, h):
            if h.name.startswith("server_"): return
            if h.name in ("requestheaders", "http_connect"):
                self.snap.append([(k.lower(), v) for k, v in h.flow.request.headers.fields])
            tctx.master.addons.trigger(h)

        self.w = World(TOP[mode](self.ctx), self.ctx, on_hook=on_hook)
        self.w.start()
        self.pos, self.cpos, self.seen, self.nseen, self.upbytes = {}, 0, [], 0, 0
        self.tunnel = False

    def pump(self):
        """origin / upstream-proxy stub: answer every complete request that has arrived on an upstream connection"""
        w, progress = self.w, True
        while progress:
            progress = False
            for lab in w.server_labels():
                data = w.sent_to(lab); p = self.pos.get(lab, 0)
                reqs, used = parse_requests(data[p:])
                if not reqs: continue
                self.pos[lab] = p + used
                for head, blen in reqs:
                    self.seen.append((head, blen))
                    if head.startswith(b"CONNECT "):
                        w.recv(lab, b"HTTP/1.1 200 OK\r\n\r\n")
                    else:
                        w.recv(lab, b"HTTP/1.1 299 Forwarded\r\nContent-Length: 2\r\n\r\nok")
                progress = True

    def delta(self):
        """what became visible since the last step: client bytes, complete upstream requests, raw upstream byte count"""
        w = self.w
        cdata = w.sent_to("client"); cnew = cdata[self.cpos:]; self.cpos = len(cdata)
        heads = []
        for head, blen in self.seen[self.nseen:]:
            hs, _ = parse_heads(head)
            heads.append(hs[0] + (blen,))
        self.nseen = len(self.seen)
        total = sum(len(w.sent_to(lab)) for lab in w.server_labels())
        raw = total - self.upbytes; self.upbytes = total
        return cnew, heads, raw


def addon_order_lean(ns: str) -> str:
    """the order of mitmproxy.addons.default_addons() (hooks run in this order), read from the source"""
    import ast, inspect, textwrap
    from mitmproxy import addons as A
    tree = ast.parse(textwrap.dedent(inspect.getsource(A.default_addons)))
    names = []
    for node in ast.walk(tree):
        if isinstance(node, ast.Return) and isinstance(node.value, ast.List):
            for el in node.value.elts:
                f = el.func if isinstance(el, ast.Call) else el
                names.append(f.attr if isinstance(f, ast.Attribute) else getattr(f, "id", "?"))
    if not names: raise RuntimeError("default_addons(): no literal list found")
    return (f"/-- class names of mitmproxy.addons.default_addons(), in order (hooks run in this order) -/\n"
            f"def addonOrder : List String := [{', '.join(chr(34) + n + chr(34) for n in names)}]\n")


CONFDIR = os.path.join(WORK, "c20", "conf")


def default_chain():
    """fresh instances of mitmproxy's default addons, in source order"""
    from mitmproxy import addons as A
    chain = A.default_addons()
    return chain, {type(a).__name__: a for a in chain}


def quiet_logging():
    """every test master installs a log handler bound to its own (soon closed) event loop; an addon error logged by
    addonmanager.safecall would then raise from a stale handler and abort the hook chain — drop those handlers"""
    import logging
    from mitmproxy.log import MitmLogHandler
    root = logging.getLogger()
    for h in list(root.handlers):
        if isinstance(h, MitmLogHandler): root.removeHandler(h)
    lg = logging.getLogger("mitmproxy")
    if not any(isinstance(h, logging.NullHandler) for h in lg.handlers):
        lg.addHandler(logging.NullHandler()); lg.propagate = False      # safecall's error reports are not observables


class Check(PropertyCheck):
    prop = "C20"
    design_ref = "§5 C20"
    level_text = ("Lean theorems over ALL event sequences on any number of client connections (induction over the trace, "
                  "invariant: 'authenticated' and every tunnelled/SOCKS-relay phase imply an earlier accepted credential "
                  "presentation by the same client): unauthenticated_never_forwarded, auth_required_answer (407 / 401 / "
                  "SOCKS 05 FF / 01 01 + close), validator_accepts_implies_path_accepts, credential_header_removed; plus "
                  "(round 3) the decision as a closed formula for EVERY header list and mode (decision_for_every_header_list, "
                  "connect_decision, credsOk_iff, splitColon1_spec: user = text before the first colon), the 'authenticated once' "
                  "memo over whole histories (tunnel_requests_forwarded_verbatim, authenticated_memo_persists, "
                  "other_connections_unaffected: no cross-connection effect, authenticated_connection_passes, "
                  "no_validator_forwards_everything), the library part transcribed and proved: CPython's lenient a2b_base64, "
                  "b2a_base64, str.encode, mkauth (b64_roundtrip, mkauth_parses, standard_credential_wellformed, "
                  "standard_credentials_accepted_on_every_path: `Basic base64(utf8(u:p))` is accepted on every HTTP path with no "
                  "hypothesis on the token, passwords with ':' included), and the 401/407 page (auth_response_shape, "
                  "deny_code_is_response_status); the header-removal clause is stated for plain requests by credential_header_removed "
                  "and decision_for_every_header_list (every non-memoised request: fwd (hdrDel …)) and for the CONNECT path by "
                  "connect_hook_removes_credential_header / credential_header_removed_connect (the hook strips the field from the "
                  "flow; the CONNECT mitmproxy writes to an upstream proxy is a new head with Host only, upstreamConnectFields — "
                  "the tie requires exactly that head and the oracle scans it for the client's credential header); (round 4) NO library function of the token path is a parameter any more: "
                  "bytes.decode('utf8','replace') and bytes.decode('utf-8','backslashreplace') are transcribed (CPython's maximal-"
                  "subpart error ranges) and proved to invert str.encode on Unicode scalar values (utf8_roundtrip, "
                  "utf8_roundtrip_backslashreplace, decodeCredStd_b2a), giving the closed forms mkauth_parses_closed, "
                  "standard_credentials_accepted_on_every_path_closed and socks_standard_credentials_accepted (hypotheses: user "
                  "without ':', scalar values — nothing about base64 / UTF-8 / whitespace / case folding); HtpasswdFile.__init__ "
                  "(splitlines / strip / first-colon split / hash-format check) is transcribed and the end-to-end model parses the "
                  "file content itself (htparse_entries_wellformed, htparse_bad_line_rejects); ProxyAuth.configure's dispatch is "
                  "transcribed (configure_single_spec: the single-user validator exists exactly for values with one ':'); (round 5) "
                  "whatever a client sends, the user/password text handed to the validator consists of Unicode scalar values on "
                  "every path (basic_decoded_text_is_scalar, socks_decoded_text_is_scalar, a2b_bytes), so the validator's own "
                  "password.encode cannot raise; "
                  "and fail-closedness under a validator that RAISES (raising_validator_fails_closed, "
                  "raising_validator_fails_closed_socks, accepts_iff_check_ok: the validator is modelled as returning an Except; "
                  "bcrypt.checkpw on > 72 bytes and an injected raising validator are driven end to end). Model = ProxyAuth (parse_http_basic_auth, validators any/single/htpasswd-table, "
                  "requestheaders / http_connect / socks5_auth, authenticated set, make_auth_required_response) composed with the "
                  "per-connection path machine. Tied end-to-end: real mode layers + HttpLayer + real ProxyAuth addon in world.py "
                  "(per step: status AND the exact 401/407 page + challenge field predicted by the model, request heads reaching "
                  "upstream, tunnels, closes) and by unit ops (a2b_base64 / b2a_base64 / str.encode / mkauth / "
                  "make_auth_required_response against the transcriptions). End-to-end cases run through the REAL default addon chain "
                  "(mitmproxy.addons.default_addons(), all 31 addons, source order), with proxyauth x upstream_auth combined; the "
                  "order the models assume (ProxyAuth before UpstreamAuth and NextLayer; ScriptLoader / MapRemote / ModifyHeaders "
                  "before UpstreamAuth) is regenerated from the source into Gen and proved by addon_order_as_assumed.")
    level_note = ("trusted: Lean kernel; hand model tied differentially (validated, not verified). Library functions are "
                  "parameters of the model (Lib): str.isspace / str.lower tables regenerated from the running interpreter "
                  "(Gen/C20.lean: isspace, lower, splitlines boundaries, addon order; the closed-form theorems are proved for exactly "
                  "these tables); the htpasswd hash comparison (hashlib.sha1 / bcrypt.checkpw — third-party, incl. whether it "
                  "raises) is the ONLY remaining library parameter, its answers are supplied to the driver per case. a2b_base64, "
                  "b2a_base64, str.encode, both UTF-8 decoders, str.split/strip/splitlines, HtpasswdFile.__init__ and "
                  "ProxyAuth.configure are transcriptions, each tied by its own driver op (b64, b2a, enc, dec, decbs, mkauth, "
                  "htparse, conf) against CPython / mitmproxy on random and exhaustive small-scope inputs. LDAP validator excluded (needs a server); bcrypt entries "
                  "not generated. TLS inside tunnels and HTTP/2 are not driven (plain HTTP/1.1). Request bodies (Content-Length and "
                  "chunked, 0..5000 bytes in 1-4 segments) are driven under stream_large_bodies / body_size_limit / "
                  "store_streamed_bodies; the model knows one body fact: a declared Content-Length above body_size_limit is "
                  "refused with 413 + close by HttpStream.check_body_size before authentication counts (nothing forwarded; the "
                  "oracle accepts 413 like the 400 for a misplaced CONNECT); chunked bodies above body_size_limit are not "
                  "generated (the late 413 depends on segmentation). Cases that also load UpstreamAuth are oracle-only; "
                  "requests inside an already authenticated tunnel are forwarded verbatim (a Proxy-Authorization field there "
                  "is tunnel payload, not a credential presented to the proxy) — credential_header_removed speaks about the "
                  "request on which authentication happened. 'authenticated' is a WeakKeyDictionary: the model never removes "
                  "entries and assumes client ids are not reused. Reverse mode opens its upstream connection eagerly before "
                  "any request (no bytes are written) — the oracle counts bytes and CONNECT targets, not that open."
                  " Lenient branches of the oracle (each is decided by the model tie instead): a request whose credential header is "
                  "not a single strict `Basic <token68>` field (several fields, odd whitespace, lenient base64, no valid UTF-8) is "
                  "'unclear' and neither its acceptance nor its refusal is judged; requests inside an established HTTP CONNECT tunnel "
                  "are judged at the CONNECT; an unauthenticated request may be answered 400 (misplaced CONNECT), 413 (declared body "
                  "above body_size_limit) or not at all when an earlier step closed the connection; what an htpasswd validator accepts "
                  "is read from the stored hash with the hash library itself (bcrypt treats the password as a C string: \"\\x00\" "
                  "matches the hash of \"\"); with upstream_auth also set, a forwarded field of the credential header's name that "
                  "carries exactly the configured upstream credential is UpstreamAuth's, not the client's; a case is skipped when "
                  "the HTTP/1 parser did not hand the generated header fields to the addon verbatim.")
    technique = "Lean 4 proof (trace induction with an authentication invariant) + end-to-end differential correspondence through world.py with the real ProxyAuth addon"
    rule = ("scenario = validator (none/any/single/htpasswd-sha1 table) x 1-2 client connections with a proxy mode each "
            "(regular, upstream, reverse, transparent, socks5) x <=4 (quick) / <=6 steps interleaved over the connections; "
            "each request carries 0-3 credential-ish header fields (Proxy-Authorization / Authorization in varying case, "
            "duplicates) whose value is drawn from: valid pair for the validator, wrong pair, password with colons, empty "
            "user/password, non-ASCII, bad base64, no colon, wrong scheme, scheme case variants, extra inner whitespace, "
            "missing; 70% structured, 20% one-field mutations, 10% raw bytes; x options (stream_large_bodies 1k, body_size_limit 2k, "
            "store_streamed_bodies, connection_strategy lazy/eager, keep_host_header, validate_inbound_headers, upstream_auth) "
            "x request bodies (Content-Length / chunked, sizes around and above the thresholds, 1-4 segments) on every path. hook/parse cases add leading/trailing/Unicode "
            "whitespace, lone surrogates and the replay flag. distinct = distinct case; non-trivial = at least one request.")
    budget = {"quick": 2000, "thorough": 80000}
    time_budget = {"quick": 20, "thorough": 600}
    fingerprints = ["mitmproxy.addons.proxyauth:ProxyAuth", "mitmproxy.addons.proxyauth:parse_http_basic_auth",
                    "mitmproxy.addons.proxyauth:make_auth_required_response", "mitmproxy.addons.proxyauth:http_auth_header",
                    "mitmproxy.addons.proxyauth:is_http_proxy", "mitmproxy.addons.proxyauth:AcceptAll",
                    "mitmproxy.addons.proxyauth:SingleUser", "mitmproxy.addons.proxyauth:Htpasswd",
                    "mitmproxy.utils.htpasswd:HtpasswdFile.check_password", "mitmproxy.utils.htpasswd:HtpasswdFile.__init__",
                    "mitmproxy.proxy.layers.modes:Socks5Proxy.state_greet", "mitmproxy.proxy.layers.modes:Socks5Proxy.state_auth",
                    "mitmproxy.proxy.layers.http:HttpStream.state_wait_for_request_headers",
                    "mitmproxy.proxy.layers.http:HttpStream.state_consume_request_body",
                    "mitmproxy.proxy.layers.http:HttpStream.handle_connect", "mitmproxy.proxy.layers.http:HttpStream.handle_connect_finish",
                    "mitmproxy.proxy.layers.http:HttpStream.check_invalid", "mitmproxy.proxy.layers.http:HttpStream.check_body_size",
                    "mitmproxy.proxy.layers.http:HttpStream.start_request_stream", "mitmproxy.http:Headers.get_all",
                    "mitmproxy.addons:default_addons"]
    trusted_base = ["harness/common/world.py as a stand-in for proxy/server.py's command interpreter",
                    "binascii.a2b_base64, bytes.decode('utf8','replace'/'backslashreplace'), hashlib.sha1, str.split/str.lower as library parameters of the model",
                    "mitmproxy's HTTP/1 parser hands header fields to the addon verbatim for the generated (clean) values — checked per case at the hook boundary, other cases skipped"]
    parallel = False        # quick: forking the pool costs more than the cases (≈7 ms each); thorough: see setup()

    def setup(self, tier):
        self.parallel = tier == "thorough"
        os.makedirs(CONFDIR, exist_ok=True)
        chain, _ = default_chain()                      # creates the CA under .work/c20/conf once, before any worker forks
        with taddons.context(*chain, loadcore=False) as tctx:
            tctx.options.update(confdir=CONFDIR)

    # ------------------------------------------------------------------ Gen tables (T tie)
    def translate(self):
        spaces = [c for c in range(0x110000) if chr(c).isspace()]
        lowers = []
        for c in range(0x110000):
            if 0xD800 <= c <= 0xDFFF: continue
            l = chr(c).lower()
            if l and l in "basic":           # substring of the scheme word
                if len(l) != 1:
                    raise RuntimeError(f"str.lower maps U+{c:04X} to a multi-character piece of 'basic'")
                lowers.append((c, ord(l)))
        # final-sigma is the only context-sensitive rule of str.lower and does not involve these letters
        src = ("-- generated by harness/c20.py translate() from the running interpreter; do not edit\n"
               "namespace MitmVerif.Gen.C20\n"
               f"/-- code points c with chr(c).isspace() (what str.split() splits on) -/\n"
               f"def spaceTable : List Nat := {spaces}\n"
               f"/-- (c, lower(c)) for every code point whose str.lower() is a letter of \"basic\" -/\n"
               f"def lowerTable : List (Nat × Nat) := [{', '.join(f'({a}, {b})' for a, b in lowers)}]\n"
               f"def realm : String := {self._lean_str(proxyauth.REALM)}\n"
               + f"/-- code points at which str.splitlines() breaks a line -/\n"
               + f"def lineBreaks : List Nat := {[c for c in range(0x110000) if not (0xD800 <= c <= 0xDFFF) and len(('a' + chr(c) + 'b').splitlines()) == 2]}\n"
               + addon_order_lean("C20") +
               "end MitmVerif.Gen.C20\n")
        return {"MitmVerif/Gen/C20.lean": src}

    @staticmethod
    def _lean_str(s): return '"' + s.replace("\\", "\\\\").replace('"', '\\"') + '"'

    # ------------------------------------------------------------------ generator
    USERS = ["user", "u", "alice", "Ünï", "a b", "", "x#y"]
    PASSES = ["pass", "p", "pa:ss", ":lead", "trail:", "a:b:c", "", "pässwörd", "sp ace", "𝄞", "::"]
    # lengths around bcrypt's 72-byte limit (bcrypt.checkpw raises above it), NUL bytes
    LONG = ["x", "L" * 71, "M" * 72, "N" * 73, "é" * 36 + "z", "W" * 200, "a\x00b", "\x00"]

    def gen_validator(self, rng):
        k = rng.weighted([(2, "any"), (4, "single"), (4, "ht"), (1, "none")])
        if k in ("any", "none"): return {"k": k}
        if k == "single":
            # SingleUser splits the option at every colon: a password with ':' cannot be configured
            return {"k": "single", "u": rng.pick([u for u in self.USERS if u and ":" not in u]),
                    "p": rng.pick([p for p in self.PASSES if ":" not in p])}
        n = rng.randint(1, 3)
        plain, entries = [], []
        for _ in range(n):
            u = rng.pick([u for u in self.USERS if u and u.strip() == u and not u.startswith("#")])
            p = rng.pick(self.PASSES)
            h = bcrypt_hash(rng, p) if rng.chance(0.45) else ht_hash(p)
            if rng.chance(0.15): h += ":ignored-extra"
            entries.append([u, h])
            plain = [(eu, ep) for eu, ep in plain if eu != u] + [(u, p)]
        return {"k": "ht", "entries": entries, "plain": [list(x) for x in plain]}

    def add_fault(self, rng, val):
        """with some probability the validator raises on the good pair and/or on a wrong one"""
        if val["k"] == "none" or not rng.chance(0.2): return val
        u, p = self.good_pair(rng, val)
        val = dict(val)
        val["raise_on"] = [[u, p]] if rng.chance(0.6) else [[u, p + "x"], [u, rng.pick(self.LONG)]]
        return val

    def good_pair(self, rng, val):
        if val["k"] == "single": return val["u"], val["p"]
        if val["k"] == "ht": return tuple(rng.pick(val["plain"]))
        return rng.pick(self.USERS), rng.pick(self.PASSES)

    def gen_value(self, rng, val, clean=True):
        """one credential header value (bytes)"""
        u, p = self.good_pair(rng, val)
        kind = rng.weighted([(8, "valid"), (3, "wrong"), (3, "colons"), (1, "nocolon"), (2, "badb64"), (2, "scheme"),
                             (2, "case"), (2, "ws"), (1, "nonascii"), (1, "empty"), (1, "raw"), (1, "onetoken"), (1, "three")])
        b64 = lambda s: base64.b64encode(s.encode("utf-8"))
        if kind == "valid": v = b"Basic " + b64(f"{u}:{p}")
        elif kind == "wrong":
            v = b"Basic " + b64(rng.pick([f"{u}:{p}x", f"x{u}:{p}", f"{u}:{rng.pick(self.LONG)}", f"{u}:{rng.pick(self.LONG)}"]))
        elif kind == "colons": v = b"Basic " + b64(f"{u}:{rng.pick(['pa:ss', 'a:b:c', ':', 'x:'])}")
        elif kind == "nocolon": v = b"Basic " + b64(u + p)
        elif kind == "badb64":
            t = b64(f"{u}:{p}")
            v = b"Basic " + rng.pick([t[:-1], t + b"=", b"!" + t, t[:3], b"====", t.replace(b"=", b""), b"A"])
        elif kind == "scheme": v = rng.pick([b"Bearer ", b"Digest ", b"Basi ", b"Basic, ", b"Basicx "]) + b64(f"{u}:{p}")
        elif kind == "case": v = rng.pick([b"basic ", b"BASIC ", b"bAsIc "]) + b64(f"{u}:{p}")
        elif kind == "ws": v = b"Basic" + rng.pick([b"  ", b"\t", b" \t ", b"\x0b", b"\x1f"]) + b64(f"{u}:{p}")
        elif kind == "nonascii": v = b"Basic " + base64.b64encode(rng.pick([b"\xff\xfe:x", "Ünï:pässwörd".encode(), b"u:\xc3", b"\xe2\x82:p"]))
        elif kind == "empty": v = rng.pick([b"Basic " + b64(":"), b"Basic " + b64(f"{u}:"), b"Basic " + b64(f":{p}")])
        elif kind == "onetoken": v = rng.pick([b"Basic", b64(f"{u}:{p}")])
        elif kind == "three": v = b"Basic " + b64(f"{u}:{p}") + b" x"
        else:
            v = bytes(rng.pick(b"Basic =:abcQUJD\x80\xc3\xa9\xff\t !") for _ in range(rng.randint(1, 12)))
        if clean:
            v = v.strip(b" \t\r\n\x0b\x0c")
            if not v or any(c in v for c in b"\r\n\x00"): v = b"Basic"
        return v

    def gen_headers(self, rng, val, mode):
        name = "Proxy-Authorization" if is_proxy_mode(mode) else "Authorization"
        other = "Authorization" if is_proxy_mode(mode) else "Proxy-Authorization"
        hs = []
        n = rng.weighted([(2, 0), (10, 1), (2, 2), (1, 3)])
        for _ in range(n):
            nm = rng.weighted([(8, name), (2, name.lower()), (1, name.upper()), (2, other)])
            hs.append([nm, hx(self.gen_value(rng, val))])
        if rng.chance(0.3): hs.insert(rng.randint(0, len(hs)), ["X-Other", hx(b"1")])
        return hs

    def gen_conn_case(self, rng, tier):
        val = self.add_fault(rng, self.gen_validator(rng))
        nconn = 1 if rng.chance(0.6) else 2
        conns = [{"mode": rng.weighted([(4, "regular"), (2, "upstream"), (3, "reverse"), (1, "transparent"), (3, "socks5")])}
                 for _ in range(nconn)]
        maxsteps = 4 if tier == "quick" else 6
        opts = {}
        if rng.chance(0.45):
            if rng.chance(0.75): opts["stream_large_bodies"] = "1k"
            if rng.chance(0.35): opts["body_size_limit"] = "2k"
            if rng.chance(0.3): opts["store_streamed_bodies"] = True
        sized = bool(opts)
        if rng.chance(0.2): opts["connection_strategy"] = "lazy"
        if rng.chance(0.15): opts["keep_host_header"] = True
        if rng.chance(0.1): opts["validate_inbound_headers"] = False
        pending = []
        for cid, c in enumerate(conns):
            q = []
            if c["mode"] == "socks5":
                want = 0 if val["k"] == "none" else 2
                ms = rng.weighted([(8, bytes([want])), (2, bytes([0, 2])), (2, bytes([2 - want])), (1, b"\x01")])
                q.append({"c": cid, "k": "sg", "methods_hex": hx(ms)})
                if val["k"] != "none":
                    u, p = self.good_pair(rng, val)
                    r = rng.random()
                    if r < 0.55: ub, pb = u.encode(), p.encode()
                    elif r < 0.75: ub, pb = u.encode(), (p + "x").encode()
                    elif r < 0.9: ub, pb = u.encode(), rng.pick([b"pa:ss", b"", b"\xff", b":"] + [x.encode() for x in self.LONG])
                    else: ub, pb = rng.bytes_(rng.randint(0, 4)), rng.bytes_(rng.randint(0, 4))
                    q.append({"c": cid, "k": "sa", "u_hex": hx(ub[:255]), "p_hex": hx(pb[:255])})
                q.append({"c": cid, "k": "sc"})
            nreq = rng.randint(1, 4)
            for _ in range(nreq):
                m = "CONNECT" if rng.chance(0.3 if is_proxy_mode(c["mode"]) else 0.07) else "GET"
                st = {"c": cid, "k": "req", "m": m, "hdrs": self.gen_headers(rng, val, c["mode"])}
                if m == "GET" and rng.chance(0.6 if sized else 0.25):
                    enc = rng.pick(["cl", "chunked"])
                    n = rng.pick([0, 10, 1000, 1024, 1025, 1500, 2048, 2049, 3000, 5000])
                    if enc == "chunked" and "body_size_limit" in opts: n = min(n, 2048)   # late 413 depends on segmentation (not modelled)
                    st["body"] = {"enc": enc, "n": n, "segs": rng.randint(1, 4)}
                    st["hdrs"].insert(rng.randint(0, len(st["hdrs"])),
                                      ["Content-Length", hx(str(n).encode())] if enc == "cl" else ["Transfer-Encoding", hx(b"chunked")])
                q.append(st)
            pending.append(q)
        steps = []
        while any(pending) and len(steps) < maxsteps + 2 * sum(1 for c in conns if c["mode"] == "socks5"):
            qs = [q for q in pending if q]
            steps.append(rng.pick(qs).pop(0))
        case = {"op": "conn", "val": val, "opts": opts, "conns": conns, "steps": steps}
        if rng.chance(0.2): case["upauth"] = rng.pick(["up:secret", "user:pass", "alice:s3cret"])       # UpstreamAuth loaded as well: oracle only (not modelled here, see C24)
        return case

    def gen_hook_case(self, rng):
        val = self.add_fault(rng, self.gen_validator(rng))
        nconn = rng.randint(1, 2)
        conns = [{"mode": rng.pick(list(MODES))} for _ in range(nconn)]
        steps = []
        for _ in range(rng.randint(1, 4)):
            cid = rng.randrange(nconn)
            if rng.chance(0.15) and val["k"] != "none":
                u, p = self.good_pair(rng, val)
                if rng.chance(0.4): p += "x"
                steps.append({"c": cid, "k": "sa", "u_hex": hx(u.encode()), "p_hex": hx(p.encode())})
                continue
            hs = self.gen_headers(rng, val, conns[cid]["mode"])
            if rng.chance(0.4) and hs:
                i = rng.randrange(len(hs))
                v = unhx(hs[i][1])
                v = rng.pick([b" ", b"\t", b"\xc2\xa0", b"\xe2\x80\x83", b"\xc2\x85", b""]) + v + rng.pick([b" ", b"\xe3\x80\x80", b"\x1c", b"", b" \xff"])
                hs[i][1] = hx(v)
            steps.append({"c": cid, "k": "req", "m": "CONNECT" if rng.chance(0.3) else "GET", "hdrs": hs,
                          "replay": rng.chance(0.2)})
        return {"op": "hook", "val": val, "conns": conns, "steps": steps}

    def gen_parse_case(self, rng):
        val = {"k": "any"}
        v = self.gen_value(rng, val, clean=False)
        if rng.chance(0.3):
            ws = [b" ", b"\t", b"\xc2\xa0", b"\xe2\x80\x83", b"\xc2\x85", b"\x1c", b"\xe1\x9a\x80", b"\xed\xa0\x80", b"\xff", b"\xc4\xb0", b"\xe2\x84\xaa"]
            i = rng.randint(0, len(v))
            v = v[:i] + rng.pick(ws) + v[i:]
        return {"op": "parse", "value_hex": hx(v)}

    B64ALPHA = b"ABCDEFGHIJKLMNOPQRSTUVWXYZabcdefghijklmnopqrstuvwxyz0123456789+/"

    def gen_unit_case(self, rng):
        k = rng.weighted([(5, "b64"), (2, "b2a"), (2, "enc"), (1, "mkauth"), (6, "dec"), (4, "htparse"), (3, "conf")])
        if k == "conf":
            t = "".join(rng.pick(["any", "@", "lda", "u", ":", "p", "x/y", "an", " ", "é"]) for _ in range(rng.randint(0, 5)))
            if t.startswith("ldap"): t = "x" + t            # (an ldap spec would try to reach a server)
            return {"op": "conf", "text": None if rng.chance(0.05) else t}
        if k == "htparse":
            pieces = ["user", "v", ":", "{SHA}x", "$2b$y", "$2y$", "$2a$z", "$2c$", "#", " ", "\t", "\n", "\n", "\r", "\r\n", "\x0b",
                      "\x0c", "\x1c", "\x1e", "\x1f", "\x85", "\u2028", "\xa0", "{SHA", "a:{SHA}b", "é"]
            return {"op": "htparse", "text": "".join(rng.pick(pieces) for _ in range(rng.randint(0, 10)))}
        if k == "dec":
            # bytes.decode("utf8", "replace"): well-formed text damaged by truncation / insertion, boundary lead and
            # continuation bytes (overlong E0/F0 forms, encoded surrogates ED A0.., > U+10FFFF F4 90.., C0/C1/F5..FF)
            alpha = [b"a", "é".encode(), "€".encode(), "𝄞".encode(), b"\xed\x9f\xbf", b"\xed\xa0\x80", b"\xe0\x9f\xbf", b"\xe0\xa0\x80",
                     b"\xf0\x8f\xbf\xbf", b"\xf0\x90\x80\x80", b"\xf4\x8f\xbf\xbf", b"\xf4\x90\x80\x80", b"\xc0\x80", b"\xc1\xbf", b"\xc2\x80",
                     b"\xdf\xbf", b"\xef\xbf\xbd", b"\xf5\x80", b"\xff", b"\x80", b"\xbf", b"\x7f", b"\x00"]
            d = bytearray(b"".join(rng.pick(alpha) for _ in range(rng.randint(0, 5))))
            for _ in range(rng.weighted([(3, 0), (3, 1), (2, 2)])):
                if d and rng.chance(0.5): del d[rng.randrange(len(d))]
                else: d.insert(rng.randint(0, len(d)), rng.pick([0x80, 0xBF, 0xC2, 0xE0, 0xED, 0xF0, 0xF4, 0x41, rng.getrandbits(8)]))
            return {"op": rng.pick(["dec", "dec", "decbs"]), "data_hex": hx(bytes(d))}
        if k == "b64":
            n = rng.randint(0, 14)
            d = bytearray(rng.pick(self.B64ALPHA) for _ in range(n))
            if rng.chance(0.5):                      # well-formed encoding of random bytes, then damaged
                d = bytearray(base64.b64encode(rng.bytes_(rng.randint(0, 9))))
            for _ in range(rng.weighted([(4, 0), (3, 1), (2, 2), (1, 4)])):
                i = rng.randint(0, len(d))
                d[i:i] = bytes([rng.pick(b"====!- \n\xff\x80_.A/+")])
            if rng.chance(0.2) and d: del d[rng.randrange(len(d))]
            return {"op": "b64", "data_hex": hx(bytes(d))}
        if k == "b2a": return {"op": "b2a", "data_hex": hx(rng.bytes_(rng.randint(0, 10)))}
        text = "".join(rng.pick(["a", ":", "é", "€", "𝄞", "\x7f", "\x80", "߿", "ࠀ", "\uffff", "\U00010000", "\U0010ffff", " "])
                       for _ in range(rng.randint(0, 6)))
        if k == "enc": return {"op": "enc", "text": text}
        return {"op": "mkauth", "u": text, "p": rng.pick(self.PASSES)}

    def generate(self, rng, tier):
        yield {"op": "resp", "proxy": True}; yield {"op": "resp", "proxy": False}
        while True:
            r = rng.random()
            if r < 0.65: yield self.gen_conn_case(rng, tier)
            elif r < 0.78: yield self.gen_hook_case(rng)
            elif r < 0.88: yield self.gen_parse_case(rng)
            else: yield self.gen_unit_case(rng)

    # ------------------------------------------------------------------ implementation runner
    def impl(self, case):
        op = case["op"]
        if op == "b64":
            try: return {"unit": "ok " + hx(binascii.a2b_base64(unhx(case["data_hex"])))}
            except binascii.Error: return {"unit": "err"}
        if op == "b2a": return {"unit": hx(binascii.b2a_base64(unhx(case["data_hex"]), newline=False))}
        if op == "dec": return {"unit": cps(unhx(case["data_hex"]).decode("utf8", "replace"))}
        if op == "decbs": return {"unit": cps(unhx(case["data_hex"]).decode("utf-8", "backslashreplace"))}
        if op == "conf":
            from mitmproxy import exceptions
            pa = proxyauth.ProxyAuth()
            with taddons.context(pa) as tctx:
                quiet_logging()
                try: tctx.configure(pa, proxyauth=case["text"])
                except exceptions.OptionsError as e:
                    m = str(e); pre = "Could not open htpasswd file: "
                    return {"unit": "ht " + cps(m[len(pre):]) if m.startswith(pre) else "invalid"}
                v = pa.validator
                if v is None: return {"unit": "off"}
                if isinstance(v, proxyauth.AcceptAll): return {"unit": "any"}
                if isinstance(v, proxyauth.SingleUser): return {"unit": f"single {cps(v.username)} {cps(v.password)}"}
                return {"unit": "?" + type(v).__name__}
        if op == "htparse":
            from mitmproxy.utils.htpasswd import HtpasswdFile
            try: us = HtpasswdFile(case["text"]).users
            except ValueError: return {"unit": "err"}
            return {"unit": "ok " + (",".join(cps(u) + "=" + cps(h) for u, h in us.items()) or "-")}
        if op == "enc": return {"unit": hx(case["text"].encode("utf-8"))}
        if op == "mkauth": return {"unit": cps(proxyauth.mkauth(case["u"], case["p"]))}
        if op == "resp":
            r = proxyauth.make_auth_required_response(case["proxy"])
            fields = [(k, v) for k, v in r.headers.fields if k.lower() != b"content-length"]
            assert len(fields) == 1, fields
            return {"unit": f"{r.status_code} {hx(fields[0][0])} {hx(fields[0][1])} {hx(r.content)}", "reason": r.reason}
        if case["op"] == "parse":
            s = hval(unhx(case["value_hex"]))
            try:
                sch, u, p = proxyauth.parse_http_basic_auth(s)
                return {"parse": f"ok {cps(u)} {cps(p)}"}
            except ValueError:
                return {"parse": "err"}
        if case["op"] == "hook":
            pa = proxyauth.ProxyAuth()
            with taddons.context(pa) as tctx:
                quiet_logging()
                tctx.configure(pa, proxyauth=proxyauth_option(case["val"]))
                if case["val"].get("raise_on") and pa.validator:
                    pa.validator = RaisingValidator(pa.validator, case["val"]["raise_on"])
                return self.run_hooks(case, pa, tctx)
        # end-to-end cases run through the REAL default addon chain, in the order mitmproxy.addons.default_addons() gives it
        chain, by = default_chain()
        pa = by["ProxyAuth"]
        ua = by["UpstreamAuth"] if case.get("upauth") else None
        with taddons.context(*chain, loadcore=False) as tctx:
            quiet_logging()
            tctx.options.update(confdir=CONFDIR)
            tctx.configure(pa, proxyauth=proxyauth_option(case["val"]))
            if case["val"].get("raise_on") and pa.validator:
                pa.validator = RaisingValidator(pa.validator, case["val"]["raise_on"])
            if ua: tctx.configure(ua, upstream_auth=case["upauth"])
            for k, v in (case.get("opts") or {}).items():
                setattr(tctx.options, k, v)
            if case["op"] == "hook":
                return self.run_hooks(case, pa, tctx)
            return self.run_conns(case, pa, tctx)

    def run_hooks(self, case, pa, tctx):
        clients = []
        for cid, c in enumerate(case["conns"]):
            cl = tflow.tclient_conn()
            cl.proxy_mode = mode_specs.ProxyMode.parse(MODES[c["mode"]])
            clients.append(cl)
        outs = []
        for st in case["steps"]:
            cl = clients[st["c"]]
            if st["k"] == "sa":
                d = modes.Socks5AuthData(cl, lib_sock_decode(unhx(st["u_hex"])), lib_sock_decode(unhx(st["p_hex"])))
                try: pa.socks5_auth(d)
                except Exception: pass           # addonmanager.safecall: an exception in a hook is logged, the hook is over
                outs.append("SA0" if d.valid else "SA1")
                continue
            f = tflow.tflow(client_conn=cl)
            f.request.headers = http.Headers([(n.encode("ascii"), unhx(v)) for n, v in st["hdrs"]])
            if st.get("replay"): f.is_replay = "request"
            if st["m"] == "CONNECT":
                f.request.method = "CONNECT"
                try: pa.http_connect(f)
                except Exception: pass           # (safecall, as above)
            else:
                try: pa.requestheaders(f)
                except Exception: pass
            if f.response is None:
                outs.append("F:" + self.render_fields([(k.lower(), v) for k, v in f.request.headers.fields]))
            else:
                outs.append("D%d" % f.response.status_code)
        return {"outs": outs, "authd": sorted(i for i, cl in enumerate(clients) if cl in pa.authenticated)}

    @staticmethod
    def render_fields(fields):
        return ",".join(hx(k) + "=" + cps(hval(v)) for k, v in fields if k != b"host") or "-"

    def run_conns(self, case, pa, tctx):
        conns = [Conn(tctx, cid, c["mode"]) for cid, c in enumerate(case["conns"])]
        outs, dirty = [], False
        for idx, st in enumerate(case["steps"]):
            cn = conns[st["c"]]
            w = cn.w
            if st["k"] == "sg": data = b"\x05" + bytes([len(unhx(st["methods_hex"]))]) + unhx(st["methods_hex"])
            elif st["k"] == "sa":
                u, p = unhx(st["u_hex"]), unhx(st["p_hex"])
                data = b"\x01" + bytes([len(u)]) + u + bytes([len(p)]) + p
            elif st["k"] == "sc": data = SOCKS_CONNECT
            else: data = req_bytes(cn.mode, cn.tunnel, st, idx)
            nsnap = len(cn.snap)
            delivered = w.recv("client", data)
            cn.pump()
            if st["k"] == "req":
                for seg in body_segments(st):
                    w.recv("client", seg); cn.pump()
            cnew, heads, raw = cn.delta()
            closed = cn.client not in w.transports
            if st["k"] == "req":
                # the tie is about ProxyAuth's decision on the header fields it is given: the case is outside the modelled
                # domain if the HTTP/1 parser did not hand the generated fields over verbatim
                want = [(n.lower().encode(), unhx(v)) for n, v in st["hdrs"]]
                for sn in cn.snap[nsnap:]:
                    if [(k, v) for k, v in sn if k != b"host"] != want:
                        raise Skip()
            o = {"closed": closed, "fwd": [], "tunnel": False, "client": None, "upconnect": [], "raw_up": raw, "bodies": []}
            for m, target, hs, blen in heads:
                if m == b"CONNECT":
                    # mitmproxy's own CONNECT to the upstream proxy (upstream mode), sent when the tunnel is first used
                    ti = getattr(cn, "tunnel_idx", idx)
                    o["upconnect"].append("ok" if (target == b"t%d.example:80" % ti and self.render_fields(hs) == "-")
                                          else target.decode("latin1") + ":" + self.render_fields(hs))
                    o.setdefault("upconnect_fields", []).append(self.render_fields(hs))
                else:
                    mt = re.search(rb"/r(\d+)$", target)
                    o["fwd"].append(("R%s:" % (mt.group(1).decode() if mt else "?")) + self.render_fields(hs))
                    o["bodies"].append(blen)
            for c in w.open_cmds:
                if c.connection.address == ("t%d.example" % idx, 80): o["tunnel"] = True
            o["opened"] = o["tunnel"]
            if st["k"] == "req":
                o["client"] = parse_statuses(cnew)
                o["page"] = None
                pages = parse_pages(cnew)
                if len(pages) == 1 and pages[0][0] in (401, 407):
                    stt, reason, hs, body = pages[0]
                    nm = b"proxy-authenticate" if stt == 407 else b"www-authenticate"
                    extra = sorted(k for k in hs if k not in (nm, b"content-length"))
                    o["page"] = page_digest(stt, reason, nm, hs.get(nm, b"<missing>"), body) if not extra else "extra:" + repr(extra)
                # the client may use the tunnel as soon as it has the 200 (upstream mode connects lazily)
                o["tunnel"] = st["m"] == "CONNECT" and o["client"] == [200]
                if o["tunnel"]:
                    cn.tunnel = True; cn.tunnel_idx = idx
            else:
                o["client"] = cnew.hex()
            outs.append(o)
            if w.errors: dirty = True
        return {"steps": outs, "errors": [e[0] + ": " + e[1][:200] for cn in conns for e in cn.w.errors],
                "authd": sorted(cn.cid for cn in conns if cn.client in pa.authenticated)}

    # ------------------------------------------------------------------ canonical per-step outcome (impl side)
    def step_token(self, case, idx, st, o):
        """canonical token of one end-to-end step; '?' marks anything outside the vocabulary"""
        cl = "X" if o["closed"] else ""
        if st["k"] == "sg":
            r = unhx(o["client"]) if o["client"] else b""
            if r == b"\x05\x02" and not o["fwd"]: return "S02" + cl
            if r == b"\x05\x00" and not o["fwd"]: return "S00" + cl
            if r == b"\x05\xff\x00\x01\x00\x00\x00\x00\x00\x00" and not o["fwd"]: return "SFF" + cl
            if r == b"" and not o["fwd"]: return "I" + cl
            return "?sg:" + o["client"]
        if st["k"] == "sa":
            r = unhx(o["client"]) if o["client"] else b""
            if r == b"\x01\x00" and not o["fwd"]: return "SA0" + cl
            if r == b"\x01\x01" and not o["fwd"]: return "SA1" + cl
            if r == b"" and not o["fwd"]: return "I" + cl
            return "?sa:" + o["client"]
        if st["k"] == "sc":
            r = unhx(o["client"]) if o["client"] else b""
            if r == SOCKS_OK and not o["fwd"]: return "SC" + cl
            if r == b"" and not o["fwd"]: return "I" + cl
            return "?sc:" + o["client"]
        sts, fwd = o["client"], o["fwd"]
        mode = case["conns"][st["c"]]["mode"]
        upc = o["upconnect"]
        if any(u != "ok" for u in upc) or len(upc) > 1 or (upc and mode != "upstream"):
            return f"?upconnect:{upc}"
        if sts == [299] and len(fwd) == 1 and fwd[0].startswith("R%d:" % idx) and not o["tunnel"] and not o["opened"]:
            want = (st.get("body") or {}).get("n", 0)
            if o["bodies"] != [want]: return f"?body:{o['bodies']}!={want}"
            return "F:" + fwd[0].split(":", 1)[1] + cl
        if not fwd and not upc and o["raw_up"]: return f"?partial-upstream-bytes:{o['raw_up']}:{sts}"
        if upc: return f"?upconnect-without-request:{sts}"
        if sts in ([407], [401]) and not fwd and not o["tunnel"] and not o["opened"]: return "D%d" % sts[0] + ":" + str(o.get("page")) + cl
        if o["tunnel"] and not fwd: return "T" + cl
        if sts == [400] and not fwd and not o["tunnel"] and not o["opened"]: return "E" + cl
        if sts == [413] and not fwd and not o["tunnel"] and not o["opened"]: return "L" + cl
        if sts == [] and not fwd and not o["tunnel"] and not o["opened"]: return "I" + cl
        return f"?req:{sts}:{fwd}:{o['tunnel']}:{o['opened']}" + cl

    # ------------------------------------------------------------------ property oracle (needs no model)
    def oracle(self, case, obs):
        if case["op"] in ("parse", "b64", "b2a", "dec", "decbs", "enc", "mkauth", "resp", "htparse", "conf"): return []
        val = case["val"]
        fails = []
        if case["op"] == "hook":
            return self.oracle_hooks(case, obs)
        if obs["errors"]: return [f"layer raised: {obs['errors'][0]}"]
        if val["k"] == "none": return []
        accepted = set()       # connections that have presented a pair the validator accepts (reference reading)
        tunnelled = set()
        for idx, (st, o) in enumerate(zip(case["steps"], obs["steps"])):
            cid = st["c"]; mode = case["conns"][cid]["mode"]
            forwarded = bool(o["fwd"]) or o["tunnel"] or o["opened"] or bool(o["upconnect"]) or o["raw_up"] > 0
            # "the credential header is removed before the request is forwarded" — the CONNECT path: the CONNECT head that
            # mitmproxy writes to the upstream proxy for a client's tunnel must not carry the client's credential header
            # (a field of that name holding exactly the configured upstream_auth credential is UpstreamAuth's own)
            upc = cps("Basic " + base64.b64encode(case["upauth"].encode()).decode()) if case.get("upauth") else None
            for fields in o.get("upconnect_fields", []):
                for x in ([] if fields == "-" else fields.split(",")):
                    nm, _, vl = x.partition("=")
                    if unhx(nm) in (b"proxy-authorization", b"authorization") and vl != upc:
                        fails.append(f"step {idx}: client credential header {unhx(nm).decode()} present in the CONNECT "
                                     f"forwarded to the upstream proxy: {fields}")
            if st["k"] == "sa":
                u, p = lib_sock_decode(unhx(st["u_hex"])), lib_sock_decode(unhx(st["p_hex"]))
                ok = val_accepts(val, u, p)
                r = unhx(o["client"]) if o["client"] else b""
                if r:      # the step was processed as an auth message
                    if ok:
                        accepted.add(cid)
                        # "Every credential pair the configured validator accepts is accepted on each path"
                        if r != b"\x01\x00" or o["closed"]:
                            fails.append(f"step {idx}: SOCKS5 pair accepted by the validator was refused ({r.hex()})")
                    else:
                        # "such clients receive an authentication-required answer instead" (RFC 1929 failure + close)
                        if r != b"\x01\x01" or not o["closed"]:
                            fails.append(f"step {idx}: SOCKS5 invalid credentials answered {r.hex()} closed={o['closed']}")
            elif st["k"] == "sc":
                r = unhx(o["client"]) if o["client"] else b""
                if (r or forwarded) and cid not in accepted:
                    fails.append(f"step {idx}: SOCKS5 request served ({r.hex()}) although connection {cid} never presented accepted credentials")
            elif st["k"] == "sg":
                r = unhx(o["client"]) if o["client"] else b""
                if r and 2 not in unhx(st["methods_hex"]) and (r[:2] != b"\x05\xff" or not o["closed"]):
                    fails.append(f"step {idx}: SOCKS5 client not offering user/password was not refused: {r.hex()}")
            elif st["k"] == "req":
                inner = cid in tunnelled or (mode == "socks5")
                pres = None if inner else ref_presented(mode, st["hdrs"])
                ok_now = isinstance(pres, tuple) and val_accepts(val, *pres)
                if ok_now: accepted.add(cid)
                # "no request from a client that has not presented valid credentials is forwarded upstream"
                # (requests inside a tunnel were judged when the tunnel was requested: CONNECT / SOCKS5 auth)
                if forwarded and cid not in accepted and pres != "unclear" and not (inner and mode != "socks5"):
                    fails.append(f"step {idx}: forwarded upstream ({o['fwd'] or ('tunnel' if o['tunnel'] or o['opened'] else '%d raw bytes' % o['raw_up'])}) although connection {cid} never presented accepted credentials")
                # "... and such clients receive an authentication-required answer instead"
                # (400: CONNECT where none is allowed; 413: declared body above body_size_limit — the request is refused as
                #  such before authentication counts; [] : the connection was closed by an earlier step)
                if cid not in accepted and pres != "unclear" and not inner and o["client"] not in ([], [400], [413]):
                    want = 407 if is_proxy_mode(mode) else 401
                    if o["client"] != [want]:
                        fails.append(f"step {idx}: unauthenticated request answered {o['client']}, expected {want}")
                # "Every credential pair the configured validator accepts is accepted on each path (including passwords containing ':')"
                if ok_now and o["client"] and o["client"] in ([407], [401]):
                    fails.append(f"step {idx}: pair {pres} accepted by the validator was refused with {o['client']} on path {mode}/{st['m']}")
                # "the credential header is removed before the request is forwarded"
                if ok_now and o["fwd"]:
                    name = hx(AUTH_NAME[is_proxy_mode(mode)].encode())
                    # (a field of that name carrying the *configured upstream* credential is UpstreamAuth's, not the client's)
                    up = cps("Basic " + base64.b64encode(case["upauth"].encode()).decode()) if case.get("upauth") else None
                    for f in o["fwd"]:
                        if name in [x.split("=")[0] for x in f.split(":", 1)[1].split(",") if x.split("=")[-1] != up]:
                            fails.append(f"step {idx}: credential header still present upstream: {f}")
                if o["tunnel"] and o["client"] == [200]: tunnelled.add(cid)
        return fails

    def oracle_hooks(self, case, obs):
        val = case["val"]
        if val["k"] == "none": return []
        fails, accepted = [], set()
        for idx, (st, out) in enumerate(zip(case["steps"], obs["outs"])):
            cid = st["c"]; mode = case["conns"][cid]["mode"]
            if st["k"] == "sa":
                ok = val_accepts(val, lib_sock_decode(unhx(st["u_hex"])), lib_sock_decode(unhx(st["p_hex"])))
                if ok: accepted.add(cid)
                if ok != (out == "SA0"): fails.append(f"step {idx}: socks5_auth verdict {out} but validator reference says {ok}")
                continue
            pres = ref_presented(mode, st["hdrs"])
            ok_now = isinstance(pres, tuple) and val_accepts(val, *pres)
            if st["m"] == "CONNECT" and (ok_now or (pres == "unclear" and out.startswith("F:"))): accepted.add(cid)
            if out.startswith("F:") and not (ok_now or cid in accepted or st.get("replay") or pres == "unclear"):
                fails.append(f"step {idx}: hook let the request pass without accepted credentials")
            if out.startswith("D") and ok_now:
                fails.append(f"step {idx}: pair {pres} accepted by the validator was refused ({out}) on {mode}/{st['m']}")
            if out.startswith("F:") and ok_now and cid not in accepted - ({cid} if st["m"] == "CONNECT" else set()) and not st.get("replay"):
                name = hx(AUTH_NAME[is_proxy_mode(mode)].encode())
                if name in [x.split("=")[0] for x in out[2:].split(",")]: fails.append(f"step {idx}: credential header not removed: {out}")
        return fails

    # ------------------------------------------------------------------ model tie
    def lib_entries(self, case):
        """answers of the library functions for every query the model can make on this case"""
        ent = {}
        val = case.get("val", {"k": "any"})
        pws = set()

        def add_value(s):
            for tok in set(s.split()) | set(re.split(r"[ \t]+", s)):
                if tok and not has_surrogate(tok):
                    r = lib_decode_cred(tok)
                    try:
                        raw = binascii.a2b_base64(tok.encode())
                        ent["u:" + hx(raw)] = cps(raw.decode("utf8", "replace"))     # the only library answer left: UTF-8 'replace'
                    except binascii.Error:
                        pass
                    if r is not None and ":" in r: pws.add(r.split(":", 1)[1])

        if case["op"] == "parse":
            add_value(hval(unhx(case["value_hex"])))
        else:
            for st in case["steps"]:
                if st["k"] == "req":
                    vals = {}
                    for n, v in st["hdrs"]:
                        vals.setdefault(n.lower(), []).append(hval(unhx(v)))
                        add_value(hval(unhx(v)))
                    for n, vs in vals.items():
                        add_value(", ".join(vs))
                elif st["k"] == "sa":
                    for b in (unhx(st["u_hex"]), unhx(st["p_hex"])):
                        ent["s:" + hx(b)] = cps(lib_sock_decode(b))
                    pws.add(lib_sock_decode(unhx(st["p_hex"])))
        if val["k"] == "ht":
            for u, h in val["entries"]:
                h0 = h.split(":", 1)[0]
                for pw in pws:
                    r = ht_check(h0, pw)
                    ent["h:" + cps(h0) + ":" + cps(pw)] = "!" if r is None else "1" if r else "0"
        return ";".join(k + ":" + v for k, v in sorted(ent.items())) or "-"

    @staticmethod
    def val_field(val):
        k = val["k"]
        if k in ("none", "any"): base = k
        elif k == "single": base = f"single:{cps(val['u'])}:{cps(val['p'])}"
        else:
            # the model parses the file itself (transcription of HtpasswdFile.__init__): it gets the content written to disk
            base = "file:" + cps("# generated by harness/c20.py\n" + "".join(l + "\n" for l in ht_lines(val)))
        if val.get("raise_on"):
            base += ";raise;" + ",".join(cps(u) + "=" + cps(p) for u, p in val["raise_on"])
        return base

    @staticmethod
    def hdr_field(hdrs):
        return ",".join(hx(n.encode("ascii")) + "=" + cps(hval(unhx(v))) for n, v in hdrs) or "-"

    def model_lines(self, case):
        if case.get("upauth"): return None
        op = case["op"]
        if op in ("b64", "b2a", "dec", "decbs"): return [f"{op} {case['data_hex']}"]
        if op == "enc": return [f"enc {cps(case['text'])}"]
        if op == "htparse": return [f"htparse {cps(case['text'])}"]
        if op == "conf": return ["conf " + ("none" if case["text"] is None else cps(case["text"]))]
        if op == "mkauth": return [f"mkauth {cps(case['u'])} {cps(case['p'])}"]
        if op == "resp": return [f"resp {1 if case['proxy'] else 0}"]
        if case["op"] == "parse":
            return [f"parse {self.lib_entries(case)} {cps(hval(unhx(case['value_hex'])))}"]
        evs = []
        for st in case["steps"]:
            if st["k"] == "req":
                evs.append(f"{st['c']}/R/{'C' if st['m'] == 'CONNECT' else 'G'}/{1 if st.get('replay') else 0}/"
                           f"{1 if is_big(case, st) else 0}/{self.hdr_field(st['hdrs'])}")
            elif st["k"] == "sg": evs.append(f"{st['c']}/SG/{st['methods_hex']}")
            elif st["k"] == "sa": evs.append(f"{st['c']}/SA/{st['u_hex']}/{st['p_hex']}")
            else: evs.append(f"{st['c']}/SC")
        modes_ = ",".join(c["mode"] for c in case["conns"])
        main = f"{case['op']} {self.val_field(case['val'])} {modes_} {self.lib_entries(case)} " + " ".join(evs)
        return [main, "resp 1", "resp 0"] if case["op"] == "conn" else [main]

    @staticmethod
    def model_page(reply):
        """digest of the page the model's make_auth_required_response predicts (status line reason from the model too)"""
        st, name, value, body = reply.split(" ")
        body = unhx(body)
        m = re.search(rb"<title>\d+ (.*?)</title>", body)
        return page_digest(int(st), m.group(1) if m else b"?", unhx(name), unhx(value), body)

    def model_obs(self, case, replies):
        if case["op"] == "conf" and replies[0].startswith("ht "):
            import pathlib                          # the real error message shows the path as pathlib renders it
            return "ht " + cps(str(pathlib.Path(uncps(replies[0][3:])).expanduser()))
        if case["op"] in ("b64", "b2a", "dec", "decbs", "enc", "mkauth", "resp", "htparse", "conf") or len(replies) == 1: return replies[0]
        pages = {"407": self.model_page(replies[1]), "401": self.model_page(replies[2])}
        toks = []
        for t in replies[0].split(" "):
            m = re.fullmatch(r"D(407|401)(X?)", t)
            toks.append(f"D{m.group(1)}:{pages[m.group(1)]}{m.group(2)}" if m else t)
        return " ".join(toks)

    def impl_view(self, case, obs):
        if "unit" in obs:
            # the model renders the challenge field name as written ("Proxy-Authenticate"); compare case-insensitively
            return obs["unit"]
        if case["op"] == "parse": return obs["parse"]
        if case["op"] == "hook":
            return " ".join(obs["outs"]) + " | " + (",".join(map(str, obs["authd"])) or "-")
        toks = [self.step_token(case, i, st, o) for i, (st, o) in enumerate(zip(case["steps"], obs["steps"]))]
        return " ".join(toks) + " | " + (",".join(map(str, obs["authd"])) or "-")

    # ------------------------------------------------------------------ bookkeeping
    def classify(self, case, obs):
        if "unit" in obs: return __import__("json").dumps(case, sort_keys=True)
        if case["op"] == "parse": return ("parse", case["value_hex"])
        if not any(st["k"] == "req" for st in case["steps"]): return None
        return None if False else __import__("json").dumps(case, sort_keys=True)

    def branches(self, case, obs):
        if "unit" in obs: return ["unit:" + case["op"] + (":" + obs["unit"][:3] if case["op"] == "b64" else "")]
        if case["op"] == "parse": return ["parse:" + obs["parse"][:3]]
        out = [f"{case['op']}:val={case['val']['k']}"]
        if case["op"] == "hook":
            for st, o in zip(case["steps"], obs["outs"]):
                out.append(f"hook:{case['conns'][st['c']]['mode']}:{st.get('m', 'socks')}:{o[:2]}" + (":replay" if st.get("replay") else ""))
            return out
        for i, (st, o) in enumerate(zip(case["steps"], obs["steps"])):
            t = self.step_token(case, i, st, o)
            t = t.split(":")[0] if not t.startswith("?") else "?"
            out.append(f"conn:{case['conns'][st['c']]['mode']}:{st.get('m', st['k'])}:{t}")
        if len(case["conns"]) > 1: out.append("conn:two-clients")
        for k in (case.get("opts") or {}): out.append("opt:" + k)
        if case.get("upauth"): out.append("opt:upstream_auth(oracle-only)")
        for i, (st, o) in enumerate(zip(case["steps"], obs["steps"])):
            if st.get("body"):
                t = self.step_token(case, i, st, o)
                lim = LIMITS["1k"]
                out.append(f"body:{st['body']['enc']}:{'over' if st['body']['n'] > lim else 'under'}-1k:" +
                           ("stream" if "stream_large_bodies" in (case.get("opts") or {}) else "nostream") + ":" + t[:1])
        return out

    def neighbours(self, case, rng):
        if case["op"] not in ("conn", "hook"): return
        for _ in range(200):
            c = __import__("json").loads(__import__("json").dumps(case))
            reqs = [s for s in c["steps"] if s["k"] == "req"]
            if not reqs: return
            s = rng.pick(reqs)
            s["hdrs"] = self.gen_headers(rng, c["val"], c["conns"][s["c"]]["mode"])
            yield c

    def exhaustive(self, tier):
        b64 = lambda s: hx(b"Basic " + base64.b64encode(s.encode()))
        for mode in MODES:
            name = "Proxy-Authorization" if is_proxy_mode(mode) else "Authorization"
            for val in ({"k": "any"}, {"k": "single", "u": "user", "p": "pass"},
                        {"k": "ht", "entries": [["user", ht_hash("pa:ss")]], "plain": [["user", "pa:ss"]]}):
                for cred in ("user:pass", "user:pa:ss", "user:", "nocolon"):
                    for m in ("GET", "CONNECT"):
                        pre = [{"c": 0, "k": "sg", "methods_hex": "02"}, {"c": 0, "k": "sa", "u_hex": hx(b"user"), "p_hex": hx(cred.split(":", 1)[-1].encode())},
                               {"c": 0, "k": "sc"}] if mode == "socks5" else []
                        yield {"op": "conn", "val": val, "conns": [{"mode": mode}],
                               "steps": pre + [{"c": 0, "k": "req", "m": m, "hdrs": [[name, b64(cred)]]},
                                               {"c": 0, "k": "req", "m": "GET", "hdrs": []}]}
