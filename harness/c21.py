"""C21 — SOCKS5 handshakes are parsed exactly and relay subsequent data (mitmproxy/proxy/layers/modes.py).

Every case is one client byte stream + environment (proxyauth on/off, socks5_auth verdict policy,
connection_strategy eager/lazy, connect ok/fail, optional client EOF) and is run THREE times through the
real `Socks5Proxy` in the queue-based world:
  whole   – one DataReceived, hook/connect answered at once
  seg     – the stream cut at `cuts`, hook/connect answered at once
  async   – the same segments, socks5_auth hook and OpenConnection *deferred*; they complete where the
            schedule says `C` (events arriving meanwhile sit in Layer._paused_event_queue)
"""
import ipaddress, itertools, socket
from typing import Optional

from common.check import PropertyCheck, hx, unhx
from common.world import World, make_context
from mitmproxy import options
from mitmproxy.proxy import commands, events, layer
from mitmproxy.proxy.layers import modes

OK_REPLY = bytes.fromhex("05000001000000000000")


class Rec(layer.Layer):
    """recording child layer (installed through the next_layer hook)"""

    def __init__(self, ctx, world_ref):
        super().__init__(ctx)
        self.world_ref = world_ref

    def _handle_event(self, ev):
        w = self.world_ref[0]
        if isinstance(ev, events.Start):
            w.trace.append(("child", "start", None))
        elif isinstance(ev, events.DataReceived):
            w.trace.append(("child", "data", bytes(ev.data)))
        elif isinstance(ev, events.ConnectionClosed):
            w.trace.append(("child", "close", None))
        else:
            w.trace.append(("child", "other", type(ev).__name__))
        yield from ()


_OPTS = None


def _options():
    """one Options object per process (make_context builds the proxyserver options); values are reset per run"""
    global _OPTS
    if _OPTS is None:
        ctx = make_context()
        _OPTS = ctx.options
        if "proxyauth" not in _OPTS:
            _OPTS.add_option("proxyauth", Optional[str], None, "")
    return _OPTS


def decode_cred(b: bytes) -> str:
    return b.decode("utf-8", "backslashreplace")


def segments(data: bytes, cuts):
    out, prev = [], 0
    for c in list(cuts) + [len(data)]:
        if c > prev: out.append(data[prev:c]); prev = c
    return out


def schedule(case, segs):
    """async act list: 's' consumes the next segment, 'C' completes whatever is pending; all segments come before X;
    always ends with two C (everything settles)."""
    acts, i = [], 0
    for a in case.get("sched") or []:
        if a == "s":
            if i < len(segs): acts.append(segs[i]); i += 1
        elif a == "C":
            acts.append("C")
    acts.extend(segs[i:])
    if case.get("eof"):
        # eof_before_c: X goes before the last k 'C' that follow the final segment (close arrives while pending)
        k, j = case.get("eof_before_c", 0), len(acts)
        while k > 0 and j > 0 and acts[j - 1] == "C":
            j -= 1; k -= 1
        acts.insert(j, "X")
    return acts + ["C", "C"]


class Check(PropertyCheck):
    prop = "C21"
    design_ref = "§5 C21"
    level_text = ("Lean theorems about an executable model of Socks5Proxy (three parsers + synchronous machine + "
                  "asynchronous machine with the auth-hook/connect waiting states and Layer's paused-event queue, replayed "
                  "event by event to the handler then in force + the address TEXT: IPv4 dotted quad, glibc inet_ntop6 / RFC 5952 "
                  "form, ascii-replace decoding): lawful/seg_independent (ALL byte strings, ALL segmentations, from every state); "
                  "schedule_independent / deferred_handshake_relays / buffered_request_then_data_relayed (ALL placements of "
                  "hook/connect completions, data buffered while the hook is pending); parse inversion "
                  "(connects_exactly_requested both directions) and connects_to_requested_text (the stored host is hostText of "
                  "the requested address; textV4_roundtrip/textV4_injective: the dotted quad reads back to the 4 bytes; "
                  "textDomain_ascii: ASCII names are stored byte for byte; textV6_compresses_leftmost_longest_zero_run: RFC 5952 "
                  "§4.2 run choice for every address; textV6_reads_back / textV6_injective / textV4_reads_back_ipaddress / "
                  "connects_to_requested_ip: for EVERY 16-byte address the stored IPv6 text, read by C22's transcription of "
                  "CPython ipaddress.ip_address, is the IPv6 address with exactly the requested 128 bits, no scope — so the "
                  "text determines the address; textV6Py_reads_back / textV6Py_eq_inet_ntop_unless_embedded: the same for CPython's own "
                  "writer str(IPv6Address), transcribed as textV6Py and tied by the driver op pyv6); method_selection (every "
                  "offered-method list), greeting_incomplete_silent; reply_wellformed, reject_codes and their whole-history forms "
                  "other_commands_rejected / bind_and_udp_associate_rejected / unknown_atyp_rejected / unreachable_rejected, "
                  "reject_closes; outcome_trichotomy (every stream, every segmentation: waiting | rejected+closed | connected to "
                  "exactly the request with exactly the trailing bytes relayed); "
                  "after_request_relayed_once_in_order; constants_match_code (SOCKS5_* constants regenerated from modes.py). "
                  "The model is tied to the real layer by differential runs (state, buffer, every command in order, the host TEXT "
                  "and port of context.server.address as PREDICTED by the model, bytes given to the child) under whole / "
                  "segmented / deferred-completion delivery.")
    level_note = ("trusted: Lean kernel; hand-written model tied differentially (not verified) to modes.Socks5Proxy, "
                  "DestinationKnown.finish_start and Layer's pause/replay. The address text is now inside the model (the harness no "
                  "longer renders it); what is proved about it: IPv4, IPv6 and ASCII names read back exactly (IPv4/IPv6 with "
                  "C22.parseIp, the Lean transcription of CPython 3.12 ipaddress.ip_address that C22's own check ties to the "
                  "interpreter; the proof goes over every position of the compressed zero run, the two embedded-IPv4 forms and "
                  "the uncompressed form), and the IPv6 zero-run choice meets RFC 5952. The oracle additionally checks "
                  "ipaddress.IPv6Address(host) == requested on the implementation. The credentials handed to the socks5_auth hook are compared after the "
                  "harness applies bytes.decode('utf-8','backslashreplace') to the model's raw bytes (not modelled). The position "
                  "of the child's Start event is not compared (NextLayer replays it on first data); a client EOF given to a still "
                  "undecided NextLayer is answered by NextLayer's own CloseConnection, which the harness attributes to the child. "
                  "For names with non-ASCII bytes the oracle demands one character per byte, ASCII bytes unchanged and no "
                  "non-ASCII byte turned into ASCII (exact equality for ASCII names); Log commands are not observed. Oracle "
                  "leniencies (the statement is silent, so they are not flagged): the no-acceptable-method answer is 05 FF "
                  "followed by 8 more bytes, the RFC 1929 sub-negotiation version byte is not checked, a wrong version is only "
                  "rejected once 2 bytes arrived and a bad request header once 5 bytes arrived (until then 'pending' is accepted), "
                  "any non-zero REP (or none) for a bad request VER / RSV, any of REP 1,3,4,5,6 for a failed connect, and closing "
                  "after client EOF during an incomplete handshake is not demanded; an incomplete bad header followed by client EOF may "
                  "be closed without a reply (round 4 corrected the oracle here: it used to demand REP 07 for 05 05 + EOF, a "
                  "header it otherwise allows to stay unanswered until 5 bytes arrived). No case is ever skipped (no Skip()), "
                  "model_lines never abstains, and known() recognises nothing (no recorded finding). Clause table (statement -> theorem "
                  "/ oracle): 'any bytes, split in any way … outcome does not depend on the segmentation' -> lawful, seg_independent, "
                  "schedule_independent / outcome(seg)==outcome(whole)==outcome(deferred); 'either rejects … or connects' -> "
                  "outcome_trichotomy / against_reference kind dispatch; 'replying with the RFC 1928 error code where one applies "
                  "and closing' -> method_selection, other_commands_rejected, unknown_atyp_rejected, unreachable_rejected, "
                  "reject_closes / reject branch (stage, codes, closed); 'connects to exactly the requested IPv4, IPv6 or domain "
                  "destination and port' -> connects_exactly_requested, requested_is_connected, connects_to_requested_text, "
                  "connects_to_requested_ip / addr_matches + opens + ground truth; 'answers with a well-formed reply' -> "
                  "reply_wellformed, success_reply_iff_accepted / reply-shape checks; 'relays every byte sent after the request … "
                  "exactly once and in order' -> after_request_relayed_once_in_order, relayed_only_after_request, "
                  "deferred_handshake_relays, buffered_request_then_data_relayed / child == trail. Still not tied: the position "
                  "of the child's Start event; still outside the model: utf-8/backslashreplace decoding of the credentials.")
    technique = "Lean 4 proof (Incremental/Lawful instance, parser inversion, simulation of the deferred machine, inet_ntop text read back with the ipaddress transcription) + differential correspondence through world.py"
    rule = ("streams = greeting [+ RFC1929 auth] + request + trailing data, built from a grammar (70%), with one-field "
            "mutations (wrong version at each stage, 0 methods, missing method, CMD/RSV/ATYP variants, domain length 0/255, "
            "truncation at every offset) (20%) and raw bytes (10%); field sizes up to the 255 limits (methods, user, password, domain); "
            "size classes: trailing data / whole stream / handshake-completing segment of 255..65537 bytes (±1 around 2^k, 1 KiB and "
            "the 1032-byte maximal handshake), delivered whole, cut exactly at the request/data boundary, cut inside the handshake "
            "and inside the data, 1-byte handshake; x environment (auth on/off, verdict T/F/credential-equal, "
            "eager/lazy, connect ok/fail, EOF) x segmentation (every segmentation for streams <= 9 bytes, every single "
            "split point, 1-byte mode, random cuts) x completion schedule. distinct = distinct case dict; non-trivial = stream non-empty.")
    budget = {"quick": 6000, "thorough": 400000}
    time_budget = {"quick": 12, "thorough": 200}
    fingerprints = ["mitmproxy.proxy.layers.modes:Socks5Proxy", "mitmproxy.proxy.layers.modes:DestinationKnown",
                    "mitmproxy.proxy.layer:Layer.handle_event", "mitmproxy.proxy.layer:Layer._Layer__continue",
                    "mitmproxy.proxy.layer:Layer._Layer__process", "mitmproxy.proxy.layer:NextLayer._handle_event"]
    trusted_base = ["harness/common/world.py as a stand-in for proxy/server.py's command interpreter",
                    "bytes.decode('utf-8','backslashreplace') as the text rendering of credentials (addresses: modelled)"]
    parallel = False

    def setup(self, tier):
        # serial in the quick tier (370 cases/s; a fork pool costs more than it gains on a loaded machine)
        self.parallel = tier == "thorough"
        self.known_selftest()

    def known_selftest(self):
        """C21 has no recorded finding: known() must excuse nothing; and the oracle's lenient branches must still flag
        their near misses (AssertionError here ends the run as INFRA, not as a pass)."""
        from common.check import load_known
        assert load_known(self.prop) == {}, "C21 has no findings; known_findings.json lists one"
        base = {"auth": 0, "policy": "T", "eager": 1, "conn_ok": 1, "data_hex": "050100", "cuts": []}
        for f in ("segmentation dependence: x", "valid handshake not accepted: x", "reply not well-formed: x"):
            assert self.known(base, {}, f) is None
        am = self.addr_matches
        # non-ASCII name: same length, ASCII kept, non-ASCII not turned into ASCII — and the near misses
        raw = b"a\xe4.b"
        assert am(["a\ufffd.b", 80], (3, raw, 80))
        assert not am(["a?.b", 80], (3, raw, 80)), "non-ASCII byte replaced by an ASCII character must be flagged"
        assert not am(["a\ufffd.c", 80], (3, raw, 80)), "changed ASCII byte must be flagged"
        assert not am(["a\ufffd.", 80], (3, raw, 80)), "dropped character must be flagged"
        assert not am(["a\ufffd.b", 81], (3, raw, 80)), "wrong port must be flagged"
        assert not am(["example.org", 80], (3, b"example.com", 80))
        assert am(["::ffff:1.2.3.4", 1], (4, bytes(10) + b"\xff\xff\x01\x02\x03\x04", 1))
        assert not am(["::ffff:1.2.3.5", 1], (4, bytes(10) + b"\xff\xff\x01\x02\x03\x04", 1))
        assert not am(["1.2.3.4", 1], (1, b"\x01\x02\x03\x05", 1))
        # lenient 'pending' branch: only while the message is incomplete and nothing was sent / closed
        hs = dict(base, data_hex="0501000502")            # bad CMD visible, request header incomplete (2 of 5 bytes)
        ref = self.reference(hs)
        assert ref["kind"] == "reject" and ref["may_pend"]
        pend = {"sent": "0500", "child": "", "addr": None, "opens": [], "closed": False, "phase": "connect",
                "child_close": False, "child_started": False}
        assert self.against_reference(hs, pend, ref) == []
        assert self.against_reference(hs, dict(pend, sent="050005000001000000000000"), ref), "early success reply must be flagged"
        assert self.against_reference(hs, dict(pend, child="41"), ref), "relaying without handshake must be flagged"
        # incomplete bad header + client EOF: closing without a reply is accepted, anything else is not
        hse = dict(hs, eof=1)
        assert self.against_reference(hse, dict(pend, closed=True), ref) == []
        assert self.against_reference(hs, dict(pend, closed=True), ref), "closing a merely incomplete handshake without EOF must be flagged"
        assert self.against_reference(hse, dict(pend, closed=True, sent="050005000001000000000000"), ref), "success reply at EOF must be flagged"
        assert self.against_reference(hse, dict(pend, closed=True, child="41"), ref), "relaying at EOF must be flagged"
        full = dict(base, data_hex="0501000502000100")    # 5 header bytes there: rejection is due
        ref2 = self.reference(full)
        assert ref2["kind"] == "reject" and not ref2["may_pend"]
        assert self.against_reference(full, pend, ref2), "a complete bad header left pending must be flagged"
        rej = dict(pend, sent="0500" + "05070001000000000000", closed=True, phase="done")
        assert self.against_reference(full, rej, ref2) == []
        assert self.against_reference(full, dict(rej, sent="0500" + "05080001000000000000"), ref2), "wrong REP must be flagged"

    # ------------------------------------------------------------------ (T) constants regenerated from modes.py
    CONSTS = ["SOCKS5_VERSION", "SOCKS5_METHOD_NO_AUTHENTICATION_REQUIRED", "SOCKS5_METHOD_USER_PASSWORD_AUTHENTICATION",
              "SOCKS5_METHOD_NO_ACCEPTABLE_METHODS", "SOCKS5_ATYP_IPV4_ADDRESS", "SOCKS5_ATYP_DOMAINNAME",
              "SOCKS5_ATYP_IPV6_ADDRESS", "SOCKS5_REP_HOST_UNREACHABLE", "SOCKS5_REP_COMMAND_NOT_SUPPORTED",
              "SOCKS5_REP_ADDRESS_TYPE_NOT_SUPPORTED"]

    def translate(self):
        lines = ["-- generated by harness/c21.py (Check.translate) from mitmproxy/proxy/layers/modes.py; do not edit",
                 "namespace MitmVerif.Gen.C21"]
        for c in self.CONSTS:
            v = getattr(modes, c, None)
            lines.append(f"def {c} : Nat := {int(v) if isinstance(v, int) else 99999}")
        lines += ["end MitmVerif.Gen.C21", ""]
        return {"MitmVerif/Gen/C21.lean": "\n".join(lines)}

    # ------------------------------------------------------------------ implementation runner
    def run_world(self, case, items, defer):
        """items: list of bytes | 'C' | 'X'"""
        opts = _options()
        opts.proxyauth = "any" if case["auth"] else None
        opts.connection_strategy = "eager" if case["eager"] else "lazy"
        ctx = make_context(opts=opts)
        top = modes.Socks5Proxy(ctx)
        wref = [None]
        pol = case["policy"]
        eu, ep = decode_cred(unhx(case.get("eu_hex", "-"))), decode_cred(unhx(case.get("ep_hex", "-")))

        def on_hook(w, h):
            if isinstance(h, modes.Socks5AuthHook):
                if defer and not getattr(h, "_c21_resumed", False):
                    return "defer"
                h.data.valid = (pol == "T") or (pol == "E" and h.data.username == eu and h.data.password == ep)
            elif isinstance(h, layer.NextLayerHook):
                h.data.layer = Rec(h.data.context, wref)
            return None

        def on_connect(w, c):
            if defer: return "defer"
            return None if case["conn_ok"] else "connection refused"

        w = World(top, ctx, on_hook=on_hook, on_connect=on_connect, server_hooks_enabled=False)
        wref[0] = w
        w.start()
        for it in items:
            if it == "C":
                if w.deferred_hooks:
                    h = w.deferred_hooks[0]
                    h._c21_resumed = True
                    on_hook(w, h)
                    w.resume(h)
                elif w.deferred_connects:
                    w.finish_connect(w.deferred_connects[0], None if case["conn_ok"] else "connection refused")
            elif it == "X":
                w.peer_close("client")
            else:
                w.recv("client", it)
        return self.observe(w, top, ctx)

    @staticmethod
    def observe(w, top, ctx):
        toks, dbuf = [], bytearray()
        child_started = False

        def flush():
            if dbuf:
                toks.append("D:" + bytes(dbuf).hex()); dbuf.clear()

        for t in w.trace:
            if t[0] == "child":
                if t[1] == "data":
                    dbuf.extend(t[2]); continue
                if t[1] == "start":
                    child_started = True; continue
                flush(); toks.append("CX" if t[1] == "close" else "C?" + str(t[2]))
                continue
            if t[0] == "send":
                flush(); toks.append(("S:" if t[1] == "client" else "S?" + t[1] + ":") + hx(t[2]))
            elif t[0] == "close":
                flush(); toks.append("X" if (t[1] == "client" and not t[2]) else f"X?{t[1]}:{t[2]}")
            elif t[0] == "open":
                flush(); toks.append("O")
            elif t[0] == "hook":
                if t[1] == "socks5_auth":
                    flush()
                    d = t[2].data
                    toks.append("H:" + hx(d.username.encode("utf-8", "surrogatepass")) + ":" + hx(d.password.encode("utf-8", "surrogatepass")))
                elif t[1] != "next_layer" and not t[1].startswith("server_"):
                    flush(); toks.append("hook?" + t[1])
            elif t[0] == "ignored":
                flush(); toks.append("ignored?" + t[1])
            elif t[0] == "cmd":
                flush(); toks.append("cmd?" + t[1])
        flush()
        cl = getattr(top, "child_layer", None)
        if cl is not None and any(isinstance(e, events.Start) for e in getattr(cl, "events", [])):
            child_started = True
        if isinstance(cl, layer.NextLayer) and cl.layer is None and any(isinstance(e, events.ConnectionClosed) for e in cl.events):
            # the child is a still undecided NextLayer (no byte followed the request): it was *given* the client's
            # ConnectionClosed and answered with CloseConnection(client) itself — that close is the child's, not Socks5Proxy's
            if toks and toks[-1] == "X": toks[-1] = "CX"
            else: toks.append("C?close-not-answered")
        # phase
        he = top._handle_event
        if top._paused is not None:
            c = top._paused.command
            phase = ("authwait" if isinstance(c, modes.Socks5AuthHook) else "connwait" if isinstance(c, commands.OpenConnection) else "paused?") \
                + ":" + str(len(top._paused_event_queue))
        elif getattr(he, "__func__", None) is modes.DestinationKnown.done:
            phase = "done"
        elif getattr(he, "__func__", None) is modes.Socks5Proxy._handle_event:
            phase = top.state.__name__.replace("state_", "") + ":" + hx(top.buf)
        else:
            phase = "relay"
        addr = ctx.server.address
        opens = [[c.connection.address[0], c.connection.address[1]] if c.connection.address else None for c in w.open_cmds]
        return {"phase": phase, "toks": toks, "addr": [addr[0], addr[1]] if addr else None, "opens": opens,
                "child_started": child_started, "client_closed": ctx.client not in w.transports,
                "errors": [e[0] + ": " + e[1] for e in w.errors]}

    def impl(self, case):
        if case.get("kind") == "pyv6":       # tie of the CPython writer transcription (Model.C21.textV6Py)
            return {"text_hex": hx(str(ipaddress.IPv6Address(unhx(case["addr_hex"]))).encode())}
        data = unhx(case["data_hex"])
        segs = segments(data, case.get("cuts") or [])
        eof = ["X"] if case.get("eof") else []
        return {"whole": self.run_world(case, ([data] if data else []) + eof, False),
                "seg": self.run_world(case, segs + eof, False),
                "async": self.run_world(case, schedule(case, segs), True)}

    # ------------------------------------------------------------------ property oracle (needs no model)
    @staticmethod
    def outcome(o):
        """the observables the statement names: replies to the client, destination, accept/reject, bytes given to the
        next layer (concatenated, in order)"""
        sent = b"".join(unhx(t[2:]) for t in o["toks"] if t.startswith("S:"))
        child = b"".join(unhx(t[2:]) for t in o["toks"] if t.startswith("D:"))
        return {"sent": sent.hex(), "child": child.hex(), "addr": o["addr"], "opens": o["opens"],
                "closed": o["client_closed"], "phase": o["phase"].split(":")[0], "child_close": "CX" in o["toks"],
                "child_started": o["child_started"]}

    @staticmethod
    def reference(case):
        """RFC 1928/1929 reading of the whole stream, lenient where the statement is silent (sub-negotiation version,
        which code for RSV != 0 / bad request version, how early a defect visible in an incomplete message is rejected)."""
        s = unhx(case["data_hex"]); auth = bool(case["auth"])
        r = {"kind": "pending", "prefix": b"", "may_pend": True}
        if len(s) < 1: return r
        if s[0] != 5:
            return {"kind": "reject", "stage": "version", "prefix": b"", "may_pend": len(s) < 2}
        if len(s) < 2 or len(s) < 2 + s[1]: return r
        needed = 2 if auth else 0
        if needed not in s[2:2 + s[1]]:
            return {"kind": "reject", "stage": "method", "prefix": b"", "may_pend": False}
        pos = 2 + s[1]
        prefix = bytes([5, needed])
        r["prefix"] = prefix
        if auth:
            if len(s) < pos + 2: return r
            ul = s[pos + 1]
            if len(s) < pos + 2 + ul + 1: return r
            pl = s[pos + 2 + ul]
            if len(s) < pos + 3 + ul + pl: return r
            user, pw = s[pos + 2:pos + 2 + ul], s[pos + 3 + ul:pos + 3 + ul + pl]
            pol = case["policy"]
            ok = pol == "T" or (pol == "E" and user == unhx(case.get("eu_hex", "-")) and pw == unhx(case.get("ep_hex", "-")))
            r["cred"] = (user, pw)
            if not ok:
                return {"kind": "reject", "stage": "auth", "prefix": prefix, "may_pend": False, "cred": (user, pw)}
            pos += 3 + ul + pl
            prefix += b"\x01\x00"
            r["prefix"] = prefix
        q = s[pos:]
        codes, anycode = set(), False
        if len(q) >= 1 and q[0] != 5: anycode = True
        if len(q) >= 2 and q[1] != 1: codes.add(7)
        if len(q) >= 3 and q[2] != 0: anycode = True
        if len(q) >= 4 and q[3] not in (1, 3, 4): codes.add(8)
        if codes or anycode:
            return {"kind": "reject", "stage": "request", "codes": codes, "anycode": anycode, "prefix": prefix,
                    "may_pend": len(q) < 5, "cred": r.get("cred")}
        if len(q) < 5: return r
        atyp = q[3]
        if atyp == 1: skip, alen = 4, 4
        elif atyp == 4: skip, alen = 4, 16
        else: skip, alen = 5, q[4]
        if len(q) < skip + alen + 2: return r
        dest = (atyp, q[skip:skip + alen], q[skip + alen] * 256 + q[skip + alen + 1])
        trail = q[skip + alen + 2:]
        if case["eager"] and not case["conn_ok"]:
            return {"kind": "reject", "stage": "connect", "codes": {1, 3, 4, 5, 6}, "anycode": False, "prefix": prefix,
                    "may_pend": False, "dest": dest, "cred": r.get("cred")}
        return {"kind": "connect", "prefix": prefix, "dest": dest, "trail": trail, "cred": r.get("cred")}

    @staticmethod
    def addr_matches(addr, dest):
        if addr is None: return False
        atyp, raw, port = dest
        host, p = addr
        if p != port: return False
        if atyp == 1:
            try: return ipaddress.IPv4Address(host) == ipaddress.IPv4Address(raw)
            except ValueError: return False
        if atyp == 4:
            try: return ipaddress.IPv6Address(host) == ipaddress.IPv6Address(raw)
            except ValueError: return False
        if all(c < 0x80 for c in raw):
            return host == raw.decode("ascii")
        # a "domain" with non-ASCII bytes has no exact text: demand that nothing else changes — one character per
        # byte, every ASCII byte unchanged, and no non-ASCII byte turned into an ASCII character
        return len(host) == len(raw) and all((chr(b) == ch) if b < 0x80 else (ord(ch) >= 0x80) for b, ch in zip(raw, host))

    def oracle(self, case, obs):
        if case.get("kind") == "pyv6":
            # no clause of C21 speaks about CPython's writer; sanity only: the text denotes the same address
            ok = ipaddress.IPv6Address(unhx(obs["text_hex"]).decode()) == ipaddress.IPv6Address(unhx(case["addr_hex"]))
            return [] if ok else ["str(IPv6Address) does not read back"]
        fails = []
        for k in ("whole", "seg", "async"):
            if obs[k]["errors"]:
                fails.append(f"{k}: layer raised {obs[k]['errors'][0][:200]}")
            bad = [t for t in obs[k]["toks"] if "?" in t.split(":")[0]]
            if bad: fails.append(f"{k}: unexpected command {bad[:3]}")
        if fails: return fails
        ow, os_, oa = (self.outcome(obs[k]) for k in ("whole", "seg", "async"))
        # "The outcome does not depend on the segmentation." (+ quantifier "schedules": completion timing)
        if os_ != ow:
            fails.append(f"segmentation dependence: whole={ow} segmented(cuts={case.get('cuts')})={os_}")
        if oa != ow:
            fails.append(f"schedule dependence: whole={ow} deferred(sched={case.get('sched')})={oa}")
        # "either rejects the connection (replying with the RFC 1928 error code where one applies and closing) or connects
        #  to exactly the requested ... destination and port, answers with a well-formed reply, and relays every byte sent
        #  after the request to the next layer exactly once and in order"
        ref = self.reference(case)
        fails += self.against_reference(case, ow, ref)
        # generator ground truth (independent of the reference reader)
        t = case.get("truth")
        if t and not fails:
            dest = (t["atyp"], unhx(t["addr_hex"]), t["port"])
            if case["eager"] and not case["conn_ok"]:
                if not ow["closed"] or not self.addr_matches(ow["addr"], dest) or ow["child"] != "":
                    fails.append(f"ground truth (connect fails): {ow}")
            else:
                if ow["phase"] != "relay" or not self.addr_matches(ow["addr"], dest):
                    fails.append(f"destination != ground truth {t}: {ow}")
                if ow["child"] != unhx(t["trail_hex"]).hex():
                    fails.append(f"bytes after the request not relayed exactly once in order: child={ow['child']} truth={t['trail_hex']}")
        return fails

    def against_reference(self, case, o, ref):
        fails = []
        sent, pre = bytes.fromhex(o["sent"]), ref["prefix"]
        kind = ref["kind"]
        if kind == "connect":
            if o["phase"] != "relay" or (o["closed"] and not case.get("eof")):
                return [f"valid handshake not accepted: {o}"]
            if not self.addr_matches(o["addr"], ref["dest"]):
                fails.append(f"server address {o['addr']} is not the requested {ref['dest']}")
            exp_opens = [o["addr"]] if case["eager"] else []
            if o["opens"] != exp_opens:
                fails.append(f"connections opened {o['opens']} expected {exp_opens}")
            rem = sent[len(pre):]
            if sent[:len(pre)] != pre or len(rem) != 10 or rem[:4] != b"\x05\x00\x00\x01":
                fails.append(f"reply not well-formed: sent={sent.hex()} expected {pre.hex()} + 05 00 00 01 BND(6)")
            if o["child"] != ref["trail"].hex():
                fails.append(f"relayed {o['child']} but the bytes after the request are {ref['trail'].hex()}")
            if not o["child_started"]:
                fails.append("child layer never started")
            if bool(case.get("eof")) != o["child_close"]:
                fails.append(f"client EOF given to the child: {o['child_close']}, expected {bool(case.get('eof'))}")
            return fails
        # not connected: nothing may reach the next layer, no connection unless the request was complete and valid
        if o["child"] != "" or o["child_close"] or o["phase"] == "relay":
            fails.append(f"bytes/events reached the next layer without a completed handshake: {o}")
        # a defect visible in a still incomplete message may be left pending (see level_note); if the client then
        # hangs up, closing without a reply is the same leniency as for any other incomplete handshake at EOF
        # (before round 4 this case — incomplete bad header + client EOF — was wrongly sent to the reject branch,
        #  which demanded an error reply for a header the oracle itself allows to stay unanswered)
        eof_while_pending = bool(case.get("eof")) and o["closed"] and sent == pre
        if kind == "pending" or (kind == "reject" and ref["may_pend"] and (not o["closed"] or eof_while_pending)):
            if sent != pre:
                fails.append(f"incomplete handshake: sent {sent.hex()} expected {pre.hex()}")
            if o["opens"] or o["addr"] is not None:
                fails.append(f"incomplete handshake but destination set/opened: {o}")
            if o["closed"] and not case.get("eof"):
                fails.append("connection closed although the handshake is merely incomplete")
            return fails
        # reject
        if not o["closed"]:
            fails.append(f"invalid handshake ({ref['stage']}) not closed: {o}")
        if sent[:len(pre)] != pre:
            fails.append(f"reply prefix {sent.hex()} expected {pre.hex()}…")
        rem = sent[len(pre):]
        st = ref["stage"]
        if st == "version":
            if rem and (len(rem) < 2 or rem[1] == 0): fails.append(f"bad version answered with {rem.hex()}")
        elif st == "method":
            if rem[:2] != b"\x05\xff": fails.append(f"no acceptable method: reply {rem.hex()} does not start with 05 FF")
        elif st == "auth":
            if len(rem) != 2 or rem[0] != 1 or rem[1] == 0: fails.append(f"failed authentication answered with {rem.hex()}")
        else:
            ok_code = len(rem) == 10 and rem[0] == 5 and rem[2:4] == b"\x00\x01" and rem[1] != 0 and \
                (ref["anycode"] or rem[1] in ref["codes"])
            if not ok_code and not (ref["anycode"] and rem == b""):
                fails.append(f"reject at {st}: reply {rem.hex()} expected 05 {sorted(ref['codes']) or 'any'} 00 01 BND(6)")
        if st == "connect":
            if not self.addr_matches(o["addr"], ref["dest"]) or o["opens"] != [o["addr"]]:
                fails.append(f"connect attempted to {o['opens']} / address {o['addr']}, requested {ref['dest']}")
        elif o["opens"] or o["addr"] is not None:
            fails.append(f"rejected at {st} but destination set/opened: {o}")
        return fails

    # ------------------------------------------------------------------ model tie
    def env_fields(self, case):
        pol = case["policy"]
        if pol == "E": pol = f"E:{case.get('eu_hex', '-')}:{case.get('ep_hex', '-')}"
        return f"{case['auth']} {pol} {case['eager']} {case['conn_ok']}"

    def model_lines(self, case):
        if case.get("kind") == "pyv6":
            return ["pyv6 " + case["addr_hex"]]
        data = unhx(case["data_hex"])
        segs = segments(data, case.get("cuts") or [])
        env = self.env_fields(case)
        eof = ["X"] if case.get("eof") else []
        f = lambda items: " ".join(it if isinstance(it, str) else it.hex() for it in items)
        return [f"sync {env} " + f(([data] if data else []) + eof),
                f"sync {env} " + f(segs + eof),
                f"async {env} " + f(schedule(case, segs))]

    @staticmethod
    def _parse_reply(reply):
        phase, _, outs = reply.partition(" ")
        toks = [] if outs in ("-", "") else outs.split(",")
        addr, child_started, rest = [], False, []
        for t in toks:
            if t.startswith("A:"):
                _, a, ad, p, text = t.split(":")       # the model PREDICTS the host text (hostText in Model/C21.lean)
                addr.append([unhx(text).decode("utf-8"), int(p)])
            elif t == "CS":
                child_started = True
            elif t.startswith("H:"):
                _, u, p = t.split(":")
                rest.append("H:" + hx(decode_cred(unhx(u)).encode()) + ":" + hx(decode_cred(unhx(p)).encode()))
            else:
                rest.append(t)
        return {"phase": phase, "toks": rest, "addr": addr, "child_started": child_started}

    def model_obs(self, case, replies):
        if case.get("kind") == "pyv6":
            return replies[0]
        return [self._parse_reply(r) for r in replies]

    def impl_view(self, case, obs):
        if case.get("kind") == "pyv6":
            return obs["text_hex"]
        out = []
        for k in ("whole", "seg", "async"):
            o = obs[k]
            out.append({"phase": o["phase"], "toks": o["toks"], "addr": [o["addr"]] if o["addr"] else [],
                        "child_started": o["child_started"]})
        return out

    # ------------------------------------------------------------------ evidence
    def classify(self, case, obs):
        if case.get("kind") == "pyv6":
            return ("pyv6", case["addr_hex"])
        return None if case["data_hex"] == "-" else case

    def branches(self, case, obs):
        if case.get("kind") == "pyv6":
            t = unhx(obs["text_hex"]).decode()
            return ["pyv6:" + ("compressed" if "::" in t else "full")]
        ref = self.reference(case)
        o = self.outcome(obs["whole"])
        out = ["ref:" + ref["kind"] + (":" + ref["stage"] if ref["kind"] == "reject" else ""),
               "impl:" + o["phase"], f"auth{case['auth']}:{case['policy']}", f"eager{case['eager']}:ok{case['conn_ok']}",
               "segs:" + str(min(len(case.get("cuts") or []) + 1, 9))]
        if ref.get("dest"):
            out.append("atyp:" + str(ref["dest"][0]))
            a = obs["whole"]["addr"]
            if a and ref["dest"][0] == 4:
                out.append("v6:" + ("embedded-v4" if "." in a[0] else "compressed" if "::" in a[0] else "full"))
            if a and ref["dest"][0] == 3 and any(b >= 0x80 for b in ref["dest"][1]): out.append("domain:non-ascii")
        if ref["kind"] == "connect" and ref["trail"]:
            out.append("trailing-data")
            tl = len(ref["trail"])
            out.append("trail:" + ("<16" if tl < 16 else "<1K" if tl < 1000 else "~1K" if tl < 1100 else "<=4K" if tl <= 4200 else "<=64K+"))
        n = len(unhx(case["data_hex"]))
        segl = max((len(x) for x in segments(unhx(case["data_hex"]), case.get("cuts") or [])), default=0)
        out.append("maxseg:" + ("<256" if segl < 256 else "<1K" if segl < 1000 else "~1K" if segl < 1100 else "<=4K" if segl <= 4200 else "<=64K+"))
        if case.get("eof"): out.append("eof")
        if any(p.startswith("authwait") or p.startswith("connwait") for p in [obs["async"]["phase"]]): out.append("async:unsettled?")
        if "C" in (case.get("sched") or []): out.append("sched:interleaved")
        return out

    def describe(self, case, obs):
        if case.get("kind") == "pyv6":
            return {"case": case, "impl": obs}
        return {"case": case, "impl": obs["whole"]}

    # ------------------------------------------------------------------ generation
    @staticmethod
    def mk_stream(rng, auth, mut=None, trail=None):
        """returns (stream, truth|None, creds); `trail` overrides the bytes after the request"""
        needed = 2 if auth else 0
        # number of methods: mostly 1-4, sometimes at the size classes up to the 255 limit
        n_extra = rng.pick([15, 126, 127, 253, 254]) if rng.chance(0.06) else rng.randint(0, 3)
        methods = [needed] + [rng.pick([0, 1, 2, 3, 0x80, 0xFE]) for _ in range(n_extra)]
        if n_extra > 3 and rng.chance(0.5):
            methods = methods[1:] + [needed]          # the needed method is the very last one
        else:
            rng.shuffle(methods)
        ver = 5
        if mut == "greet-version": ver = rng.pick([4, 0, 0x47, 6, 0xFF])
        if mut == "no-methods": methods = []
        if mut == "missing-method": methods = [m for m in methods if m != needed] or [1]
        nm = len(methods)
        if mut == "nmethods-off": nm = max(0, nm + rng.pick([-1, 1, 2]))
        s = bytes([ver, nm]) + bytes(methods)
        user = pw = b""
        send_auth = auth if mut != "auth-flip" else not auth
        if send_auth:
            alpha = b"abcXYZ019:\\ \xc3\xa9\xff\x00"
            ul = rng.pick([0, 1, 2, 5, 127, 128, 254, 255]) if rng.chance(0.15) else rng.randint(1, 6)
            pl = rng.pick([0, 1, 2, 5, 127, 128, 254, 255]) if rng.chance(0.15) else rng.randint(1, 6)
            user = bytes(rng.pick(alpha) for _ in range(ul)); pw = bytes(rng.pick(alpha) for _ in range(pl))
            av = 1 if mut != "auth-version" else rng.pick([0, 5, 2, 0xFF])
            s += bytes([av, ul]) + user + bytes([pl]) + pw
        atyp = rng.pick([1, 3, 3, 4])
        if mut == "atyp": atyp = rng.pick([0, 2, 5, 0xFF])
        if atyp == 1: addr = rng.pick([bytes([127, 0, 0, 1]), bytes([0, 0, 0, 0]), bytes([255] * 4), rng.bytes_(4)])
        elif atyp == 4: addr = rng.pick([bytes(15) + b"\x01", bytes(16), bytes(10) + b"\xff\xff" + rng.bytes_(4), rng.bytes_(16)])
        else:
            n = rng.pick([63, 64, 127, 128, 253, 254, 255]) if rng.chance(0.08) else rng.randint(1, 12)
            if mut == "domain-len": n = rng.pick([0, 255])
            dalpha = b"abcxyz.-019EXAMPLE"
            addr = bytes(rng.pick(dalpha) for _ in range(n))
            if rng.chance(0.05) and n: addr = addr[:-1] + rng.pick([b"\xe4", b"\x00", b"\xff"])
        port = rng.pick([0, 80, 443, 65535, rng.randint(0, 65535)])
        rv, cmd, rsv = 5, 1, 0
        if mut == "req-version": rv = rng.pick([4, 1, 0])
        if mut == "cmd": cmd = rng.pick([2, 3, 0, 0xFF])
        if mut == "rsv": rsv = rng.pick([1, 0xFF])
        req = bytes([rv, cmd, rsv, atyp]) + (bytes([len(addr)]) if atyp not in (1, 4) else b"") + addr + bytes([port >> 8, port & 255])
        if trail is None:
            trail = b""
            if rng.chance(0.7):
                trail = rng.pick([b"GET / HTTP/1.1\r\n\r\n", b"\x16\x03\x01", b"\x05\x01\x00", bytes([rng.getrandbits(8)]), rng.bytes_(rng.randint(1, 9))])
        s += req + trail
        truth = None
        if mut is None:
            truth = {"atyp": atyp, "addr_hex": hx(addr), "port": port, "trail_hex": hx(trail), "user_hex": hx(user), "pass_hex": hx(pw)}
        if mut == "truncate" and len(s) > 1:
            s = s[:rng.randint(1, len(s) - 1)]
        if mut == "flip" and s:
            i = rng.randrange(len(s)); s = s[:i] + bytes([s[i] ^ (1 << rng.randrange(8))]) + s[i + 1:]
        if mut == "insert" and s:
            i = rng.randrange(len(s) + 1); s = s[:i] + bytes([rng.getrandbits(8)]) + s[i:]
        if mut == "delete" and s:
            i = rng.randrange(len(s)); s = s[:i] + s[i + 1:]
        return s, truth, (user, pw)

    MUTS = ["greet-version", "no-methods", "missing-method", "nmethods-off", "auth-flip", "auth-version", "atyp",
            "domain-len", "req-version", "cmd", "rsv", "truncate", "flip", "insert", "delete"]

    def env(self, rng, creds=None):
        auth = rng.randint(0, 1)
        return {"auth": auth, "policy": "T", "eager": 1 if rng.chance(0.7) else 0, "conn_ok": 1 if rng.chance(0.75) else 0}

    @staticmethod
    def set_policy(case, rng, creds):
        user, pw = creds
        r = rng.random()
        clean = lambda b: b"\\" not in b and _is_utf8(b)
        if r < 0.6: case["policy"] = "T"
        elif r < 0.75: case["policy"] = "F"
        else:
            eu, ep = user, pw
            if rng.chance(0.3): eu = eu + b"x"
            if rng.chance(0.15) and ep: ep = ep[:-1]
            if clean(eu) and clean(ep):
                case["policy"] = "E"; case["eu_hex"] = hx(eu); case["ep_hex"] = hx(ep)
            else:
                case["policy"] = "T"

    @staticmethod
    def rand_sched(rng, nsegs):
        kind = rng.randrange(5)
        if kind == 0: return []                                  # everything completes at the very end
        if kind == 1: return ["s", "C"] * nsegs                  # completes right after every segment (sync-like)
        out = []
        for _ in range(nsegs):
            out.append("s")
            while rng.chance(0.35): out.append("C")
        return out

    def variants(self, rng, base, data, tier, n_rand):
        """segmentations x schedules of one stream"""
        n = len(data)
        cutsets = [[], list(range(1, n)) if n <= 1500 else list(range(1, 600))]
        if n <= (9 if tier == "thorough" else 6):
            cutsets = [[i + 1 for i in range(n - 1) if (m >> i) & 1] for m in range(1 << max(0, n - 1))]
        elif tier == "thorough":
            cutsets += [[i] for i in range(1, n)]
        else:
            cutsets += [[i] for i in rng.sample(range(1, n), min(3, n - 1))]
        for _ in range(n_rand):
            k = rng.randint(1, min(5, max(1, n - 1)))
            cutsets.append(sorted(rng.sample(range(1, n), min(k, n - 1))) if n > 1 else [])
        for cuts in cutsets:
            c = dict(base); c["data_hex"] = hx(data); c["cuts"] = cuts
            c["sched"] = self.rand_sched(rng, len(cuts) + 1)
            if rng.chance(0.25):
                c["eof"] = 1; c["eof_before_c"] = rng.randint(0, 2)
            yield c

    def gen_small(self, rng, tier):
        # small scope: every stream over a tiny alphabet up to length 3/4 (greeting-level decisions), all segmentations
        alpha = [5, 1, 0, 2, 4]
        for n in range(0, 5 if tier == "thorough" else 4):
            for t in itertools.product(alpha, repeat=n):
                for auth in (0, 1):
                    base = {"auth": auth, "policy": "T", "eager": 1, "conn_ok": 1}
                    yield from self.variants(rng, base, bytes(t), "thorough", 0)

    def gen_canon(self, rng, tier):
        # every truncation point of a few canonical handshakes
        canon = [(0, bytes.fromhex("050100") + bytes.fromhex("050100017f0000011f90") + b"hi"),
                 (0, bytes.fromhex("05020100") + bytes.fromhex("0501000307") + b"example" + bytes.fromhex("01bb") + b"\x16\x03"),
                 (1, bytes.fromhex("050102") + bytes.fromhex("0102") + b"ab" + b"\x01c" + bytes.fromhex("05010004") + bytes(15) + b"\x01" + bytes.fromhex("0050") + b"x"),
                 (1, bytes.fromhex("050102") + bytes.fromhex("0100") + b"\x00" + bytes.fromhex("0501000300") + bytes.fromhex("0050"))]
        for auth, s in canon:
            for cut in range(len(s), 0, -1):
                for eager, ok in ((1, 1), (1, 0), (0, 1)):
                    for pol in (("T", "F") if auth else ("T",)):
                        base = {"auth": auth, "policy": pol, "eager": eager, "conn_ok": ok}
                        yield from self.variants(rng, base, s[:cut], "quick", 1)

    def gen_random(self, rng, tier):
        while True:
            base = self.env(rng)
            r = rng.random()
            if r < 0.7: mut = None
            elif r < 0.9: mut = rng.pick(self.MUTS)
            else: mut = "raw"
            if mut == "raw":
                n = rng.randint(1, 24)
                data = bytes(rng.pick([5, 1, 0, 2, 3, 4, 0xFF, rng.getrandbits(8)]) for _ in range(n))
                truth, creds = None, (b"", b"")
            else:
                data, truth, creds = self.mk_stream(rng, base["auth"], mut)
            self.set_policy(base, rng, creds)
            if truth and base["auth"]:
                ok = base["policy"] == "T" or (base["policy"] == "E" and unhx(base["eu_hex"]) == creds[0] and unhx(base["ep_hex"]) == creds[1])
                if not ok: truth = None
            if truth: base["truth"] = truth
            yield from self.variants(rng, base, data, tier, 2 if tier == "quick" else 4)

    # size / threshold classes: how much application data sits behind the request, how large the whole stream is and
    # how large the segment is that completes the handshake (a limit on any of these is a segmentation dependence)
    THRESHOLDS = [(30, [255, 256, 257, 511, 512, 513]), (40, [1023, 1024, 1025, 1031, 1032, 1033, 1034, 1500, 2048]),
                  (20, [4095, 4096, 4097, 8192]), (3, [16384, 32768]), (1.5, [65535, 65536, 65537])]

    def gen_sizes(self, rng, tier):
        while True:
            base = self.env(rng)
            if rng.chance(0.8): base["conn_ok"] = 1
            data0, truth, creds = self.mk_stream(rng, base["auth"], None, trail=b"")
            self.set_policy(base, rng, creds)
            if base["auth"] and not (base["policy"] == "T" or (base["policy"] == "E" and unhx(base["eu_hex"]) == creds[0]
                                                              and unhx(base["ep_hex"]) == creds[1])):
                truth = None
            hs, g = len(data0), 2 + data0[1]
            T = rng.pick(rng.weighted(self.THRESHOLDS)) + rng.pick([-1, 0, 0, 1])
            # k: where the segment that completes the handshake starts (0 = whole stream, g = after the greeting, ...)
            k = rng.pick([0, g, hs - 1, hs - rng.randint(1, max(1, min(hs - g, 10))), rng.randrange(hs)])
            k = max(0, min(k, hs - 1))
            measure = rng.pick(["trail", "total", "lastseg", "lastseg"])
            tl = T if measure == "trail" else T - hs if measure == "total" else T - (hs - k)
            tl = max(0, tl)
            trail = bytes((i * 7 + (i >> 8) + 3) & 0xFF for i in range(tl))      # position-dependent: reordering shows
            data = data0 + trail
            n = len(data)
            if truth: truth = dict(truth, trail_hex=hx(trail))
            cutsets = [[],                                    # whole
                       [hs],                                  # exactly at the request/data boundary
                       [k] if k else [],                      # handshake completed by a segment that carries all the data
                       [k, hs + tl // 2] if tl > 1 else [hs],  # ... that carries half of the data
                       [hs + tl // 2] if tl > 1 else [],      # inside the data only
                       list(range(1, hs)),                    # 1-byte mode up to the last handshake byte, which comes with all data
                       list(range(1, hs + 1)),                # 1-byte handshake, data in one piece
                       [hs] + list(range(hs + 1024, n, 1024)),  # data in 1 KiB pieces
                       sorted({min(n - 1, max(1, hs + d)) for d in (-1, 1)}) if n > 2 else []]
            if tier == "quick":
                cutsets = [cutsets[0]] + rng.sample(cutsets[1:], 2)
            for cuts in cutsets:
                cuts = sorted({c for c in cuts if 0 < c < n})
                c = dict(base); c["data_hex"] = hx(data); c["cuts"] = cuts
                if truth: c["truth"] = truth
                c["sched"] = self.rand_sched(rng, len(cuts) + 1) if len(cuts) < 40 else []
                if rng.chance(0.2):
                    c["eof"] = 1; c["eof_before_c"] = rng.randint(0, 2)
                yield c

    def gen_hosts(self, rng, tier):
        """address classes for the text the model predicts: every pattern of zero / non-zero 16-bit words of an IPv6
        address (longest-run choice, ties, leading/trailing runs), embedded-IPv4 forms, word values at every hex width,
        IPv4 bytes at every decimal width, names with non-ASCII bytes"""
        wv = [1, 0xf, 0x10, 0xff, 0x100, 0xfff, 0x1000, 0xffff, 0xabcd, 0x0a00]
        def v6cases():
            for m in range(256):
                ws = [(rng.pick(wv) if (m >> i) & 1 else 0) for i in range(8)]
                yield b"".join(w.to_bytes(2, "big") for w in ws)
            for tail in (b"\x01\x02\x03\x04", b"\x00\x00\x00\x05", b"\x00\x01\x00\x00", b"\xff\xff\xff\xff", b"\x00\x00\x01\x00"):
                yield bytes(10) + b"\xff\xff" + tail         # ::ffff:a.b.c.d
                yield bytes(12) + tail                        # ::a.b.c.d
                yield bytes(10) + b"\xff\xfe" + tail
                yield bytes(8) + b"\xff\xff\x00\x00" + tail   # ::ffff:0:a.b.c.d
                yield b"\x00\x64\xff\x9b" + bytes(8) + tail  # 64:ff9b::
            while True:
                yield bytes(rng.pick([0, 0, 0, 1, 0xff, rng.getrandbits(8)]) for _ in range(16))
        def v4cases():
            for a in (0, 1, 9, 10, 99, 100, 127, 199, 200, 255):
                yield bytes([a, 255 - a, (a * 7) & 255, a])
            while True:
                yield rng.bytes_(4)
        def domcases():
            while True:
                n = rng.pick([1, 2, 3, 8, 64, 255])
                yield bytes(rng.pick([0x61, 0x2e, 0x2d, 0x30, 0x41, 0x7f, 0x80, 0xc3, 0xa9, 0xe4, 0xff, 0x00, 0x20]) for _ in range(n))
        gens = [(4, v6cases()), (4, v6cases()), (1, v4cases()), (3, domcases())]
        k = 0
        while True:
            atyp, g = gens[k % len(gens)]; k += 1
            addr = next(g)
            port = rng.pick([0, 1, 80, 443, 65535, rng.randint(0, 65535)])
            req = bytes([5, 1, 0, atyp]) + (bytes([len(addr)]) if atyp == 3 else b"") + addr + bytes([port >> 8, port & 255])
            trail = rng.pick([b"", b"x"])
            data = b"\x05\x01\x00" + req + trail
            base = {"auth": 0, "policy": "T", "eager": rng.randint(0, 1), "conn_ok": 1, "data_hex": hx(data),
                    "cuts": rng.pick([[], [3], [len(data) - 1]]), "sched": [],
                    "truth": {"atyp": atyp, "addr_hex": hx(addr), "port": port, "trail_hex": hx(trail), "user_hex": "-", "pass_hex": "-"}}
            yield base

    def gen_main(self, rng, tier):
        # round-robin so that every budget sees the same mix: grammar/mutation/raw, size classes, small-scope, truncation
        subs = [self.gen_random(rng, tier), self.gen_small(rng, tier), self.gen_canon(rng, tier), self.gen_sizes(rng, tier),
                self.gen_hosts(rng, tier)]
        pattern = [0, 3, 1, 0, 4, 3, 2, 0, 4]
        alive = [True] * 5
        while True:
            for k in pattern:
                if not alive[k]: k = 0
                try:
                    yield next(subs[k])
                except StopIteration:
                    alive[k] = False

    def gen_pyv6(self):
        """addresses for the CPython-writer tie: every zero/non-zero pattern of the 8 words, embedded-IPv4 look-alikes,
        every hex width; own PRNG so that the main case stream of a seed is unchanged"""
        from common.prng import Rng
        r = Rng(2105)
        wv = [1, 0xf, 0x10, 0xff, 0x100, 0xfff, 0x1000, 0xffff, 0xabcd, 0x0a00]
        for m in range(256):
            yield b"".join((r.pick(wv) if (m >> i) & 1 else 0).to_bytes(2, "big") for i in range(8))
        for tail in (b"\x01\x02\x03\x04", b"\x00\x00\x00\x05", b"\x00\x01\x00\x00", b"\xff\xff\xff\xff"):
            yield bytes(10) + b"\xff\xff" + tail
            yield bytes(12) + tail
            yield bytes(8) + b"\xff\xff\x00\x00" + tail
        while True:
            yield bytes(r.pick([0, 0, 0, 1, 0xff, r.getrandbits(8)]) for _ in range(16))

    def generate(self, rng, tier):
        py = self.gen_pyv6()
        for n, case in enumerate(self.gen_main(rng, tier)):
            yield case
            if n % 8 == 7:
                yield {"kind": "pyv6", "addr_hex": hx(next(py))}

    def neighbours(self, case, rng):
        if case.get("kind") == "pyv6":
            return
        d = unhx(case["data_hex"])
        for i in range(len(d)):
            for v in (0, 1, 2, 3, 4, 5, 0xFF):
                c = dict(case); c.pop("truth", None); c["data_hex"] = hx(d[:i] + bytes([v]) + d[i + 1:])
                c["cuts"] = [x for x in (case.get("cuts") or []) if x < len(d)]
                yield c
        for i in range(1, len(d)):
            c = dict(case); c["cuts"] = [i]; yield c

    def exhaustive(self, tier):
        from common.prng import Rng
        rng = Rng(12345)
        for n in range(0, 6):
            for t in itertools.product([5, 1, 0, 2, 3, 4], repeat=n):
                for auth in (0, 1):
                    base = {"auth": auth, "policy": "T", "eager": 1, "conn_ok": 1}
                    yield from self.variants(rng, base, bytes(t), "quick", 0)

    def shrink_candidates(self, case):
        if case.get("kind") == "pyv6":
            return
        from common.check import generic_shrink
        for c in generic_shrink({k: v for k, v in case.items() if k != "truth"}):
            n = len(unhx(c["data_hex"]))
            c["cuts"] = sorted({x for x in (c.get("cuts") or []) if 0 < x < n})
            yield c


def _is_utf8(b):
    try:
        b.decode("utf-8"); return True
    except UnicodeDecodeError:
        return False
