"""C22 — client connections from blocked address classes are refused
(mitmproxy/addons/block.py Block.client_connected; mitmproxy/proxy/server.py handle_client `client.error` path)."""
import asyncio, ipaddress, logging
from common.check import PropertyCheck, Skip, hx, unhx
from mitmproxy.addons import block as block_mod
from mitmproxy.proxy import mode_specs, mode_servers, server as proxy_server

# IANA IPv4 / IPv6 special-purpose address registries (+ multicast, deprecated site-local), as CIDR blocks.
IANA4 = ["0.0.0.0/8", "0.0.0.0/32", "10.0.0.0/8", "100.64.0.0/10", "127.0.0.0/8", "169.254.0.0/16", "172.16.0.0/12",
         "192.0.0.0/24", "192.0.0.0/29", "192.0.0.8/32", "192.0.0.9/32", "192.0.0.10/32", "192.0.0.170/32",
         "192.0.0.171/32", "192.0.2.0/24", "192.31.196.0/24", "192.52.193.0/24", "192.88.99.0/24", "192.168.0.0/16",
         "192.175.48.0/24", "198.18.0.0/15", "198.51.100.0/24", "203.0.113.0/24", "224.0.0.0/4", "240.0.0.0/4",
         "255.255.255.255/32"]
IANA6 = ["::1/128", "::/128", "::ffff:0:0/96", "64:ff9b::/96", "64:ff9b:1::/48", "100::/64", "100:0:0:1::/64",
         "2001::/23", "2001::/32", "2001:1::1/128", "2001:1::2/128", "2001:1::3/128", "2001:2::/48", "2001:3::/32",
         "2001:4:112::/48", "2001:10::/28", "2001:20::/28", "2001:30::/28", "2001:db8::/32", "2002::/16",
         "2620:4f:8000::/48", "3fff::/20", "5f00::/16", "fc00::/7", "fe80::/10", "fec0::/10", "ff00::/8",
         "2000::/3"]
MAPPED = 0xFFFF << 32
MODES = {"regular": "regular", "transparent": "transparent", "upstream": "upstream:http://example.com:3128",
         "reverse": "reverse:http://example.com", "socks5": "socks5", "dns": "dns", "wireguard": "wireguard",
         "local": "local", "tun": "tun"}
_SPEC_ARGS = dict(MODES)


def _registry_modes():
    """every registered proxy mode class of the checked tree that can be instantiated (osproxy cannot: renamed)"""
    out = {}
    for name in mode_specs.ProxyMode._ProxyMode__types:
        try:
            mode_specs.ProxyMode.parse(_SPEC_ARGS.get(name, name)); out[name] = _SPEC_ARGS.get(name, name)
        except Exception:
            pass
    return out


MODES = _registry_modes()
MODE_NAMES = list(MODES)
ZONES = ["eth0", "1", "lo"]


def _module_networks(cls):
    """every network constant the interpreter's ipaddress module holds for this family"""
    nets = []
    for k, v in vars(cls._constants).items():
        vs = v if isinstance(v, (list, tuple)) else [v]
        for x in vs:
            if isinstance(x, (ipaddress.IPv4Network, ipaddress.IPv6Network)):
                nets.append(x)
            elif isinstance(x, (ipaddress.IPv4Address, ipaddress.IPv6Address)):
                nets.append(ipaddress.ip_network(x))
    return nets


def _cuts(fam):
    bits = 32 if fam == 4 else 128
    acls = ipaddress.IPv4Address if fam == 4 else ipaddress.IPv6Address
    nets = [ipaddress.ip_network(s) for s in (IANA4 if fam == 4 else IANA6)] + _module_networks(acls)
    cuts = {0}
    for n in nets:
        a, b = int(n.network_address), int(n.broadcast_address) + 1
        cuts.add(a)
        if b < 2 ** bits: cuts.add(b)
    if fam == 6:
        cuts.add(1); cuts.add(2)
        for c in _cuts(4): cuts.add(MAPPED + c)
        cuts.add(MAPPED + 2 ** 32)
    return sorted(cuts)


def _cls(fam, n):
    a = ipaddress.IPv4Address(n) if fam == 4 else ipaddress.IPv6Address(n)
    return (bool(a.is_loopback), bool(a.is_private), bool(a.is_global))


def _table(fam):
    """interval table [(hi, (loop, priv, glob))] covering the whole address space; the classification is
    evaluated at both ends and the middle of every interval between consecutive boundary points"""
    bits = 32 if fam == 4 else 128
    cuts = _cuts(fam) + [2 ** bits]
    tbl = []
    for lo, nxt in zip(cuts, cuts[1:]):
        hi = nxt - 1
        c = _cls(fam, lo)
        for probe in (hi, (lo + hi) // 2, lo + (hi - lo) // 3):
            if _cls(fam, probe) != c:
                raise RuntimeError(f"ipaddress classification not constant on [{lo}, {hi}] (family {fam})")
        tbl.append((hi, c))      # rows are NOT merged: every row lies inside or outside each network constant
    return tbl


def _fmt4(n): return str(ipaddress.IPv4Address(n))
def _fmt6(n): return str(ipaddress.IPv6Address(n))


def peer_text(case) -> str:
    if case["k"] == "raw":
        return unhx(case["peer_hex"]).decode("utf-8", "surrogateescape")
    fam, n, note = case["fam"], int(case["n"]), case["note"]
    if note.startswith("raw:"):
        return unhx(note[4:]).decode("utf-8", "surrogateescape")
    zone = case.get("zone", "eth0")
    if fam == 4:
        d = _fmt4(n)
        return {"plain": d, "mapped": "::ffff:" + d, "mappedhex": "::ffff:%x:%x" % (n >> 16, n & 0xFFFF),
                "scoped": d + "%" + zone, "mapped_scoped": "::ffff:" + d + "%" + zone,
                "mappedfull": "0:0:0:0:0:FFFF:" + d}[note]
    a = ipaddress.IPv6Address(n)
    return {"plain": str(a), "scoped": str(a) + "%" + zone, "exploded": a.exploded,
            "upper": str(a).upper(), "upper_scoped": a.exploded.upper() + "%" + zone}[note]


NOTES4 = ["plain", "mapped", "mappedhex", "scoped", "mapped_scoped", "mappedfull"]
NOTES6 = ["plain", "scoped", "exploded", "upper", "upper_scoped"]


class _Writer:
    def __init__(self, peer, trace): self.peer, self.closed, self.trace = peer, False, trace
    def get_extra_info(self, name, default=None):
        return {"peername": (self.peer, 51234, 0, 0), "sockname": ("::", 8080, 0, 0)}.get(name, default)
    def close(self):
        self.closed = True; self.trace.append("closeWriter")
    def is_closing(self): return self.closed


class _Env:
    """real Master + AddonManager + Block addon + ProxyConnectionHandler (layer execution and client IO are
    replaced by recorders: the property is about what handle_client does around the hook)"""
    def __init__(self):
        from mitmproxy.test import taddons
        self.block = block_mod.Block()
        self.tctx = taddons.context(self.block)
        self.loop = self.tctx.master.event_loop
        self.modes = {k: mode_specs.ProxyMode.parse(v) for k, v in MODES.items()}
        self.errors = []
        env = self

        class H(logging.Handler):
            def emit(self, record):
                if record.levelno >= logging.ERROR: env.errors.append(record.getMessage())
        logging.getLogger("mitmproxy.addonmanager").addHandler(H())
        logging.getLogger("mitmproxy.addonmanager").propagate = False
        logging.getLogger("mitmproxy.addons.block").setLevel(logging.CRITICAL)
        logging.getLogger("mitmproxy.addonmanager").setLevel(logging.ERROR)

        class Handler(mode_servers.ProxyConnectionHandler):
            def __init__(s, *a):
                super().__init__(*a); s.trace = []
            def log(s, *a, **k): pass
            async def handle_hook(s, hook):
                s.trace.append("hook:" + hook.name)
                await super().handle_hook(hook)
            async def server_event(s, event):
                s.trace.append("event:" + type(event).__name__)
            async def handle_connection(s, connection):
                s.trace.append("handle_connection")
        self.Handler = Handler

    def fresh(self):
        """a new Block instance in the same AddonManager: every case starts without addon state, every call of one
        history shares the instance"""
        self.tctx.master.addons.remove(self.block)
        self.block = block_mod.Block()
        self.tctx.master.addons.add(self.block)
        from mitmproxy import hooks
        self.tctx.master.addons.invoke_addon_sync(self.block, hooks.ConfigureHook(set(self.tctx.options.keys())))

    def run(self, peer, mode, bg, bp):
        # only a real change is an option update (Options.update notifies `configure` even for unchanged values, which
        # would hide state an addon keeps between two connections under the same options)
        want = {"block_global": bool(bg), "block_private": bool(bp)}
        diff = {k: v for k, v in want.items() if getattr(self.tctx.options, k) != v}
        if diff: self.tctx.options.update(**diff)
        self.errors.clear()
        trace = []
        w = _Writer(peer, trace)

        async def go():
            h = self.Handler(self.tctx.master, None, w, self.tctx.options, self.modes[mode])
            h.trace = trace
            await h.handle_client()
            return h
        h = self.loop.run_until_complete(go())
        return h, w


_ENV = None


def env():
    global _ENV
    if _ENV is None: _ENV = _Env()
    return _ENV


class Check(PropertyCheck):
    prop = "C22"
    design_ref = "§5 C22"
    level_text = ("Lean theorems about the model of Block.client_connected (rsplit('%'), a transcription of ipaddress.ip_address, "
                  "the ipv4_mapped view, class lookup, option/mode logic) and of handle_client's client.error branch, for ALL peer "
                  "texts, modes and option pairs: global_refused, private_refused, loopback_and_localmode_exempt, "
                  "others_not_refused, unparseable_not_refused, refused_before_processing, mapped_scoped_equal_plain (+ "
                  "mapped_equal_plain_addr, scope_irrelevant_addr, zone_stripped). The address classes are no longer an assumed "
                  "table: table_eq_membership4 / table_eq_membership6 prove that for EVERY address the generated interval table "
                  "equals membership in the interpreter's own network constants (_loopback_network, _private_networks, "
                  "_public_network, ::1) under the 3.12.1 definitions of is_loopback / is_private / is_global (prefix-membership "
                  "lemma inNet_iff + row check by decide +kernel), classOf_eq_membership / refused_iff_membership restate the "
                  "decision over those networks; the side condition `wf` (value below 2^32 / 2^128) is now a THEOREM of the parser "
                  "model (parseV4_wf, parseV6Int_lt, parseV6_wf, parseIp_wf via hextet and fold bounds), so "
                  "classOf_eq_membership_parsed, refused_iff_membership_parsed and verdict_total hold for every peer text "
                  "without side condition. Read-back: parseIp_dotted / parseIp_mapped prove that the parser model reads the OS' "
                  "text forms `a.b.c.d` and `::ffff:a.b.c.d` back as the address for all a,b,c,d < 256, so "
                  "canonical_forms_equal_plain (plain = %zone = mapped = mapped%zone, no parse hypotheses) and "
                  "dotted_refused_iff (closed form of the verdict for every dotted quad) follow; parseIp_mappedHex / "
                  "hex_mapped_form_equal_plain do the same for the hexadecimal mapped form `::ffff:xxxx:yyyy`. The "
                  "mode exemption is the isinstance walk over the class hierarchy of mode_specs regenerated on every run "
                  "(only_local_mode_exempt: among all registered mode classes exactly LocalMode is exempt). Class facts "
                  "(loopback_exact4/6, rfc1918_private, shared_space_neither, classes_exclusive4/6, public samples) by the "
                  "interval lemma. Tie: the real Block addon through the real AddonManager and "
                  "ProxyConnectionHandler.handle_client on all registry boundary addresses x notations x option pairs x every "
                  "instantiable registered mode, random addresses, malformed texts, 2-6 call histories on one Block instance, "
                  "`cls` cases comparing table class AND membership class with ipaddress on boundary/random integers, and "
                  "`parse` cases: for every generated and raw peer text (as it stands and without its %zone suffix) the parser "
                  "model's (family, integer, scope id) is compared with ipaddress.ip_address — the value-level tie of parseIp, "
                  "which other properties import.")
    level_note = ("trusted: Lean kernel; the network constants are read from the running interpreter and the three class "
                  "definitions are transcribed by hand from CPython 3.12.1 (fingerprinted; an interpreter with exception "
                  "lists is refused by the translator) and tied by the `cls` cases; `addr & netmask == network` is modelled "
                  "as n / 2^k * 2^k == network. The classification itself is the standard library's (e.g. 192.0.0.8-192.0.0.169 "
                  "and 64:ff9b:1::/48 count as global in 3.12.1). The text parser model is tied differentially, not proved "
                  "against a grammar; what is proved about it: value bounds for every accepted text, and read-back of the two "
                  "IPv4 text forms inet_ntop produces and of the hexadecimal mapped form (the Lean renderers dotted / mappedText / "
                  "mappedHexText are tied to socket.inet_ntop resp. str(IPv6Address) by the `cls` cases). For other notations "
                  "(exploded / compressed non-mapped IPv6, upper case, full `0:0:0:0:0:ffff:` prefix) "
                  "mapped_scoped_equal_plain keeps its parse hypotheses and the differential tie carries them. handle_client is modelled only around "
                  "the client_connected hook (layer execution is C09's subject). Abstentions: the oracle says nothing about "
                  "peer texts that denote no address (the hook raises, AddonManager logs it, the connection proceeds: "
                  "unparseable_not_refused) and nothing about `cls` cases (library tie only).")
    technique = "Lean 4 proof (interval lemma over generated tables, case analysis) + table translator + exhaustive boundary correspondence"
    rule = ("every boundary address (first-1, first, last, last+1) of every IANA special-purpose block and of every network "
            "constant in ipaddress, in 6 IPv4 notations (plain, ::ffff: dotted, ::ffff: hex, %zone, mapped+%zone, full "
            "mapped) / 5 IPv6 notations, crossed with the 4 option pairs and 9 proxy modes (quick: rotating subset of modes "
            "per address, both local and non-local always present); then random addresses inside random intervals and "
            "mutated/raw peer texts. Histories: 2-6 client_connected calls on ONE Block instance and one AddonManager (every case "
            "starts with a fresh instance) from the same address in the same / another spelling, the mode varying between "
            "calls (systematically: local then another mode and the reverse, no option change in between) and the two options "
            "toggled in between; every call is judged by the per-call oracle and compared with the stateless model. distinct = (peer text, mode, options); all are non-trivial.")
    budget = {"quick": 14000, "thorough": 330000}
    time_budget = {"quick": 13, "thorough": 480}
    fingerprints = ["mitmproxy.addons.block:Block.client_connected",
                    "mitmproxy.proxy.server:ConnectionHandler.handle_client",
                    "mitmproxy.proxy.mode_servers:ProxyConnectionHandler.handle_hook",
                    "ipaddress:ip_address", "ipaddress:_BaseV4._ip_int_from_string", "ipaddress:_BaseV4._parse_octet",
                    "ipaddress:IPv6Address.__init__", "ipaddress:_BaseV6._ip_int_from_string",
                    "ipaddress:_BaseV6._parse_hextet", "ipaddress:_BaseV6._split_scope_id",
                    "ipaddress:IPv6Address.ipv4_mapped", "ipaddress:IPv4Address.is_private",
                    "ipaddress:IPv4Address.is_global", "ipaddress:IPv6Address.is_private", "ipaddress:IPv6Address.is_global"]
    trusted_base = ["CPython ipaddress: is_loopback/is_private/is_global are network-membership tests over the module's "
                    "constants (so constant between the generated boundary points)",
                    "AddonManager swallows (logs) exceptions raised by an addon hook"]
    parallel = False   # one case is ~0.5 ms; the fork pool only adds overhead here

    # ---------------- translator ----------------
    def translate(self):
        def rows(tbl):
            return ",\n".join("  (%d, ⟨%s, %s, %s⟩)" % (hi, *("true" if x else "false" for x in c)) for hi, c in tbl)

        def nets(ns):
            return "[" + ", ".join("(%d, %d)" % (int(n.network_address), n.prefixlen) for n in ns) + "]"
        c4, c6 = ipaddress.IPv4Address._constants, ipaddress.IPv6Address._constants
        # the model transcribes the 3.12.1 definitions (is_private = membership in _private_networks; IPv4 is_global =
        # not in _public_network and not is_private; IPv6 is_global = not is_private; IPv4 is_loopback = membership in
        # _loopback_network; IPv6 is_loopback = `_ip == 1`): an interpreter with exception lists is a different semantics
        for c in (c4, c6):
            extra = [k for k in vars(c) if "exception" in k.lower()]
            if extra:
                raise RuntimeError(f"ipaddress has {extra}: is_private/is_global differ from the transcribed 3.12.1 definitions")
        probes6 = [0, 1, 2, 3, 0x7F000001, MAPPED + 0x7F000001, 2 ** 64, 2 ** 127, 2 ** 128 - 1]
        loop6 = [n for n in probes6 if ipaddress.IPv6Address(n).is_loopback]
        if loop6 != [1]:
            raise RuntimeError(f"IPv6 is_loopback is not `_ip == 1`: {loop6}")
        # class hierarchy of the proxy modes (what isinstance(client.proxy_mode, LocalMode) walks)
        types = mode_specs.ProxyMode._ProxyMode__types
        names = list(types)
        for k in names:
            if not k.isidentifier(): raise RuntimeError(f"mode type name {k!r} is not an identifier")
        mro = "\n".join("  | .%s => [%s]" % (k, ", ".join('"%s"' % c.__name__ for c in types[k].__mro__)) for k in names)
        ofname = "\n".join('  | "%s" => some .%s' % (k, k) for k in names)
        src = ("-- GENERATED by harness/c22.py translate() from the running interpreter's `ipaddress` module and from\n"
               "-- mitmproxy.proxy.mode_specs of the checked tree. Do not edit.\n"
               "namespace MitmVerif.Gen.C22\n\n"
               "/-- (is_loopback, is_private, is_global) -/\n"
               "structure Cls where\n  loop : Bool\n  priv : Bool\n  glob : Bool\n  deriving DecidableEq, Repr\n\n"
               "/-- (inclusive upper end of the interval, class); intervals are consecutive from 0 -/\n"
               "def v4Table : List (Nat × Cls) := [\n" + rows(_table(4)) + "]\n\n"
               "def v6Table : List (Nat × Cls) := [\n" + rows(_table(6)) + "]\n\n"
               "/-! the interpreter's own network constants as (network_address, prefixlen) -/\n"
               "def private4 : List (Nat × Nat) := " + nets(c4._private_networks) + "\n"
               "def public4 : List (Nat × Nat) := " + nets([c4._public_network]) + "\n"
               "def loopback4 : List (Nat × Nat) := " + nets([c4._loopback_network]) + "\n"
               "def private6 : List (Nat × Nat) := " + nets(c6._private_networks) + "\n"
               "/-- `IPv6Address.is_loopback` is `_ip == 1` (probed), i.e. membership in ::1/128 -/\n"
               "def loopback6 : List (Nat × Nat) := [(1, 128)]\n\n"
               "/-! the registered proxy mode classes and their `__mro__` -/\n"
               "inductive Mode where\n" + "".join(f"  | {k}\n" for k in names) + "  deriving DecidableEq, Repr\n\n"
               "def Mode.mro : Mode → List String\n" + mro + "\n\n"
               "def Mode.ofName : String → Option Mode\n" + ofname + "\n  | _ => none\n\n"
               "def Mode.all : List Mode := [" + ", ".join("." + k for k in names) + "]\n\n"
               "end MitmVerif.Gen.C22\n")
        return {"MitmVerif/Gen/C22.lean": src}

    # ---------------- generator ----------------
    def _boundary_addrs(self, fam):
        bits = 32 if fam == 4 else 128
        pts = set()
        for c in _cuts(fam):
            for d in (-2, -1, 0, 1):
                if 0 <= c + d < 2 ** bits: pts.add(c + d)
        pts.add(2 ** bits - 1); pts.add(2 ** bits - 2)
        return sorted(pts)

    def _expand(self, fam, n, rng, tier, all_modes):
        notes = NOTES4 if fam == 4 else NOTES6
        for note in notes:
            if all_modes:
                modes = MODE_NAMES
            else:
                modes = ["local", rng.pick([m for m in MODE_NAMES if m != "local"])]
            for mode in modes:
                for bg in (0, 1):
                    for bp in (0, 1):
                        c = {"k": "addr", "fam": fam, "n": str(n), "note": note, "mode": mode, "bg": bg, "bp": bp}
                        if "scoped" in note: c["zone"] = rng.pick(ZONES)
                        yield c

    def generate(self, rng, tier):
        """every generated / raw peer text is additionally sent, once, as a `parse` case: the value-level tie of the
        parser model (family, integer, scope id) with ipaddress.ip_address — for the text as it stands (scope ids reach
        the parser that way) and for the part Block hands to the parser (`rsplit('%', 1)[0]`)"""
        seen = set()
        for case in self._generate(rng, tier):
            yield case
            steps = case["steps"] if case["k"] == "hist" else [case]
            for st in steps:
                if st["k"] not in ("addr", "raw"): continue
                t = peer_text(st)
                for text in (t, t.rsplit("%", 1)[0]):
                    if text in seen: continue
                    seen.add(text)
                    if len(seen) > 200000: seen.clear()
                    yield {"k": "parse", "text_hex": hx(text.encode("utf-8", "surrogateescape"))}

    def _generate(self, rng, tier):
        thorough = tier == "thorough"
        cuts = {4: _cuts(4) + [2 ** 32], 6: _cuts(6) + [2 ** 128]}
        texts = [b"", b"%", b"%eth0", b"1.2.3.4%", b"1.2.3.4%a%b", b"fe80::1%a%b", b"fe80::1%%b", b"::1%", b"::1%a/b",
                 b"1.2.3.4/32", b"::/0", b"01.2.3.4", b"1.2.3.256", b"1.2.3", b"1.2.3.4.5", b"1..3.4", b"1.2.3.4 ",
                 b" 1.2.3.4", b":::", b"::", b":", b"1::2::3", b"1:2:3:4:5:6:7:8:9", b"1:2:3:4:5:6:7::", b"::1:2:3:4:5:6:7:8",
                 b"1:2:3:4:5:6:7:8::", b":1:2:3:4:5:6:7", b"1:2:3:4:5:6:7:", b"12345::", b"g::", b"::ffff:1.2.3", b"::1.2.3.4",
                 b"1.2.3.4::", b"::ffff:1.2.3.4:1", b"1:2:3:4:5:6:1.2.3.4", b"1:2:3:4:5:6:7:1.2.3.4", b"::ffff:01.2.3.4",
                 b"::FFFF:8.8.8.8", b"0::ffff:8.8.8.8", b"\xd9\xa1.2.3.4", b"::\xef\xbc\x91", b"8.8.8.8\n", b"::1\n",
                 b"1.2.3.4%\xc3\xa9", b"0x7f.0.0.1", b"127.1", b"2130706433", b"localhost", b"1_0.0.0.1", b"+1.2.3.4",
                 b"::+1", b"::0x1", b"::_1", b"1234:5678:9abc:def0:1234:5678:9ABC:DEF0", b"::ffff:8.8.8.8%eth0%wlan0"]
        for t in texts:
            for mode in ("regular", "local"):
                yield {"k": "raw", "peer_hex": hx(t), "mode": mode, "bg": 1, "bp": 1}
        yield from self._systematic_histories(rng, thorough)
        for fam in (4, 6):
            for n in self._boundary_addrs(fam):
                if fam == 6 and (n >> 32) == 0xFFFF: continue     # mapped addresses are classified as IPv4
                yield {"k": "cls", "fam": fam, "n": str(n)}
        pts = [(fam, n) for fam in (4, 6) for n in self._boundary_addrs(fam)]
        if not thorough:
            rng.shuffle(pts)    # a run cut short by the time budget still samples both families evenly
        for fam, n in pts:
            if fam == 6 and MAPPED <= n < MAPPED + 2 ** 32 and not thorough and rng.chance(0.5):
                continue        # the mapped range is covered through the IPv4 notations as well
            yield from self._expand(fam, n, rng, tier, thorough)
        while True:
            r = rng.random()
            if r < 0.1:
                fam = rng.pick([4, 6]); cs = cuts[fam]; i = rng.randrange(len(cs) - 1)
                n = rng.randint(cs[i], cs[i + 1] - 1) if rng.chance(0.7) else rng.getrandbits(32 if fam == 4 else 128)
                if fam == 6 and (n >> 32) == 0xFFFF: continue
                yield {"k": "cls", "fam": fam, "n": str(n)}
            elif r < 0.3:
                yield self._random_history(rng, cuts)
            elif r < 0.75:
                fam = rng.pick([4, 4, 6])
                cs = cuts[fam]
                i = rng.randrange(len(cs) - 1)
                n = rng.randint(cs[i], cs[i + 1] - 1)
                if fam == 4 and rng.chance(0.3): n = rng.getrandbits(32)
                notes = NOTES4 if fam == 4 else NOTES6
                c = {"k": "addr", "fam": fam, "n": str(n), "note": rng.pick(notes), "mode": rng.pick(MODE_NAMES),
                     "bg": rng.randint(0, 1), "bp": rng.randint(0, 1)}
                if "scoped" in c["note"]: c["zone"] = rng.pick(ZONES)
                yield c
            else:
                if rng.chance(0.3):
                    base = rng.pick(texts)
                elif rng.chance(0.5):
                    base = peer_text({"k": "addr", "fam": 6, "n": str(rng.getrandbits(rng.pick([8, 32, 48, 128]))),
                                      "note": rng.pick(NOTES6)}).encode()
                else:
                    base = peer_text({"k": "addr", "fam": 4, "n": str(rng.getrandbits(32)),
                                      "note": rng.pick(NOTES4)}).encode()
                b = bytearray(base)
                for _ in range(rng.randint(1, 3)):
                    op = rng.randint(0, 2)
                    alphabet = b"0123456789abcdefABCDEFg.:%/ x"
                    if op == 0 and b: b[rng.randrange(len(b))] = rng.pick(alphabet)
                    elif op == 1: b.insert(rng.randint(0, len(b)), rng.pick(alphabet))
                    elif b: del b[rng.randrange(len(b))]
                yield {"k": "raw", "peer_hex": hx(bytes(b)), "mode": rng.pick(MODE_NAMES),
                       "bg": rng.randint(0, 1), "bp": rng.randint(0, 1)}

    # representative addresses of every class: global, RFC 1918, loopback, shared space, link-local, IPv6 global / ULA /
    # link-local / loopback / documentation
    REPR = [(4, 0x08080808), (4, 0x0A000007), (4, 0xC0A80105), (4, 0xAC100001), (4, 0x7F000001), (4, 0x64400001),
            (4, 0xA9FE0101), (4, 0xC6336401), (6, 1), (6, (0x2606 << 112) | (0x4700 << 96) | 0x1111),
            (6, (0xFC00 << 112) | 1), (6, (0xFE80 << 112) | 1), (6, (0x2001 << 112) | (0xDB8 << 96) | 1)]

    def _step(self, fam, n, note, mode, bg, bp, zone="eth0"):
        c = {"k": "addr", "fam": fam, "n": str(n), "note": note, "mode": mode, "bg": bg, "bp": bp}
        if "scoped" in note: c["zone"] = zone
        return c

    def _systematic_histories(self, rng, thorough):
        """two connections from the same source on ONE Block instance without an option change in between: local mode
        then another mode and the reverse order, same spelling and another spelling of the same address"""
        others = [m for m in MODE_NAMES if m != "local"]
        for fam, n in self.REPR:
            notes = NOTES4 if fam == 4 else NOTES6
            for bg in (0, 1):
                for bp in (0, 1):
                    for m in (others if thorough else [rng.pick(others), rng.pick(others)]):
                        for n1, n2 in [(notes[0], notes[0]), (notes[1], notes[1]), (notes[0], rng.pick(notes[1:]))]:
                            yield {"k": "hist", "steps": [self._step(fam, n, n1, "local", bg, bp),
                                                           self._step(fam, n, n2, m, bg, bp)]}
                            yield {"k": "hist", "steps": [self._step(fam, n, n1, m, bg, bp),
                                                           self._step(fam, n, n2, "local", bg, bp)]}

    def _random_history(self, rng, cuts):
        def addr():
            if rng.chance(0.6): return rng.pick(self.REPR)
            fam = rng.pick([4, 4, 6]); cs = cuts[fam]; i = rng.randrange(len(cs) - 1)
            return fam, rng.randint(cs[i], cs[i + 1] - 1)
        fam, n = addr()
        note = rng.pick(NOTES4 if fam == 4 else NOTES6)
        bg, bp = rng.randint(0, 1), rng.randint(0, 1)
        steps = []
        for _ in range(rng.randint(2, 6)):
            if steps and rng.chance(0.2): fam, n = addr(); note = rng.pick(NOTES4 if fam == 4 else NOTES6)
            elif rng.chance(0.35): note = rng.pick(NOTES4 if fam == 4 else NOTES6)
            if steps and rng.chance(0.3): bg, bp = rng.randint(0, 1), rng.randint(0, 1)
            mode = "local" if rng.chance(0.4) else rng.pick(MODE_NAMES)
            steps.append(self._step(fam, n, note, mode, bg, bp, rng.pick(ZONES)))
        return {"k": "hist", "steps": steps}

    # ---------------- implementation ----------------
    def impl(self, case):
        if case["k"] == "parse":
            return self._impl_step(None, case)
        e = env()
        e.fresh()
        if case["k"] == "hist":
            # 2-6 connections handled by ONE Block instance / AddonManager, options toggled in between
            return {"steps": [self._impl_step(e, st) for st in case["steps"]]}
        return self._impl_step(e, case)

    def _impl_step(self, e, case):
        if case["k"] == "parse":
            text = unhx(case["text_hex"]).decode("utf-8", "surrogateescape")
            try:
                a = ipaddress.ip_address(text)
            except ValueError:
                return {"parse": "err"}
            if a.version == 4:
                return {"parse": f"v4 {int(a)}"}
            sc = a.scope_id
            return {"parse": f"v6 {int(a)} " + ("none" if sc is None else hx(sc.encode("utf-8", "surrogateescape")))}
        if case["k"] == "cls":
            # the library's own answer for this integer (tie of the table AND of the membership transcription)
            a = ipaddress.IPv4Address(int(case["n"])) if case["fam"] == 4 else ipaddress.IPv6Address(int(case["n"]))
            out = {"cls": ",".join("true" if x else "false" for x in (a.is_loopback, a.is_private, a.is_global))}
            if case["fam"] == 4:
                # the OS' own text forms (inet_ntop) of the address and of its IPv4-mapped IPv6 address: tie of the Lean
                # renderers `dotted` / `mappedText` that the read-back theorems are stated for
                import socket
                out["ntop"] = (hx(socket.inet_ntop(socket.AF_INET, a.packed).encode()) + " " +
                               hx(socket.inet_ntop(socket.AF_INET6, b"\0" * 10 + b"\xff\xff" + a.packed).encode()) + " " +
                               # and the hexadecimal mapped form as ipaddress itself prints it (renderer `mappedHexText`)
                               hx(str(ipaddress.IPv6Address(MAPPED + int(a))).encode()))
            return out
        peer = peer_text(case)
        h, w = e.run(peer, case["mode"], case["bg"], case["bp"])
        err = h.client.error
        if err is None:
            verdict = "raised" if e.errors else "pass"
        elif err == "Connection killed by block_private.":
            verdict = "private"
        elif err == "Connection killed by block_global.":
            verdict = "global"
        else:
            verdict = "other:" + str(err)
        trace = []
        for t in h.trace:
            trace.append({"hook:client_connected": "hookClientConnected", "event:Start": "startLayer",
                          "handle_connection": "handleConnection",
                          "hook:client_disconnected": "hookClientDisconnected"}.get(t, t))
        # handle_connection is replaced by a recorder here; in the real handler it closes the client writer itself.
        # Transport clean-up AFTER the connection was processed (ConnectionHandler.release_transport) is therefore not
        # part of the compared trace: only a writer closed INSTEAD of processing (the refusal) is.
        if "handleConnection" in trace:
            i = trace.index("handleConnection")
            trace = trace[:i + 1] + [t for t in trace[i + 1:] if t != "closeWriter"]
        return {"verdict": verdict, "trace": trace, "addon_errors": len(e.errors)}

    # ---------------- property oracle ----------------
    def oracle(self, case, obs):
        # "With block_global enabled, every client connection from a globally routable source address — including
        #  IPv4-mapped IPv6 and zone-scoped forms — is refused before any protocol processing, unless the source is a
        #  loopback address or the connection comes from local-redirect mode; with block_private enabled, the same holds
        #  for private source addresses. Connections from other addresses are not refused by these options."
        if case["k"] == "hist":
            # the verdict of each call depends only on that call's address class, mode and the options at that time
            fails = []
            for i, (st, o) in enumerate(zip(case["steps"], obs["steps"])):
                fails += [f"call {i + 1} of {len(case['steps'])} on one Block instance: {f}" for f in self.oracle(st, o)]
            return fails
        if case["k"] in ("cls", "parse"):
            return []          # library tie only (compared with the model's table and membership classes)
        if case["k"] == "raw":
            # a free-form peer text: when the text without its %zone suffix is an address for `ipaddress`, the same
            # statement applies to it; a text that denotes no address is outside the statement (abstain) but must not
            # produce an unknown error string
            if obs["verdict"].startswith("other"):
                return [f"unexpected client.error {obs['verdict']!r}"]
            try:
                a = ipaddress.ip_address(peer_text(case).rsplit("%", 1)[0])
            except ValueError:
                return []
            return self.oracle({"k": "addr", "fam": a.version, "n": str(int(a)), "note": "raw:" + case["peer_hex"],
                                "mode": case["mode"], "bg": case["bg"], "bp": case["bp"]}, obs)
        fam, n = case["fam"], int(case["n"])
        if fam == 6 and (n >> 32) == 0xFFFF:
            fam, n = 4, n & 0xFFFFFFFF       # the IPv4-mapped form of an IPv4 address is that IPv4 address
        truth = ipaddress.IPv4Address(n) if fam == 4 else ipaddress.IPv6Address(n)
        exempt = truth.is_loopback or case["mode"] == "local"
        must = (not exempt) and ((case["bg"] and truth.is_global) or (case["bp"] and truth.is_private))
        refused = obs["verdict"] in ("private", "global")
        fails = []
        if obs["verdict"] == "raised" or obs["verdict"].startswith("other"):
            fails.append(f"client_connected did not decide for a valid peer address {peer_text(case)!r}: {obs['verdict']}")
        elif must and not refused:
            fails.append(f"{peer_text(case)!r} ({truth}, global={truth.is_global}, private={truth.is_private}) not refused "
                         f"with block_global={case['bg']} block_private={case['bp']} mode={case['mode']}")
        elif not must and refused:
            fails.append(f"{peer_text(case)!r} ({truth}) refused ({obs['verdict']}) although exempt/not in a blocked class "
                         f"(block_global={case['bg']} block_private={case['bp']} mode={case['mode']})")
        if refused and ("startLayer" in obs["trace"] or "handleConnection" in obs["trace"] or "closeWriter" not in obs["trace"]):
            fails.append(f"refused connection was processed: {obs['trace']}")
        return fails

    # ---------------- model tie ----------------
    def model_lines(self, case):
        if case["k"] == "hist":
            return [l for st in case["steps"] for l in self.model_lines(st)]
        if case["k"] == "parse":
            return [f"parse {case['text_hex']}"]
        if case["k"] == "cls":
            return [f"cls {case['fam']} {case['n']}"] + ([f"render4 {case['n']}"] if case["fam"] == 4 else [])
        return [f"decide {hx(peer_text(case).encode('utf-8', 'surrogateescape'))} {case['mode']} {case['bg']} {case['bp']}"]

    def model_obs(self, case, replies):
        # the Lean verdict is stateless: every call of a history is compared with the stateless model
        if case["k"] == "cls": return " | ".join(replies)
        return list(replies) if case["k"] == "hist" else replies[0]

    def impl_view(self, case, obs):
        if case["k"] == "hist":
            return [self.impl_view(st, o) for st, o in zip(case["steps"], obs["steps"])]
        if case["k"] == "parse":
            return obs["parse"]
        if case["k"] == "cls":
            # table class and membership class must both be the library's; IPv4: the renderers must be inet_ntop's
            return obs["cls"] + " " + obs["cls"] + (" | " + obs["ntop"] if "ntop" in obs else "")
        return obs["verdict"] + " " + ",".join(obs["trace"])

    def classify(self, case, obs):
        if case["k"] == "hist":
            return ("hist",) + tuple(self.classify(st, o) for st, o in zip(case["steps"], obs["steps"]))
        if case["k"] == "parse":
            return ("parse", case["text_hex"])
        if case["k"] == "cls":
            return ("cls", case["fam"], case["n"])
        return (peer_text(case).encode("utf-8", "surrogateescape").hex(), case["mode"], case["bg"], case["bp"])

    def branches(self, case, obs):
        if case["k"] == "hist":
            out = [f"hist:len{len(case['steps'])}"]
            sts = case["steps"]
            for a, b in zip(sts, sts[1:]):
                same_addr = (a.get("fam"), a.get("n")) == (b.get("fam"), b.get("n")) and a["k"] == b["k"] == "addr"
                same_opts = (a["bg"], a["bp"]) == (b["bg"], b["bp"])
                if same_addr and same_opts and (a["mode"] == "local") != (b["mode"] == "local"):
                    out.append("hist:same-addr-same-options-mode-flip" + ("" if peer_text(a) == peer_text(b) else "-other-spelling"))
                if same_addr and not same_opts: out.append("hist:same-addr-options-toggled")
            for o in obs["steps"]: out.append("verdict:" + o["verdict"])
            return out
        if case["k"] == "parse":
            r = obs["parse"]
            return ["parse:" + (r if r == "err" else r.split(" ")[0] + (":scoped" if r.startswith("v6") and not r.endswith("none") else ""))]
        if case["k"] == "cls":
            return [f"cls:v{case['fam']}:{obs['cls']}"]
        out = ["verdict:" + obs["verdict"], "mode:" + ("local" if case["mode"] == "local" else "non-local")]
        if case["k"] == "addr": out.append(f"v{case['fam']}:{case['note']}")
        else: out.append("raw")
        return out

    def neighbours(self, case, rng):
        if case["k"] == "parse": return
        if case["k"] == "hist":
            for st in case["steps"]:
                for m in MODE_NAMES:
                    if m == st["mode"]: continue
                    yield {"k": "hist", "steps": [st, dict(st, mode=m)]}
                    yield {"k": "hist", "steps": [dict(st, mode=m), st]}
            return
        if case["k"] != "addr": return
        n = int(case["n"]); bits = 32 if case["fam"] == 4 else 128
        for d in (-1, 1, -256, 256, -65536, 65536):
            if 0 <= n + d < 2 ** bits:
                for note in (NOTES4 if case["fam"] == 4 else NOTES6):
                    for mode in ("regular", "local"):
                        for bg in (0, 1):
                            for bp in (0, 1):
                                yield {"k": "addr", "fam": case["fam"], "n": str(n + d), "note": note, "zone": "eth0",
                                       "mode": mode, "bg": bg, "bp": bp}

    def exhaustive(self, tier):
        rng = __import__("common.prng", fromlist=["Rng"]).Rng(0)
        yield from self._systematic_histories(rng, True)
        for fam in (4, 6):
            for n in self._boundary_addrs(fam):
                yield from self._expand(fam, n, rng, tier, True)
