"""C23 — mitmproxy never proxies a connection back to its own listening sockets
(mitmproxy/addons/proxyserver.py Proxyserver.server_connect; mitmproxy/proxy/server.py open_connection)."""
import asyncio, ipaddress, itertools, json, logging, socket
from types import SimpleNamespace as NS
from common.check import PropertyCheck, Skip, hx, unhx
from mitmproxy import connection
from mitmproxy.addons import proxyserver as ps_mod
from mitmproxy.proxy import commands, mode_servers, server as proxy_server

DEST_UNKNOWN = "Request destination unknown."

LOCAL_NAMES = ["localhost", "LOCALHOST", "LocalHost", "localhost.", "LOCALHOST.", "lOcAlHoSt."]
LOOP4 = ["127.0.0.1", "127.0.0.2", "127.1.2.3", "127.255.255.255", "127.0.0.0", "127.0.0.53", "127.0.0.1."]
LOOP6 = ["::1", "0:0:0:0:0:0:0:1", "::0001", "0000:0000:0000:0000:0000:0000:0000:0001", "::1%lo", "::1."]
LOOPMAPPED = ["::ffff:127.0.0.1", "::FFFF:127.0.0.1", "::ffff:7f00:1", "::FFFF:7F00:0001", "0:0:0:0:0:ffff:127.9.9.9",
              "::ffff:127.255.255.255", "::ffff:127.0.0.1%eth0"]
UNSPEC = ["0.0.0.0", "::", "0:0:0:0:0:0:0:0", "::ffff:0.0.0.0", "::0.0.0.0", "::ffff:0:0", "0::", "::%eth0", "0.0.0.0."]
NEAR = ["126.255.255.255", "128.0.0.0", "::2", "::ffff:128.0.0.0", "::ffff:126.255.255.255", "::fffe:127.0.0.1",
        "1::ffff:127.0.0.1", "0.0.0.1", "::ffff:0.0.0.1", "1::"]
OTHER = ["example.com", "8.8.8.8", "10.0.0.1", "192.168.1.5", "192.168.1.6", "2001:db8::5", "2001:DB8::5", "2001:db8:0:0:0:0:0:5",
         "2001:db8::6", "::ffff:192.168.1.5", "::FFFF:C0A8:105", "fe80::1%eth0", "FE80::1%eth0", "fe80::1%eth1", "fe80::1",
         "localhost.localdomain", "localhost..", "ip6-localhost", "notlocalhost", "localhos", "", ".", "local host",
         "192.168.1.5.", "EXAMPLE.COM."]
# spellings only the C library resolver understands (inet_aton): outside `ipaddress`, outside the statement's list
LEGACY = ["127.1", "2130706433", "0x7f.0.0.1", "0177.0.0.1", "0", "[::1]", "127.0.0.1 ", " localhost"]
NONASCII = ["LOCALHOSTK", "ｌocalhost", "127.0.0.١", "localhost。"]
DESTS = LOCAL_NAMES + LOOP4 + LOOP6 + LOOPMAPPED + UNSPEC + NEAR + OTHER + LEGACY

LISTEN_HOSTS = ["127.0.0.1", "::1", "0.0.0.0", "::", "192.168.1.5", "2001:db8::5", "fe80::1%eth0", "127.0.0.53",
                "::ffff:192.168.1.5"]


def _sockname(host, port):
    return (host, port) if ":" not in host else (host, port, 0, 0)


def _servers(spec):
    """spec: list of (mode transport, [(host, port)])"""
    return [{"tp": tp, "addrs": [[h, p] for h, p in addrs]} for tp, addrs in spec]


LISTEN_CONFIGS = (
    [_servers([(tp, [(h, 8080)])]) for h in LISTEN_HOSTS for tp in ("tcp", "udp", "both")] +
    [_servers([("tcp", [("::", 8080), ("0.0.0.0", 8080)])]),
     _servers([("both", [("::", 53), ("0.0.0.0", 53), ("0.0.0.0", 53), ("::", 53)])]),
     _servers([("tcp", [("192.168.1.5", 8080)]), ("udp", [("127.0.0.1", 8080)])]),
     _servers([("tcp", [("10.0.0.1", 8081)]), ("tcp", [("127.0.0.1", 8080)]), ("udp", [("0.0.0.0", 51820)])]),
     _servers([("tcp", [])]),
     []])


def _unmap(ip):
    if isinstance(ip, ipaddress.IPv6Address) and ip.ipv4_mapped is not None:
        return ip.ipv4_mapped
    return ip


def _parse(text):
    try:
        return ipaddress.ip_address(text)
    except ValueError:
        return None


def _norm(host: str) -> str:
    h = "".join(chr(ord(c) + 32) if "A" <= c <= "Z" else c for c in host)   # ASCII case only
    return h[:-1] if h.endswith(".") else h


def _is_loop(ip):
    ip = _unmap(ip)
    return ip in ipaddress.ip_network("127.0.0.0/8") if ip.version == 4 else int(ip) == 1


def _is_unspec(ip):
    return int(_unmap(ip)) == 0


def denotes_own_socket(case) -> bool:
    """the statement: same transport, same port, and the destination is the explicit listen address, or any loopback
    address or name when listening on loopback or all interfaces, or the wildcard address itself"""
    dh = unhx(case["dest_hex"]).decode("utf-8", "surrogateescape")
    nh = _norm(dh)
    dip = _parse(nh)
    for s in case["servers"]:
        if s["tp"] not in (case["tp"], "both"):
            continue
        for lh, lp in s["addrs"]:
            if lp != case["dport"]:
                continue
            lip = _parse(lh)
            same = dh == lh or nh == lh or (dip is not None and lip is not None and _unmap(dip) == _unmap(lip))
            listen_loop_any = lip is not None and (_is_loop(lip) or _is_unspec(lip))
            dest_loop = nh == "localhost" or (dip is not None and _is_loop(dip))
            dest_unspec = dip is not None and _is_unspec(dip)
            if same or (listen_loop_any and dest_loop) or dest_unspec:
                return True
    return False


def _srv_field(s):
    return s["tp"] + ("/" + ",".join(f"{hx(h.encode())}:{p}" for h, p in s["addrs"]) if s["addrs"] else "")


def _keyed(pairs):
    return "&".join(f"{k}={_srv_field(s)}" for k, s in pairs) or "-"


def hist_ops(steps):
    """a stub-listener history as operations of the stateful model: a reconfiguration whenever the listener set differs
    from the previous call (an instance equal to one of the previous set keeps its key = is kept), then the connect"""
    ops, expect_l, cur, keys, nxt = [], [], None, {}, 0
    for st in steps:
        if cur is None or st["servers"] != cur:
            newkeys = {}
            pairs = []
            for s in st["servers"]:
                r = repr(s)
                if r in keys and r not in newkeys: k = keys[r]
                else: k = nxt; nxt += 1
                newkeys[r] = k; pairs.append((k, s))
            keys, cur = newkeys, st["servers"]
            ops.append(f"R;1;{','.join(str(k) for k, _ in pairs) or '-'};{_keyed(pairs)}")
            expect_l.append("L;" + _keyed(pairs))
        else:
            expect_l.append(None)
        ops.append(f"C;{st['dest_hex']};{st['dport']};{st['tp']};{st['ok']}")
    return ops, expect_l


REAL_SPECS = ["regular@127.0.0.1:0", "socks5@127.0.0.2:0", "reverse:http://example.com@127.0.0.3:0",
              "upstream:http://example.com:3128@0", "reverse:udp://example.com:53@127.0.0.5:0", "dns@127.0.0.4:0"]
REAL_DESTS = ["localhost", "LOCALHOST.", "127.0.0.1", "127.0.0.2", "127.9.8.7", "::1", "::ffff:127.0.0.1", "0.0.0.0", "::",
              "127.0.0.3", "::FFFF:7F00:5", "example.com", "192.168.1.5", "128.0.0.0"]


RESOLVER_TAG = "[resolver-only spelling]"


def resolver_view(dest: str):
    """what the resolver makes of a destination that neither is `localhost` (ASCII case / trailing dot) nor parses with
    `ipaddress`: numeric legacy forms via getaddrinfo(AI_NUMERICHOST) (no DNS, no network: `127.1`, `2130706433`,
    `0x7f.0.0.1`, `0177.0.0.1`, `0`), and names whose IDNA encoding is localhost. Returns the canonical spelling or None."""
    nh = _norm(dest)
    if nh == "localhost" or _parse(nh) is not None:
        return None
    try:
        if dest.isascii() and dest and "\0" not in dest:
            res = socket.getaddrinfo(dest, 80, proto=socket.IPPROTO_TCP, flags=socket.AI_NUMERICHOST)
            addrs = sorted({r[4][0] for r in res})
            if len(addrs) == 1 and _parse(addrs[0]) is not None:
                return addrs[0]
    except (OSError, UnicodeError, ValueError):
        pass
    try:
        if not dest.isascii() and _norm(dest.encode("idna").decode("ascii")) == "localhost":
            return "localhost"
    except (UnicodeError, ValueError):
        pass
    return None


class _FakeStream:
    def __init__(self, addr): self.addr = addr
    def get_extra_info(self, name, default=None):
        return {"peername": (self.addr[0] or "x", self.addr[1]), "sockname": ("127.0.0.1", 40000)}.get(name, default)
    def close(self): pass
    def is_closing(self): return False


_LOG_SINK = []


class _ErrHandler(logging.Handler):
    def emit(self, record):
        if record.levelno >= logging.ERROR: _LOG_SINK.append(record.getMessage())


class _Env:
    """real Master + AddonManager + Proxyserver addon (its `servers` replaced by stub instances exposing `listen_addrs`
    and `mode.transport_protocol`) + the real ProxyConnectionHandler.open_connection; the socket primitives
    asyncio.open_connection / mitmproxy_rs.udp.open_udp_connection are replaced by recorders"""
    def __init__(self):
        from mitmproxy.test import taddons
        self.ps = ps_mod.Proxyserver()
        self.tctx = taddons.context(self.ps)
        self.loop = self.tctx.master.event_loop
        from mitmproxy.proxy import mode_specs
        self.mode = mode_specs.ProxyMode.parse("regular")
        self.errors = []
        self.current = None
        global _LOG_SINK
        _LOG_SINK = self.errors
        lg = logging.getLogger("mitmproxy.addonmanager")
        if not any(isinstance(x, _ErrHandler) for x in lg.handlers):
            lg.addHandler(_ErrHandler()); lg.propagate = False; lg.setLevel(logging.ERROR)

        class Handler(mode_servers.ProxyConnectionHandler):
            def log(s, *a, **k): pass
            async def handle_hook(s, hook):
                s.trace.append("hook:" + hook.name)
                await super().handle_hook(hook)
                if hook.name == "server_connect":
                    s.err_after_hook = hook.args()[0].server.error
            async def server_event(s, event):
                if isinstance(event, proxy_server.events.OpenConnectionCompleted):
                    r = event.reply
                    s.trace.append("completedOk" if r is None else
                                   "completedKilled" if str(r).startswith("Connection killed: ") else "completedError")
                else:
                    s.trace.append("event:" + type(event).__name__)
            async def handle_connection(s, connection):
                s.trace.append("handleConnection")
        self.Handler = Handler

    def dispose(self):
        """a Master installs a logging handler bound to its event loop: take it out before the loop is closed"""
        try:
            self.tctx.master._legacy_log_events.uninstall()
        finally:
            if not self.loop.is_closed(): self.loop.close()

    def run(self, case, reuse=None):
        """reuse = (handler, Server) of an earlier attempt: the SAME Server object is opened again by the same handler"""
        dest = unhx(case["dest_hex"]).decode("utf-8", "surrogateescape")
        # the real `Servers` container keeps its identity; its instances are stubs, and — as Servers.update does —
        # `changed` is sent exactly when the set of listeners really changes between two calls
        key = repr(case["servers"])
        if key != self.current:
            self.ps.servers._instances = {
                i: NS(listen_addrs=tuple(_sockname(h, p) for h, p in s["addrs"]), mode=NS(transport_protocol=s["tp"]))
                for i, s in enumerate(case["servers"])}
            self.current = key
            self.loop.run_until_complete(self.ps.servers.changed.send())
        self.errors.clear()
        trace = []
        ok = bool(case["ok"])

        async def fake_open(host, port, **kw):
            trace.append("socketOpen")
            if not ok: raise OSError("connection refused (recorder)")
            st = _FakeStream((host, port))
            return st, st

        async def fake_udp(host, port, **kw):
            trace.append("socketOpen")
            if not ok: raise OSError("connection refused (recorder)")
            return _FakeStream((host, port))

        class W:
            def get_extra_info(s, name, default=None):
                return {"peername": ("198.51.100.7", 51234), "sockname": ("192.168.1.5", 8080)}.get(name, default)
            def close(s): pass

        async def go():
            if reuse is not None:
                h, srv = reuse
            else:
                h = self.Handler(self.tctx.master, None, W(), self.tctx.options, self.mode)
                srv = connection.Server(address=(dest, case["dport"]), transport_protocol=case["tp"])
            h.trace = trace; h.err_after_hook = "<hook not run>"
            h.err_before = srv.error
            await h.open_connection(commands.OpenConnection(srv))
            return h, srv
        real_open, real_udp = asyncio.open_connection, proxy_server.mitmproxy_rs.udp.open_udp_connection
        asyncio.open_connection = fake_open
        proxy_server.mitmproxy_rs.udp.open_udp_connection = fake_udp
        try:
            h, srv = self.loop.run_until_complete(go())
        finally:
            asyncio.open_connection = real_open
            proxy_server.mitmproxy_rs.udp.open_udp_connection = real_udp
        return h, srv, trace


class _RealEnv(_Env):
    """a fresh Proxyserver with REAL listeners (asyncio.start_server / mitmproxy_rs udp on loopback, port 0) that is
    reconfigured at run time through the `mode` / `server` options, i.e. through the real configure() -> Servers.update()"""
    def __init__(self):
        super().__init__()
        from mitmproxy.proxy import mode_specs
        self.specs = [mode_specs.ProxyMode.parse(x) for x in REAL_SPECS]
        self.started = False

    async def _settle(self):
        await asyncio.sleep(0)
        for _ in range(2000):
            if not self.ps.servers.is_updating: break
            await asyncio.sleep(0.002)
        await asyncio.sleep(0.002)

    def reconfigure(self, modes, server=True):
        async def go():
            kw = dict(mode=[REAL_SPECS[i] for i in modes], server=bool(server))
            if not self.started:
                self.tctx.configure(self.ps, **kw)
                await self.ps.setup_servers()
                self.ps.running()
                self.started = True
            else:
                cur = dict(mode=list(self.tctx.options.mode), server=self.tctx.options.server)
                diff = {k: v for k, v in kw.items() if cur[k] != v}
                if diff: self.tctx.configure(self.ps, **diff)
            await self._settle()
            out = []
            for spec, inst in self.ps.servers._instances.items():
                i = self.specs.index(spec)
                out.append([i, spec.transport_protocol, [[a[0], a[1]] for a in inst.listen_addrs]])
            return out
        return self.loop.run_until_complete(go())

    def close(self):
        try:
            if self.started:
                async def stop():
                    self.tctx.configure(self.ps, server=False)
                    await self._settle()
                self.loop.run_until_complete(stop())
        finally:
            self.dispose()

    def run(self, case, reuse=None):
        self.current = repr(case["servers"])      # the live instances are the real ones: nothing to swap in
        return _Env.run(self, case, reuse)


class _FlightEnv(_RealEnv):
    """real listeners whose start / stop tasks complete in an order the harness controls: `_start` / `_stop` of the
    server instances are wrapped so that one instance can be held at a gate while an update is in flight. The wrappers
    also keep `bound`: which sockets are listening right now, known independently of Servers._instances."""
    def __init__(self):
        super().__init__()
        from mitmproxy.proxy import mode_servers as ms
        self.ms = ms
        self.bound, self.events = {}, []
        self.hold_start, self.hold_stop, self.gate = set(), set(), None
        self.in_update_started = False
        env = self
        self.orig = (ms.AsyncioServerInstance._start, ms.AsyncioServerInstance._stop)
        orig_start, orig_stop = self.orig

        def idx_of(inst):
            return env.specs.index(inst.mode)

        async def _start(inst):
            i = idx_of(inst)
            if not env.in_update_started:
                env.in_update_started = True
                env.events.append("D")                       # start tasks only run once all stop tasks are gathered
            if i in env.hold_start: await env.gate.wait()
            await orig_start(inst)
            srv = {"tp": inst.mode.transport_protocol, "addrs": [[a[0], a[1]] for a in inst.listen_addrs]}
            env.bound[i] = srv
            env.events.append(f"U;{i}={_srv_field(srv)}")

        async def _stop(inst):
            i = idx_of(inst)
            if i in env.hold_stop: await env.gate.wait()
            await orig_stop(inst)
            env.bound.pop(i, None)
            env.events.append(f"S;{i}")
        ms.AsyncioServerInstance._start, ms.AsyncioServerInstance._stop = _start, _stop

    def close(self):
        try:
            if self.gate is not None: self.gate.set()
            super().close()
        finally:
            self.ms.AsyncioServerInstance._start, self.ms.AsyncioServerInstance._stop = self.orig

    def _spec_strings(self, modes):
        return [self.specs[i].full_spec for i in modes]

    def begin(self, modes, server, hold=None, phase=None):
        """apply the option change; returns when the update is through (hold is None) or when every start/stop task
        other than the held one has completed"""
        async def go():
            self.gate = asyncio.Event()
            self.hold_start = {hold} if phase == "start" else set()
            self.hold_stop = {hold} if phase == "stop" else set()
            self.in_update_started = False
            before = set(self.bound)
            target = set(modes) if server else set()
            self.events.append(f"B;{1 if server else 0};{','.join(str(i) for i in modes) or '-'}")
            kw = dict(mode=self._spec_strings(modes), server=bool(server))
            if not self.started:
                self.tctx.configure(self.ps, **kw)
                self.started = True
                self.ps.is_running = True
                task = asyncio.ensure_future(self.ps.servers.update([self.specs[i] for i in modes]))
                self._tasks = [task]
            else:
                cur = dict(mode=list(self.tctx.options.mode), server=self.tctx.options.server)
                diff = {k: v for k, v in kw.items() if cur[k] != v}
                if diff: self.tctx.configure(self.ps, **diff)
            if hold is None:
                await self._settle()
                if not self.in_update_started: self.events.append("D")
                return
            # wait for everything that is not held
            want_stop = {i for i in before - target if not (phase == "stop" and i == hold)}
            want_start = set() if phase == "stop" else {i for i in target - before if i != hold}
            for _ in range(1500):
                done_stop = want_stop.isdisjoint(self.bound)
                done_start = want_start <= set(self.bound)
                if done_stop and done_start: break
                await asyncio.sleep(0.002)
            await asyncio.sleep(0.004)
        self.loop.run_until_complete(go())

    def release(self):
        async def go():
            self.gate.set()
            await self._settle()
            for t in getattr(self, "_tasks", []):
                if not t.done(): await t
            if not self.in_update_started: self.events.append("D")
            self.hold_start, self.hold_stop = set(), set()
        self.loop.run_until_complete(go())

    def partial(self, modes):
        """add a dns server (tcp+udp) on a port whose UDP side is already taken: its start fails half-way"""
        import socket as so
        from mitmproxy.proxy import mode_specs
        u = so.socket(so.AF_INET, so.SOCK_DGRAM); u.bind(("127.0.0.6", 0)); port = u.getsockname()[1]
        try:
            spec = mode_specs.ProxyMode.parse(f"dns@127.0.0.6:{port}")
            if spec not in self.specs: self.specs.append(spec)
            i = self.specs.index(spec)
            self.begin(sorted(modes) + [i], 1)
            # is the TCP side accepting although the instance failed to start?  (independent probe with a real socket)
            leaked = False
            if i not in self.bound:
                t = so.socket(so.AF_INET, so.SOCK_STREAM); t.settimeout(0.5)
                try:
                    t.connect(("127.0.0.6", port)); leaked = True
                except OSError:
                    pass
                finally:
                    t.close()
                if leaked:
                    self.bound[i] = {"tp": "both", "addrs": [["127.0.0.6", port]], "leaked": True}
            return i, port, leaked
        finally:
            u.close()

    def listening(self):
        return [{"tp": v["tp"], "addrs": v["addrs"]} for _, v in sorted(self.bound.items())]


_ENV = None


def env():
    global _ENV
    if _ENV is None: _ENV = _Env()
    return _ENV


TRACE_NAMES = {"hook:server_connect": "hookServerConnect", "hook:server_connect_error": "hookServerConnectError",
               "hook:server_connected": "hookServerConnected", "hook:server_disconnected": "hookServerDisconnected"}


class Check(PropertyCheck):
    prop = "C23"
    design_ref = "§5 C23"
    level_text = ("Lean theorems: spec_implies_blocked (every destination that denotesOwnSocket — same transport incl. modes "
                  "listening on both, same port, explicit listen address up to case/trailing dot/notation/IPv4-mapping, any "
                  "loopback name or address when listening on loopback or all interfaces, or the wildcard address — is "
                  "recognised by the model of Proxyserver.server_connect), blocked_sets_error_and_no_connect, "
                  "own_socket_never_connected, not_blocked_reaches_socket, the spelling classes one by one — for the text forms "
                  "themselves, without parse hypotheses, via the C22 read-back theorems and normHost fixed points: "
                  "every_127_address_blocked (`127.b.c.d` for all b,c,d), every_mapped_127_address_blocked "
                  "(`::ffff:127.b.c.d`), listen_address_dotted_blocked (the listen address as dotted quad or IPv4-mapped), "
                  "localhost_case_and_dot_blocked (every text whose ASCII lower-casing is localhost / localhost.), "
                  "wildcard_texts_blocked (`0.0.0.0`, `::`, `::ffff:0.0.0.0`), ipv6_loopback_texts_blocked (`::1`) — "
                  "and over HISTORIES: "
                  "the listener set is state changed by a transcription of Servers.update (instances of kept specs kept, new "
                  "specs started, the rest dropped, server=False drops all); history_never_connects_to_current_own_socket proves "
                  "by induction over every history of reconfigurations and connection attempts that an attempt at a socket of the "
                  "listener set CURRENT at that point never reaches the socket primitive; run_step, new_listener_protected, "
                  "kept_listener_protected, server_off_no_listeners; and over repeated OpenConnection commands on ONE Server "
                  "object (connection.error survives on the object): attempt_blocked_whatever_prior and "
                  "repeated_attempts_never_dial_own_socket prove that whether an attempt dials is a function of the error present "
                  "after THIS attempt's hook, so every attempt at a current own socket is killed whatever the object carried "
                  "before (attempt_fresh ties it to the single-attempt model). resolver_spelling_counterexample records the "
                  "residual. Updates IN FLIGHT: the listener set changes per instance start / stop event (LState: listed = "
                  "keys of Servers._instances, bound = sockets listening now); listedInv_step / listedInv_always prove that every "
                  "listening instance is listed at every moment of every event sequence (instances going away stay listed until "
                  "stopped, new ones are listed before they start), and inflight_never_connects_to_listening_socket that an "
                  "attempt at a socket LISTENING at that moment is killed whether or not the update binding or closing it has "
                  "finished; update_is_settled_view / settled_update_blocks tie the two listener models: after the events of one "
                  "complete update the per-event guard view contains every listener the per-update model predicts, and with "
                  "unique keys (update_is_settled_view_exact; reachable_keys_nodup shows the uniqueness is an invariant of "
                  "duplicate-free reconfigurations) listening = guard view = prediction exactly. "
                  "Tie: the real Proxyserver addon through the real AddonManager and ProxyConnectionHandler.open_connection on "
                  "~90 spellings x 33 listen configurations x transports x ports x connect outcome, stub-listener histories "
                  "(per call AND as one stateful `run`), 2-5 attempts on the SAME Server object through the same handler "
                  "(reverse-DNS-to-own-listener per-query re-opens, tcp and udp, retries after failed dials, listeners changing "
                  "in between; state blocked/open/stale and trace of every attempt predicted by the model), update-in-flight histories (start / stop "
                  "tasks of real server instances held at a gate the harness controls, attempts between 'first instance "
                  "listening' and 'update finished' and while a stop is pending, a tcp+udp server whose UDP bind fails; ground "
                  "truth = sockets the harness has seen bound, independent of Servers._instances; the per-event model predicts "
                  "every attempt), and REAL-listener "
                  "histories: a Proxyserver with real sockets on "
                  "loopback reconfigured at run time through the mode/server options (real configure -> Servers.update); the "
                  "model is given only the OS' answers for instances it considers new and predicts which instances are kept, "
                  "the listener set after every reconfiguration and the outcome of every attempt.")
    level_note = ("trusted: Lean kernel; the tie is differential; ipaddress.ip_address is the C22 parser model; is_loopback / "
                  "is_unspecified constants are regenerated from the interpreter (Gen/C23.lean). Host texts are ASCII in the "
                  "model (str.lower() = ASCII lower-casing); non-ASCII destinations have no model counterpart (model_lines "
                  "returns None) and are judged by the oracle only. Residual, recorded as finding F-C23b with evidence: spellings "
                  "only the resolver understands (127.1, 127.0.1, 2130706433, 0x7f.0.0.1, 0177.0.0.1, 0 — "
                  "getaddrinfo(AI_NUMERICHOST) on this machine returns 127.0.0.1 / 0.0.0.0 for them — and names that IDNA-encode "
                  "to localhost) are not recognised by the guard; the oracle demands them, known() excuses exactly that class "
                  "(self-tested with near misses at start-up); names that merely resolve to a loopback address through DNS or "
                  "/etc/hosts cannot be judged without a resolver and are outside the check. In the settled `real` histories the oracle's listener set is read from "
                  "Servers._instances (the model predicts it); in the `flight` histories it is the harness' own record of bound "
                  "sockets. In update() mode specs are keys "
                  "and assumed distinct (configure rejects duplicate listen addresses); what a new instance binds is an "
                  "environment parameter. open_connection is modelled only around the server_connect hook.")
    technique = "Lean 4 proof (case analysis over the guard, spec ⊆ implementation) + exhaustive/random model-vs-code correspondence"
    rule = ("exhaustive: every listed destination spelling (localhost case/dot variants, 127/8 addresses, ::1 spellings, "
            "IPv4-mapped loopback, wildcard spellings, near misses, other hosts incl. the listen host in other notations, "
            "resolver-only spellings) x every listen configuration (9 hosts x tcp/udp/both, dual-stack, multi-server, empty) "
            "x tcp/udp x listen port/other port; then random: random 127/8 and neighbours in plain/mapped/hex notation, "
            "random case flips and dots on localhost, single-character mutations. distinct = (dest, port, transport, "
            "servers); non-trivial = at least one server with an address. Histories: 2-5 server_connect / open_connection calls "
            "on ONE fresh Proxyserver instance whose listener set changes between calls (Servers.changed is sent on every real "
            "change); every call is judged by the per-call oracle and compared with the stateless model.")
    budget = {"quick": 9000, "thorough": 250000}
    time_budget = {"quick": 10, "thorough": 500}
    fingerprints = ["mitmproxy.addons.proxyserver:Servers.update", "mitmproxy.proxy.mode_servers:AsyncioServerInstance.listen",
                    "mitmproxy.addons.proxyserver:Proxyserver.server_connect", "mitmproxy.addons.proxyserver:_is_own_host",
                    "mitmproxy.addons.proxyserver:_unmap", "mitmproxy.proxy.server:ConnectionHandler.open_connection",
                    "mitmproxy.proxy.mode_servers:ProxyConnectionHandler.handle_hook",
                    "ipaddress:IPv4Address.is_loopback", "ipaddress:IPv6Address.is_loopback",
                    "ipaddress:IPv4Address.is_unspecified", "ipaddress:IPv6Address.is_unspecified",
                    "ipaddress:IPv6Address.ipv4_mapped", "ipaddress:IPv6Address.__eq__", "ipaddress:_BaseAddress.__eq__"]
    trusted_base = ["server instances are represented by stubs exposing listen_addrs and mode.transport_protocol "
                    "(the only attributes server_connect reads)",
                    "asyncio.open_connection / mitmproxy_rs.udp.open_udp_connection are the only socket primitives "
                    "open_connection can reach"]
    parallel = False
    _real_line = {}

    # ---------------- translator ----------------
    def translate(self):
        c4 = ipaddress.IPv4Address._constants
        lo, hi = int(c4._loopback_network.network_address), int(c4._loopback_network.broadcast_address)
        un4 = int(c4._unspecified_address)
        probes = [0, 1, 2, 3, 0x7F000001, 0xFFFF7F000001, 0xFFFF00000000, 2 ** 64, 2 ** 127, 2 ** 128 - 1]
        l6 = [n for n in probes if ipaddress.IPv6Address(n).is_loopback]
        u6 = [n for n in probes if ipaddress.IPv6Address(n).is_unspecified]
        if len(l6) != 1 or len(u6) != 1:
            raise RuntimeError(f"IPv6 is_loopback/is_unspecified are not single addresses: {l6} {u6}")
        for n in (lo, hi, (lo + hi) // 2):
            assert ipaddress.IPv4Address(n).is_loopback
        assert not ipaddress.IPv4Address(lo - 1).is_loopback and not ipaddress.IPv4Address(hi + 1).is_loopback
        src = ("-- GENERATED by harness/c23.py translate() from the running interpreter's `ipaddress` module. Do not edit.\n"
               "namespace MitmVerif.Gen.C23\n\n"
               "/-- `IPv4Address._constants._loopback_network` as an inclusive integer range -/\n"
               f"def loop4Lo : Nat := {lo}\ndef loop4Hi : Nat := {hi}\n"
               "/-- `IPv4Address._constants._unspecified_address` -/\n"
               f"def unspec4 : Nat := {un4}\n"
               "/-- the only IPv6 integers with is_loopback / is_unspecified (probed) -/\n"
               f"def loop6 : Nat := {l6[0]}\ndef unspec6 : Nat := {u6[0]}\n\n"
               "end MitmVerif.Gen.C23\n")
        return {"MitmVerif/Gen/C23.lean": src}

    # ---------------- generator ----------------
    def _case(self, dest, dport, tp, ok, servers):
        return {"dest_hex": hx(dest.encode("utf-8", "surrogateescape")), "dport": dport, "tp": tp, "ok": ok,
                "servers": servers}

    def exhaustive(self, tier):
        for servers in LISTEN_CONFIGS:
            ports = sorted({p for s in servers for _, p in s["addrs"]}) or [8080]
            for dest in DESTS + NONASCII:
                for tp in ("tcp", "udp"):
                    for dport in (ports[0], ports[0] + 1):
                        yield self._case(dest, dport, tp, 1 if (len(dest) + dport) % 2 else 0, servers)

    def _random_dest(self, rng):
        r = rng.random()
        if r < 0.2:
            s = "".join(c.upper() if rng.chance(0.5) else c for c in "localhost")
            return s + rng.pick(["", "", ".", "..", ".x"])
        if r < 0.5:
            n = rng.pick([0x7F000000 + rng.getrandbits(24), 0x7F000000 + rng.getrandbits(24),
                          0x7EFFFFFF + rng.randint(0, 2) * 0x01000001, rng.getrandbits(32), rng.randint(0, 2)])
            d = str(ipaddress.IPv4Address(n))
            return rng.pick([d, "::ffff:" + d, "::FFFF:%X:%X" % (n >> 16, n & 0xFFFF), "0:0:0:0:0:ffff:" + d,
                             d + ".", "::ffff:" + d + "%eth0"])
        if r < 0.65:
            n = rng.pick([rng.randint(0, 3), rng.getrandbits(128), (0xFFFF << 32) + rng.getrandbits(32),
                          (rng.randint(0xFFFE, 0x10000) << 32) + 0x7F000001])
            a = ipaddress.IPv6Address(n)
            return rng.pick([str(a), a.exploded, str(a).upper(), str(a) + "%1", str(a) + "."])
        if r < 0.8:
            return rng.pick(LISTEN_HOSTS + ["192.168.1.5", "2001:DB8::5", "2001:db8:0::5", "::ffff:c0a8:105"]) + rng.pick(["", "", "."])
        b = bytearray(rng.pick(DESTS).encode())
        alphabet = b"0123456789abcdefLOCALHST.:% x"
        for _ in range(rng.randint(1, 2)):
            op = rng.randint(0, 2)
            if op == 0 and b: b[rng.randrange(len(b))] = rng.pick(alphabet)
            elif op == 1: b.insert(rng.randint(0, len(b)), rng.pick(alphabet))
            elif b: del b[rng.randrange(len(b))]
        return bytes(b).decode()

    def _flight_histories(self, rng, count):
        """attempts issued WHILE an update is in flight: two modes in one update with the second one's start held (the
        first is already accepting), a stop held while its socket is still open, and a tcp+udp server whose UDP bind
        fails after its TCP listener has started"""
        pool = [0, 1, 2, 3, 4]
        own = ["localhost", "LOCALHOST.", "127.0.0.1", "127.9.8.7", "::1", "::ffff:127.0.0.1", "0.0.0.0", "::"]

        def att(spec, n=2):
            return [{"op": "connect", "dest": rng.pick(own if rng.chance(0.8) else REAL_DESTS), "spec": spec,
                     "tp": "udp" if spec == 4 else "tcp", "ok": rng.randint(0, 1)} for _ in range(n)]
        for n in range(count):
            kind = n % 4
            a, b, c = rng.sample(pool, 3)
            if kind == 0:      # first start: a is up, b is held
                steps = [{"op": "begin", "modes": sorted([a, b]), "server": 1, "hold": b, "phase": "start"}] + att(a) + \
                        [{"op": "release"}] + att(a, 1) + att(b, 1)
            elif kind == 1:    # runtime: c kept, a added and up, b added and held
                steps = [{"op": "modes", "modes": [c], "server": 1}] + att(c, 1) + \
                        [{"op": "begin", "modes": sorted([a, b, c]), "server": 1, "hold": b, "phase": "start"}] + att(a) + att(c, 1) + \
                        [{"op": "release"}] + att(b, 1)
            elif kind == 2:    # a is being stopped (held): still listening
                steps = [{"op": "modes", "modes": sorted([a, c]), "server": 1},
                         {"op": "begin", "modes": [c], "server": 1, "hold": a, "phase": "stop"}] + att(a) + att(c, 1) + \
                        [{"op": "release"}] + att(a, 1)
            else:              # second transport fails to start
                steps = [{"op": "modes", "modes": [a], "server": 1}, {"op": "partial", "modes": [a]}] + \
                        [{"op": "connect", "dest": d, "spec": -1, "tp": "tcp", "ok": 1} for d in ("127.0.0.6", "localhost")] + att(a, 1)
            yield {"flight": steps}

    def _conn_histories(self, rng, tier):
        """2-5 OpenConnection commands on ONE Server object: systematically the own listener opened again and again
        (reverse DNS mode pointing at its own listener: one open per query; tcp and udp, every class of spelling), a
        foreign destination retried after a failed dial, and the listener set changing between the attempts"""
        dns = _servers([("both", [("127.0.0.1", 53), ("::1", 53)])])
        cfgs = [dns, _servers([("tcp", [("127.0.0.1", 8080)])]), _servers([("udp", [("0.0.0.0", 8080)])]),
                _servers([("tcp", [("::", 8080), ("0.0.0.0", 8080)])]), _servers([("both", [("192.168.1.5", 8080)])])]
        dests = ["127.0.0.1", "localhost", "LocalHost.", "::1", "::ffff:127.0.0.1", "0.0.0.0", "127.0.0.2", "192.168.1.5",
                 "example.com", "127.1"]
        for ci, servers in enumerate(cfgs):
            port = servers[0]["addrs"][0][1]
            for di, dest in enumerate(dests):
                if tier != "thorough" and (ci + di) % 2 and ci: continue
                for tp in ("tcp", "udp"):
                    conn = {"dest_hex": hx(dest.encode()), "dport": port, "tp": tp}
                    for oks in ([1, 1], [1, 1, 1], [0, 1, 0]):
                        yield {"conn": conn, "attempts": [{"ok": k, "servers": servers} for k in oks]}
                    # the listener appears / disappears between the attempts
                    yield {"conn": conn, "attempts": [{"ok": 0, "servers": []}, {"ok": 1, "servers": servers},
                                                      {"ok": 1, "servers": servers}, {"ok": 1, "servers": []}]}
        n = 300 if tier != "thorough" else 6000
        for _ in range(n):
            servers = rng.pick(LISTEN_CONFIGS)
            ports = sorted({p for s in servers for _, p in s["addrs"]}) or [8080]
            conn = {"dest_hex": hx((self._random_dest(rng) if rng.chance(0.4) else rng.pick(DESTS)).encode()),
                    "dport": rng.pick(ports), "tp": rng.pick(["tcp", "udp"])}
            att = []
            for _ in range(rng.randint(2, 5)):
                if rng.chance(0.25): servers = rng.pick(LISTEN_CONFIGS)
                att.append({"ok": rng.randint(0, 1), "servers": servers})
            yield {"conn": conn, "attempts": att}

    def _real_histories(self, rng, count):
        """start -> attempt -> runtime reconfiguration (listener added / moved / dropped / server off) -> attempts at the
        new, the kept and the dropped listeners"""
        light = [0, 1, 2, 3, 4]                      # dns (index 5) starts slowly: used rarely
        for n in range(count):
            pool = light + ([5] if n % 8 == 0 else [])
            first = sorted(rng.sample(pool, rng.randint(1, 2)))
            steps = [{"op": "modes", "modes": first, "server": 1}]
            known = list(first)

            def attempt():
                spec = rng.pick(known) if rng.chance(0.85) else rng.pick(pool)
                return {"op": "connect", "dest": rng.pick(REAL_DESTS), "spec": spec,
                        "tp": "udp" if (spec in (4, 5) and rng.chance(0.7)) else rng.pick(["tcp", "tcp", "udp"]),
                        "ok": rng.randint(0, 1)}
            steps.append(attempt())
            for _ in range(rng.randint(1, 3)):
                r = rng.random()
                cur = steps[[i for i, x in enumerate(steps) if x["op"] == "modes"][-1]]["modes"]
                if r < 0.5: nxt = sorted(set(cur) | {rng.pick(pool)})
                elif r < 0.7: nxt = sorted(set(cur) - {rng.pick(cur)}) if cur else [rng.pick(pool)]
                elif r < 0.9: nxt = sorted(rng.sample(pool, rng.randint(1, 3)))
                else: nxt = cur
                steps.append({"op": "modes", "modes": nxt, "server": 0 if (r >= 0.9) else 1})
                known = sorted(set(known) | set(nxt))
                for _ in range(rng.randint(1, 3)): steps.append(attempt())
            yield {"real": steps}

    def generate(self, rng, tier):
        yield from self._flight_histories(rng, 16 if tier != "thorough" else 160)
        yield from self._conn_histories(rng, tier)     # first: a run cut short by the time budget still has them
        if tier == "thorough":
            yield from self.exhaustive(tier)
        else:
            # quick: the exhaustive product thinned over the listen configurations (every destination spelling against
            # a rotating third of the configurations, both transports, both ports)
            for i, servers in enumerate(LISTEN_CONFIGS):
                ports = sorted({p for s in servers for _, p in s["addrs"]}) or [8080]
                for j, dest in enumerate(DESTS + NONASCII):
                    if (i + j) % 3 and servers not in LISTEN_CONFIGS[:6]: continue
                    for tp in ("tcp", "udp"):
                        for dport in (ports[0], ports[0] + 1):
                            yield self._case(dest, dport, tp, (i + j) % 2, servers)
        yield from self._real_histories(rng, 24 if tier != "thorough" else 250)
        # histories: first an unrelated upstream connection, then the listeners change, then a self-connect to the new one
        k = 0
        for i, a in enumerate(LISTEN_CONFIGS):
            for b in (LISTEN_CONFIGS[(i + 7) % len(LISTEN_CONFIGS)], LISTEN_CONFIGS[(i + 1) % len(LISTEN_CONFIGS)], []):
                pb = sorted({p for s in b for _, p in s["addrs"]}) or [8080]
                pa = sorted({p for s in a for _, p in s["addrs"]}) or [8080]
                for dest in ("localhost", "127.0.0.2", "::ffff:127.0.0.1", "0.0.0.0", "example.com"):
                    k += 1
                    if tier != "thorough" and k % 3: continue
                    tp = "tcp" if k % 2 else "udp"
                    yield {"hist": [self._case("example.com", 443, tp, 1, b), self._case(dest, pa[0], tp, 1, a)]}
                    yield {"hist": [self._case(dest, pb[0], tp, 0, b), self._case(dest, pa[0], tp, 1, a),
                                    self._case(dest, pb[0], tp, 1, b)]}
        while True:
            if rng.chance(0.15):
                steps = []
                servers = rng.pick(LISTEN_CONFIGS)
                for _ in range(rng.randint(2, 5)):
                    if rng.chance(0.5): servers = rng.pick(LISTEN_CONFIGS)
                    ports = sorted({p for s in servers for _, p in s["addrs"]}) or [8080]
                    steps.append(self._case(self._random_dest(rng) if rng.chance(0.5) else rng.pick(DESTS),
                                            rng.pick(ports), rng.pick(["tcp", "udp"]), rng.randint(0, 1), servers))
                yield {"hist": steps}
                continue
            servers = rng.pick(LISTEN_CONFIGS)
            if rng.chance(0.3):
                servers = _servers([(rng.pick(["tcp", "udp", "both"]),
                                     [(rng.pick(LISTEN_HOSTS), rng.pick([8080, 8081, 53])) for _ in range(rng.randint(1, 3))])
                                    for _ in range(rng.randint(1, 3))])
            ports = sorted({p for s in servers for _, p in s["addrs"]}) or [8080]
            dport = rng.pick(ports) if rng.chance(0.8) else rng.pick([80, 443, 8082])
            yield self._case(self._random_dest(rng), dport, rng.pick(["tcp", "udp"]), rng.randint(0, 1), servers)

    # ---------------- implementation ----------------
    def impl(self, case):
        if "flight" in case:
            return self._impl_flight(case)
        if "conn" in case:
            # repeated OpenConnection commands on ONE Server object handled by ONE connection handler (what the DNS layer
            # does per query, what lazy strategies do after a failure); the listener set may change in between
            e = env()
            reuse, steps = None, []
            for a in case["attempts"]:
                sub = dict(case["conn"], ok=a["ok"], servers=a["servers"])
                h, srv, trace = e.run(sub, reuse)
                reuse = (h, srv)
                steps.append(self._obs(e, h, srv, trace))
            return {"steps": steps}
        if "real" in case:
            return self._impl_real(case)
        if "hist" in case:
            # 2-5 upstream connections handled by ONE fresh Proxyserver instance, the listener set changing in between
            e = _Env()
            try:
                return {"steps": [self._impl_step(e, st) for st in case["hist"]]}
            finally:
                e.dispose()
                global _LOG_SINK
                if _ENV is not None: _LOG_SINK = _ENV.errors
        return self._impl_step(env(), case)

    def _impl_real(self, case):
        global _LOG_SINK
        e = _RealEnv()
        steps, listing, last_port, ops, expect = [], [], {}, [], []
        try:
            for st in case["real"]:
                if st["op"] == "modes":
                    listing = e.reconfigure(st["modes"], st.get("server", 1))
                    for i, tp, addrs in listing:
                        if addrs: last_port[i] = addrs[0][1]
                    steps.append({"listing": listing})
                    pairs = [(i, {"tp": tp, "addrs": addrs}) for i, tp, addrs in listing]
                    # what the OS answered for the instances of this reconfiguration (the model uses it for NEW specs only)
                    ops.append(f"R;{1 if st.get('server', 1) else 0};{','.join(str(i) for i in st['modes']) or '-'};{_keyed(pairs)}")
                    expect.append("L;" + _keyed(pairs))
                else:
                    dport = last_port.get(st["spec"], 9)       # the (current or former) port of that spec's listener
                    servers = [{"tp": tp, "addrs": addrs} for _, tp, addrs in listing]
                    sub = {"dest_hex": hx(st["dest"].encode()), "dport": dport, "tp": st["tp"], "ok": st["ok"],
                           "servers": servers}
                    o = self._impl_step(e, sub)
                    o["sub"] = sub
                    steps.append(o)
                    ops.append(f"C;{sub['dest_hex']};{dport};{st['tp']};{st['ok']}")
                    expect.append("T;" + ",".join(o["trace"]))
            self._real_line[json.dumps(case, sort_keys=True)] = "run " + " ".join(ops)
            return {"steps": steps, "expect": " ".join(expect)}
        finally:
            e.close()
            if _ENV is not None: _LOG_SINK = _ENV.errors

    def _impl_flight(self, case):
        global _LOG_SINK
        e = _FlightEnv()
        steps, last_port, expect = [], {}, []
        try:
            for st in case["flight"]:
                op = st["op"]
                if op in ("modes", "begin"):
                    e.begin(st["modes"], st.get("server", 1), st.get("hold"), st.get("phase"))
                elif op == "release":
                    e.release()
                elif op == "partial":
                    i, port, leaked = e.partial(st["modes"])
                    last_port[i] = port
                    steps.append({"partial": [i, port, leaked]})
                if op != "connect":
                    for i, v in e.bound.items():
                        if v["addrs"]: last_port[i] = v["addrs"][0][1]
                    if op != "partial": steps.append({"listening": e.listening()})
                    continue
                spec = st["spec"] if st["spec"] >= 0 else max(last_port, default=0)
                dport = last_port.get(spec, 9)
                # ground truth for the oracle: the sockets the harness has seen bound and not yet closed
                sub = {"dest_hex": hx(st["dest"].encode()), "dport": dport, "tp": st["tp"], "ok": st["ok"],
                       "servers": e.listening()}
                o = self._impl_step(e, sub)
                o["sub"] = sub
                steps.append(o)
                e.events.append(f"C;{sub['dest_hex']};{dport};{st['tp']};{st['ok']}")
                expect.append("T;" + ",".join(o["trace"]))
            self._real_line[json.dumps(case, sort_keys=True)] = "lrun " + " ".join(e.events)
            return {"steps": steps, "expect": " ".join(expect)}
        finally:
            e.close()
            if _ENV is not None: _LOG_SINK = _ENV.errors

    def _impl_step(self, e, case):
        h, srv, trace = e.run(case)
        return self._obs(e, h, srv, trace)

    def _obs(self, e, h, srv, trace):
        err = h.err_after_hook
        if err is None: state = "open"
        elif isinstance(err, str) and err.startswith(DEST_UNKNOWN): state = "blocked"
        elif err == h.err_before: state = "stale"          # an earlier attempt's dial error, left alone by the hook
        else: state = "other:" + str(err)
        return {"state": state, "trace": [TRACE_NAMES.get(t, t) for t in trace], "addon_errors": list(e.errors)[:2],
                "final_error": srv.error}

    # ---------------- property oracle ----------------
    def oracle(self, case, obs):
        # "An upstream connection is never opened to a destination that denotes one of mitmproxy's own listening sockets
        #  for the same transport — its explicit listen address, any loopback address or name when listening on loopback
        #  or all interfaces, or the wildcard address itself; such requests fail with a destination-unknown error instead
        #  of looping."
        if "flight" in case:
            # no dial to a socket that is listening at that moment (sockets the harness has seen bound and not yet closed)
            fails = []
            for i, o in enumerate(obs["steps"]):
                if "sub" in o:
                    fails += [f"step {i + 1} (update in flight / real listeners): {f}" for f in self.oracle(o["sub"], o)]
            return fails
        if "conn" in case:
            # same statement for every attempt: no dial to a socket that is an own listening socket at that attempt
            fails = []
            for i, (a, o) in enumerate(zip(case["attempts"], obs["steps"])):
                sub = dict(case["conn"], ok=a["ok"], servers=a["servers"])
                fails += [f"attempt {i + 1} of {len(case['attempts'])} on one Server object: {f}" for f in self.oracle(sub, o)]
            return fails
        if "real" in case:
            # same statement, judged against the listeners that are really bound at the time of each attempt
            fails = []
            for i, o in enumerate(obs["steps"]):
                if "sub" in o:
                    fails += [f"step {i + 1} (real listeners, after runtime reconfiguration): {f}" for f in self.oracle(o["sub"], o)]
            return fails
        if "hist" in case:
            # whether a call's destination denotes an own socket depends only on the listeners at the time of that call
            fails = []
            for i, (st, o) in enumerate(zip(case["hist"], obs["steps"])):
                fails += [f"call {i + 1} of {len(case['hist'])} on one Proxyserver instance: {f}" for f in self.oracle(st, o)]
            return fails
        fails = []
        if obs["addon_errors"] or obs["state"].startswith("other"):
            fails.append(f"server_connect hook failed: {obs['addon_errors']} {obs['state']}")
        if denotes_own_socket(case):
            dest = unhx(case["dest_hex"]).decode("utf-8", "surrogateescape")
            if "socketOpen" in obs["trace"]:
                fails.append(f"upstream {case['tp']} connection opened to own listening socket {dest!r}:{case['dport']} "
                             f"(servers {case['servers']})")
            elif obs["state"] != "blocked" or not str(obs["final_error"]).startswith(DEST_UNKNOWN):
                fails.append(f"{dest!r}:{case['dport']} denotes an own socket but the error is {obs['final_error']!r}")
            elif "completedKilled" not in obs["trace"]:
                fails.append(f"no error completion for the blocked connection: {obs['trace']}")
        else:
            # a spelling only the resolver understands denotes the same socket as its canonical form
            dest = unhx(case["dest_hex"]).decode("utf-8", "surrogateescape")
            canon = resolver_view(dest)
            if canon is not None and denotes_own_socket(dict(case, dest_hex=hx(canon.encode()))) and "socketOpen" in obs["trace"]:
                fails.append(f"{RESOLVER_TAG} upstream {case['tp']} connection opened to own listening socket "
                             f"{dest!r}:{case['dport']} (the resolver reads it as {canon!r}; servers {case['servers']})")
        return fails

    # ---------------- recorded finding F-C23b ----------------
    def known(self, case, obs, failure):
        import re
        if "real" in case or "flight" in case:
            return None
        if "conn" in case:
            m = re.match(r"attempt (\d+) of \d+ on one Server object: (.*)$", failure, re.S)
            if not m: return None
            i = int(m.group(1)) - 1
            if not (0 <= i < len(case["attempts"])) or i >= len(obs.get("steps", [])): return None
            a = case["attempts"][i]
            return self.known(dict(case["conn"], ok=a["ok"], servers=a["servers"]), obs["steps"][i], m.group(2))
        if "hist" in case:
            m = re.match(r"call (\d+) of \d+ on one Proxyserver instance: (.*)$", failure, re.S)
            if not m: return None
            i = int(m.group(1)) - 1
            if not (0 <= i < len(case["hist"])) or i >= len(obs.get("steps", [])): return None
            return self.known(case["hist"][i], obs["steps"][i], m.group(2))
        # F-C23b: the input is a resolver-only spelling (not localhost, not parseable by ipaddress, but read by
        # getaddrinfo(AI_NUMERICHOST) / IDNA as an own socket), the guard did not fire, and the failure is exactly the
        # resolver clause of the oracle
        if not failure.startswith(RESOLVER_TAG): return None
        if obs.get("state") != "open" or "socketOpen" not in obs.get("trace", []): return None
        if obs.get("addon_errors"): return None
        dest = unhx(case["dest_hex"]).decode("utf-8", "surrogateescape")
        canon = resolver_view(dest)
        if canon is None or denotes_own_socket(case): return None
        if not denotes_own_socket(dict(case, dest_hex=hx(canon.encode()))): return None
        return "F-C23b"

    def known_selftest(self):
        A = [{"tp": "tcp", "addrs": [["127.0.0.1", 8080]]}]
        opened = {"state": "open", "trace": ["hookServerConnect", "socketOpen", "hookServerConnected", "completedOk"],
                  "addon_errors": [], "final_error": None}
        blocked = {"state": "blocked", "trace": ["hookServerConnect", "hookServerConnectError", "completedKilled"],
                   "addon_errors": [], "final_error": DEST_UNKNOWN}
        w = self._case("127.1", 8080, "tcp", 1, A)
        res_fail = self.oracle(w, opened)
        assert len(res_fail) == 1 and res_fail[0].startswith(RESOLVER_TAG), res_fail
        triples = [
            (w, opened, res_fail[0], "F-C23b"),                                            # the witness
            (self._case("2130706433", 8080, "tcp", 1, A), opened, res_fail[0], "F-C23b"),
            (self._case("ｌocalhost", 8080, "tcp", 1, A), opened, res_fail[0], "F-C23b"),
            ({"hist": [self._case("example.com", 443, "tcp", 1, A), w]}, {"steps": [opened, opened]},
             "call 2 of 2 on one Proxyserver instance: " + res_fail[0], "F-C23b"),
            ({"conn": {"dest_hex": w["dest_hex"], "dport": 8080, "tp": "tcp"},
              "attempts": [{"ok": 1, "servers": A}, {"ok": 1, "servers": A}]}, {"steps": [opened, opened]},
             "attempt 2 of 2 on one Server object: " + res_fail[0], "F-C23b"),
            # a re-opened object with a parseable spelling is never excused
            ({"conn": {"dest_hex": hx(b"localhost"), "dport": 8080, "tp": "tcp"},
              "attempts": [{"ok": 1, "servers": A}, {"ok": 1, "servers": A}]}, {"steps": [blocked, opened]},
             "attempt 2 of 2 on one Server object: upstream tcp connection opened to own listening socket 'localhost':8080", None),
            # same input class, a different failure (other clause of the oracle)
            (w, opened, "server_connect hook failed: ['Addon error'] open", None),
            (w, dict(opened, addon_errors=["boom"]), res_fail[0], None),
            # neighbouring inputs just outside the class, same kind of failure text
            (self._case("127.0.0.1", 8080, "tcp", 1, A), opened, res_fail[0], None),     # parseable: the guard must fire
            (self._case("LOCALHOST.", 8080, "tcp", 1, A), opened, res_fail[0], None),
            (self._case("127.1", 8081, "tcp", 1, A), opened, res_fail[0], None),         # other port: denotes nothing
            (self._case("1.2.3", 8080, "tcp", 1, A), opened, res_fail[0], None),         # legacy form of a foreign address
            (self._case("127.0.0.2", 8080, "tcp", 1, A), opened,
             "upstream tcp connection opened to own listening socket '127.0.0.2':8080", None),
            ({"hist": [w, self._case("127.0.0.2", 8080, "tcp", 1, A)]}, {"steps": [opened, opened]},
             "call 2 of 2 on one Proxyserver instance: " + res_fail[0], None),
        ]
        for case, obs, failure, want in triples:
            got = self.known(case, obs, failure)
            assert got == want, f"known() self-test: {case} / {failure[:60]!r}: got {got}, want {want}"
        # the plain clauses stay unexcused for the witness class when the guard does fire
        assert self.oracle(w, blocked) == []

    def setup(self, tier):
        self.known_selftest()

    # ---------------- model tie ----------------
    def model_lines(self, case):
        if "conn" in case:
            c = case["conn"]
            if any(b >= 0x80 for b in unhx(c["dest_hex"])): return None
            steps = []
            for a in case["attempts"]:
                srv = ";".join(_srv_field(s) for s in a["servers"]) or "none"
                steps.append(f"{a['ok']}~{srv}")
            return [f"conn {c['dest_hex']} {c['dport']} {c['tp']} " + " ".join(steps)]
        if "flight" in case:
            line = self._real_line.get(json.dumps(case, sort_keys=True))
            if line is None: raise Skip()
            return [line]
        if "real" in case:
            # the operations carry the OS' answers (ports) observed by impl(); which instances are kept and what is
            # blocked afterwards is predicted by the model
            line = self._real_line.get(json.dumps(case, sort_keys=True))
            if line is None: raise Skip()
            return [line]
        if "hist" in case:
            ls = [self.model_lines(st) for st in case["hist"]]
            if any(l is None for l in ls): return None
            return [x for l in ls for x in l] + ["run " + " ".join(hist_ops(case["hist"])[0])]
        dest = unhx(case["dest_hex"])
        if any(b >= 0x80 for b in dest):
            return None                       # model domain: ASCII host texts
        for s in case["servers"]:
            for h, _ in s["addrs"]:
                if not h.isascii(): return None
        srv = ";".join(s["tp"] + ("/" + ",".join(f"{hx(h.encode())}:{p}" for h, p in s["addrs"]) if s["addrs"] else "")
                       for s in case["servers"]) or "none"
        return [f"sc {case['dest_hex']} {case['dport']} {case['tp']} {case['ok']} {srv}"]

    def model_obs(self, case, replies):
        if "real" in case or "conn" in case or "flight" in case: return replies[0]
        return list(replies) if "hist" in case else replies[0]   # per call: stateless guard; last line: stateful history

    def impl_view(self, case, obs):
        if "conn" in case:
            return " ".join(o["state"] + ";" + ",".join(o["trace"]) for o in obs["steps"])
        if "real" in case or "flight" in case: return obs["expect"]
        if "hist" in case:
            per_call = [self.impl_view(st, o) for st, o in zip(case["hist"], obs["steps"])]
            _, expect_l = hist_ops(case["hist"])
            outs = []
            for l, o in zip(expect_l, obs["steps"]):
                if l is not None: outs.append(l)
                outs.append("T;" + ",".join(o["trace"]))
            return per_call + [" ".join(outs)]
        # state and trace come from the code; the middle field is the independent Python statement of the property,
        # compared with the Lean specification `denotesOwnSocket`
        return f"{obs['state']} {'own' if denotes_own_socket(case) else 'other'} {','.join(obs['trace'])}"

    def classify(self, case, obs):
        if "flight" in case:
            return "flight:" + json.dumps(case, sort_keys=True)
        if "conn" in case:
            return "conn:" + json.dumps(case, sort_keys=True)
        if "real" in case:
            return "real:" + json.dumps(case["real"], sort_keys=True)
        if "hist" in case:
            return ("hist",) + tuple(self.classify(st, o) for st, o in zip(case["hist"], obs["steps"]))
        if not any(s["addrs"] for s in case["servers"]): return None
        return (case["dest_hex"], case["dport"], case["tp"], str(case["servers"]))

    def branches(self, case, obs):
        if "flight" in case:
            out, phase = [], "settled"
            for st, o in zip(case["flight"], obs["steps"]):
                if st["op"] == "begin": phase = "hold-" + st["phase"]
                elif st["op"] in ("release", "modes"): phase = "settled"
                elif st["op"] == "partial": out.append("flight:partial-start-" + ("LEAKED" if o["partial"][2] else "clean"))
                elif "sub" in o:
                    out.append(f"flight:{phase}:{o['state']}:{'own' if denotes_own_socket(o['sub']) else 'other'}")
            return out
        if "conn" in case:
            out = [f"conn:attempts{len(case['attempts'])}", "conn:" + case["conn"]["tp"]]
            prev = None
            for a, o in zip(case["attempts"], obs["steps"]):
                own = denotes_own_socket(dict(case["conn"], ok=a["ok"], servers=a["servers"]))
                out.append(f"conn:{'own' if own else 'other'}-after-{prev or 'fresh'}:{o['state']}")
                prev = "blocked" if o["state"] == "blocked" else ("dialfail" if o["final_error"] else "ok")
            return out
        if "real" in case:
            out = [f"real:len{len(case['real'])}"]
            for o in obs["steps"]:
                if "sub" in o:
                    out.append("real:" + o["state"] + (":own" if denotes_own_socket(o["sub"]) else ":other"))
                else:
                    out.append(f"real:listeners{len(o['listing'])}")
            return out
        if "hist" in case:
            out = [f"hist:len{len(case['hist'])}"]
            for a, b in zip(case["hist"], case["hist"][1:]):
                out.append("hist:listeners-changed" if a["servers"] != b["servers"] else "hist:listeners-same")
            return out + ["state:" + o["state"] for o in obs["steps"]]
        out = ["state:" + obs["state"], "spec:" + ("own" if denotes_own_socket(case) else "other"), "tp:" + case["tp"]]
        modes = {s["tp"] for s in case["servers"]}
        if "both" in modes: out.append("listen:both")
        if "socketOpen" in obs["trace"]: out.append("socket:" + ("ok" if case["ok"] else "refused"))
        return out

    def neighbours(self, case, rng):
        if "flight" in case: return
        if "conn" in case:
            for a in case["attempts"]:
                yield {"conn": case["conn"], "attempts": [a, a]}
                yield {"conn": case["conn"], "attempts": [a, a, a]}
            return
        if "real" in case: return
        if "hist" in case:
            for st in case["hist"]: yield st
            return
        for dest in DESTS:
            for tp in ("tcp", "udp"):
                yield self._case(dest, case["dport"], tp, case["ok"], case["servers"])

    def shrink_candidates(self, case):
        if "flight" in case:
            h = case["flight"]
            for i in range(len(h)):
                if len(h) > 1 and h[i]["op"] == "connect": yield {"flight": h[:i] + h[i + 1:]}
            return
        if "conn" in case:
            h = case["attempts"]
            for i in range(len(h)):
                if len(h) > 1: yield {"conn": case["conn"], "attempts": h[:i] + h[i + 1:]}
            return
        if "real" in case:
            h = case["real"]
            for i in range(len(h)):
                if len(h) > 1: yield {"real": h[:i] + h[i + 1:]}
            return
        if "hist" in case:
            h = case["hist"]
            for i in range(len(h)):
                if len(h) > 1: yield {"hist": h[:i] + h[i + 1:]}
            return
        for i in range(len(case["servers"])):
            c = dict(case); c["servers"] = case["servers"][:i] + case["servers"][i + 1:]; yield c
        for i, s in enumerate(case["servers"]):
            for j in range(len(s["addrs"])):
                s2 = dict(s); s2["addrs"] = s["addrs"][:j] + s["addrs"][j + 1:]
                c = dict(case); c["servers"] = case["servers"][:i] + [s2] + case["servers"][i + 1:]; yield c
