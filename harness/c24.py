"""C24 — upstream credentials are only sent to the upstream proxy or the reverse target.

Anchors: mitmproxy/addons/upstream_auth.py (UpstreamAuth.requestheaders / http_connect_upstream / http_connected),
mitmproxy/proxy/layers/http/_upstream_proxy.py (HttpUpstreamProxy.start_handshake: mitmproxy's own CONNECT to the
upstream proxy), mitmproxy/proxy/layers/http/__init__.py (HttpLayer.get_connection: direct vs. CONNECT routing).

Every case is a history on 1–2 client connections (each with its own proxy mode) driven end to end through the full
layer stack in harness/common/world.py: mode layer (HttpProxy / HttpUpstreamProxy / ReverseProxy / TransparentProxy /
Socks5Proxy) -> NextLayer -> HttpLayer -> (HttpStream, HttpUpstreamProxy tunnel, Http1Client ...), with the REAL
NextLayer, UpstreamAuth and Proxyserver addons answering every hook.  A stub answers each request head arriving on an
upstream connection (200 to a CONNECT, 299 otherwise); a TLS ClientHello (direct or inside mitmproxy's own CONNECT
tunnel) is answered by an in-memory TLS origin whose decrypted input is treated the same way.  Every upstream connection's byte stream is cut into request
heads; each head is classified by where it was written:
    proxy            — on a connection opened to the configured upstream proxy, before any CONNECT was answered on it
    originViaTunnel  — on such a connection after the CONNECT exchange (= travels through the tunnel to the origin)
    reverseTarget    — on a connection to the reverse-mode target
    originDirect     — anything else
and scanned for the configured credential (base64 token anywhere in the head, and any (Proxy-)Authorization field).
"""
import base64, json, os, re, ssl

from common.check import PropertyCheck, Skip, hx, unhx
from common.world import World

from mitmproxy import certs
import mitmproxy.options
from mitmproxy import http as mhttp
from mitmproxy.addons import script
from mitmproxy.addons import clientplayback, mapremote, next_layer, proxyauth, proxyserver, tlsconfig, upstream_auth
from mitmproxy.test import tflow
from common.paths import WORK
from mitmproxy.connection import Client, ConnectionState
from mitmproxy.proxy import context, mode_specs
from mitmproxy.proxy.layers import modes
from mitmproxy.test import taddons

PROXY = ("up.example", 3128)
TARGET = ("target.example", 8000)
MODES = {"regular": "regular", "upstream": "upstream:http://up.example:3128", "reverse": "reverse:http://target.example:8000",
         "transparent": "transparent", "socks5": "socks5"}
TOP = {"regular": modes.HttpProxy, "upstream": modes.HttpUpstreamProxy, "reverse": modes.ReverseProxy,
       "transparent": modes.TransparentProxy, "socks5": modes.Socks5Proxy}
SOCKS_HELLO = b"\x05\x01\x00"
SOCKS_CONNECT = b"\x05\x01\x00\x03\x0eorigin.example\x00\x50"


def is_proxy_mode(mode): return mode in ("regular", "upstream")


def parse_heads(data: bytes):
    out = []
    while True:
        i = data.find(b"\r\n\r\n")
        if i < 0: break
        out.append(data[:i + 4]); data = data[i + 4:]
    return out, data


def parse_statuses(data: bytes):
    out = []
    while data:
        i = data.find(b"\r\n\r\n")
        if i < 0: out.append("partial"); break
        lines = data[:i].split(b"\r\n")
        m = re.fullmatch(rb"HTTP/1\.[01] (\d{3}) .*", lines[0])
        if not m: out.append("garbage"); break
        n = 0
        for l in lines[1:]:
            k, _, v = l.partition(b":")
            if k.lower() == b"content-length": n = int(v.strip())
        out.append(int(m.group(1)))
        data = data[i + 4 + n:]
    return out


CONFDIR = os.path.join(WORK, "c24", "conf")
_SERVER_CTX = None


def ensure_confdir():
    """mitmproxy CA + an origin certificate signed by it, created once (before any worker forks)"""
    os.makedirs(CONFDIR, exist_ok=True)
    pem = os.path.join(CONFDIR, "origin.pem")
    if not os.path.exists(pem):
        from cryptography.hazmat.primitives import serialization
        store = certs.CertStore.from_store(CONFDIR, "mitmproxy", 2048)
        entry = store.get_cert("origin.example", ["*.example"])
        data = entry.privatekey.private_bytes(serialization.Encoding.PEM, serialization.PrivateFormat.TraditionalOpenSSL,
                                              serialization.NoEncryption()) + entry.cert.to_pem()
        tmp = pem + ".%d" % os.getpid()
        with open(tmp, "wb") as f: f.write(data)
        os.replace(tmp, pem)
    return pem


def server_ctx():
    global _SERVER_CTX
    if _SERVER_CTX is None:
        c = ssl.SSLContext(ssl.PROTOCOL_TLS_SERVER)
        c.load_cert_chain(ensure_confdir())
        _SERVER_CTX = c
    return _SERVER_CTX


class TlsPeer:
    """in-memory TLS server standing in for the origin: decrypts what mitmproxy writes, encrypts the stub's answers"""

    def __init__(self):
        self.inc, self.out = ssl.MemoryBIO(), ssl.MemoryBIO()
        self.obj = server_ctx().wrap_bio(self.inc, self.out, server_side=True)
        self.done, self.dead = False, False

    def feed(self, data: bytes):
        plain = b""
        if self.dead: return plain, b""
        self.inc.write(data)
        try:
            if not self.done:
                try:
                    self.obj.do_handshake(); self.done = True
                except ssl.SSLWantReadError:
                    pass
            if self.done:
                try:
                    while True:
                        chunk = self.obj.read(65536)
                        if not chunk: break
                        plain += chunk
                except ssl.SSLWantReadError:
                    pass
        except ssl.SSLError:
            self.dead = True
        return plain, self.out.read()

    def send(self, data: bytes) -> bytes:
        if self.dead or not self.done: return b""
        self.obj.write(data)
        return self.out.read()


class Conn:
    def __init__(self, tctx, cid, mode, prepared=None):
        self.cid, self.mode = cid, mode
        if prepared is not None:         # (layer, context) built by the real clientplayback.ReplayHandler
            top, self.ctx = prepared
            self.client = self.ctx.client
        else:
            spec = mode_specs.ProxyMode.parse(MODES[mode])
            self.client = Client(peername=("192.0.2.%d" % (cid + 1), 40000 + cid), sockname=("127.0.0.1", 8080),
                                 state=ConnectionState.OPEN, proxy_mode=spec, timestamp_start=1.0)
            self.ctx = context.Context(self.client, tctx.options)
            if mode == "transparent":
                self.ctx.server.address = ("origin.example", 80)
            top = TOP[mode](self.ctx)
        self.used = []               # (id of flow.server_conn, parameters) at every `response` hook, in order
        self.nused = 0

        def on_hook(w, h):
            tctx.master.addons.trigger(h)
            if h.name == "response":
                sc = h.flow.server_conn
                self.used.append((sc.id, sc.address, bool(sc.tls), sc.sni, sc.via))

        self.w = World(top, self.ctx, on_hook=on_hook)
        self.w.start()
        self.cpos = 0
        self.labs = {}               # server label -> stream state
        self.writes, self.nrep = [], 0
        self.tunnel = False
        if mode == "socks5" and prepared is None:
            self.w.recv("client", SOCKS_HELLO); self.w.recv("client", SOCKS_CONNECT)
            self.cpos = len(self.w.sent_to("client"))

    def dest_of(self, lab, st, tls):
        addr = self.w.conns[lab].address
        if addr == PROXY: return "originViaTunnel" if (st["tun"] is not None or tls) else "proxy"
        if addr == TARGET and self.mode == "reverse": return "reverseTarget"
        return "originDirect"

    def pump(self):
        """stub for everything upstream: the upstream proxy (answers CONNECT with 200), the origin / reverse target
        (answers 299), and — when a TLS ClientHello arrives, directly or through the tunnel — a TLS-terminating origin"""
        w, progress = self.w, True
        while progress:
            progress = False
            for lab in w.server_labels():
                data = w.sent_to(lab)
                st = self.labs.setdefault(lab, {"raw": 0, "tun": None, "tls": None, "plain": bytearray(), "ppos": 0})
                if st["tls"] is None and len(data) > st["raw"] and data[st["raw"]] == 0x16:
                    st["tls"] = TlsPeer()
                if st["tls"] is not None:
                    if len(data) > st["raw"]:
                        plain, reply = st["tls"].feed(data[st["raw"]:]); st["raw"] = len(data)
                        st["plain"] += plain
                        if reply: w.recv(lab, reply)
                        progress = True
                    i = bytes(st["plain"]).find(b"\r\n\r\n", st["ppos"])
                    if i >= 0:
                        head = bytes(st["plain"][st["ppos"]:i + 4]); st["ppos"] = i + 4
                        self.writes.append((self.dest_of(lab, st, True), head, True))
                        enc = st["tls"].send(b"HTTP/1.1 299 Forwarded\r\nContent-Length: 2\r\n\r\nok")
                        if enc: w.recv(lab, enc)
                        progress = True
                    continue
                i = data.find(b"\r\n\r\n", st["raw"])
                if i >= 0:
                    head = data[st["raw"]:i + 4]
                    self.writes.append((self.dest_of(lab, st, False), head, False))
                    st["raw"] = i + 4
                    if head.startswith(b"CONNECT ") and st["tun"] is None:
                        if w.recv(lab, b"HTTP/1.1 200 OK\r\n\r\n"): st["tun"] = i + 4
                    else:
                        w.recv(lab, b"HTTP/1.1 299 Forwarded\r\nContent-Length: 2\r\n\r\nok")
                    progress = True

    def delta(self):
        """client bytes and upstream request heads (with their place) that became visible since the last step"""
        w = self.w
        cdata = w.sent_to("client"); cnew = cdata[self.cpos:]; self.cpos = len(cdata)
        ws = self.writes[self.nrep:]; self.nrep = len(self.writes)
        return cnew, ws

    def conn_delta(self):
        """the upstream connection(s) that carried the flows completed since the last step, with the order of first use"""
        out = []
        for i in range(self.nused, len(self.used)):
            cid_, addr, tls, sni, via = self.used[i]
            ids = []
            for u in self.used[:i + 1]:
                if u[0] not in ids: ids.append(u[0])
            fresh = all(u[0] != cid_ for u in self.used[:i])
            out.append({"addr": list(addr) if addr else None, "tls": tls, "sni": sni,
                        "via": [via[0], list(via[1])] if via else None, "idx": ids.index(cid_), "fresh": fresh})
        self.nused = len(self.used)
        return out


def default_chain():
    """fresh instances of mitmproxy's default addons, in source order"""
    from mitmproxy import addons as A
    chain = A.default_addons()
    return chain, {type(a).__name__: a for a in chain}


def rewrite_script():
    """a user script that redirects plain-http requests for rws.example to https (in the `request` hook)"""
    p = os.path.join(WORK, "c24", "rewrite_https.py")
    if not os.path.exists(p):
        os.makedirs(os.path.dirname(p), exist_ok=True)
        tmp = p + ".%d" % os.getpid()
        with open(tmp, "w") as f:
            f.write("def request(flow):\n"
                    "    if flow.request.pretty_host == 'rws.example' and flow.request.scheme == 'http':\n"
                    "        flow.request.scheme = 'https'\n"
                    "        flow.request.port = 443\n")
        os.replace(tmp, p)
    return p


def addon_order_lean(ns: str) -> str:
    """the order of mitmproxy.addons.default_addons() (hooks run in this order), read from the source"""
    import ast, inspect, textwrap
    from mitmproxy import addons as A
    tree = ast.parse(textwrap.dedent(inspect.getsource(A.default_addons)))
    names = []
    for node in ast.walk(tree):
        if isinstance(node, ast.Return) and isinstance(node.value, ast.List):
            for el in node.value.elts:
                f = el.func if isinstance(el, ast.Call) else el
                names.append(f.attr if isinstance(f, ast.Attribute) else getattr(f, "id", "?"))
    if not names: raise RuntimeError("default_addons(): no literal list found")
    return (f"/-- class names of mitmproxy.addons.default_addons(), in order (hooks run in this order) -/\n"
            f"def addonOrder : List String := [{', '.join(chr(34) + n + chr(34) for n in names)}]\n")


def quiet_logging():
    """every test master installs a log handler bound to its own (soon closed) event loop; an addon error logged by
    addonmanager.safecall would then raise from a stale handler and abort the hook chain — drop those handlers"""
    import logging
    from mitmproxy.log import MitmLogHandler
    root = logging.getLogger()
    for h in list(root.handlers):
        if isinstance(h, MitmLogHandler): root.removeHandler(h)
    lg = logging.getLogger("mitmproxy")
    if not any(isinstance(h, logging.NullHandler) for h in lg.handlers):
        lg.addHandler(logging.NullHandler()); lg.propagate = False      # safecall's error reports are not observables


class Check(PropertyCheck):
    prop = "C24"
    design_ref = "§5 C24"
    level_text = ("Lean theorems over ALL histories (any number of client connections, any interleaving, every mode and request "
                  "scheme, with and without upstream_auth). On the Dest-level model: creds_only_direct_to_proxy_or_reverse_target, "
                  "no_creds_through_tunnel_or_other_modes, no_creds_without_option, creds_still_sent_to_proxy_and_reverse_target. "
                  "On the (round 3) ROUTING model, which predicts for every request the upstream connection that carries it — "
                  "address, tls, sni, via, CONNECT-first, reuse of an earlier connection — as HttpLayer.get_connection / "
                  "HttpUpstreamProxy.make decide it, and derives 'who reads a write' from those parameters: route_creds_confined / "
                  "route_creds_only_to_proxy_or_reverse_target (trace induction with a per-connection invariant: tunnel phase ⇒ member "
                  "of UpstreamAuth.tunneled; pool connections have CONNECT-first = via ∧ tls; via ⇒ upstream mode), "
                  "route_conn_matches_request (spec of the connection handed out, reuse included), transparent_dest_ignores_host "
                  "(Host vs destination), scheme_change_uses_other_connection; both confinement theorems also for histories in which "
                  "upstream_auth is changed at runtime between any two events (creds_confined_under_option_changes[_from_start], "
                  "route_creds_confined_under_option_changes); (round 4) route_refines_dest / route_refines_dest_from_start: the routing "
                  "model REFINES the Dest-level model over every history (same kinds; same writes read through the predicted "
                  "connection parameters, except CONNECTs the routing model saves by reusing a connection), hence "
                  "route_creds_allowed_via_refinement; transparent_histories_ignore_hosts (Host vs destination over whole "
                  "histories); parse_upstream_auth transcribed with C20_B64's base64/UTF-8 (validSpec_iff, upstream_value_decodes: "
                  "what the proxy receives decodes to exactly the configured credential); (round 5) client replay is modelled and tied "
                  "(replayWrites; replay_creds_confined, replay_no_creds_in_other_modes: a replayed request is routed and "
                  "credentialed by the RUNNING mode, the recorded mode is not an argument); every one of these histories may contain server disconnects (`drop` events: "
                  "the upstream side closes inside a tunnel or between tunnels and is re-established with a new CONNECT), and "
                  "tunneled_for_the_whole_life_of_the_client_connection / server_disconnect_keeps_tunnel state that `tunneled` "
                  "and the tunnel phase belong to the CLIENT connection and survive them. Both models are tied end to end through the full layer "
                  "stack with the real NextLayer, UpstreamAuth, Proxyserver (and TlsConfig) addons: per step the place, kind and "
                  "credential field of every request head written upstream (TLS sessions decrypted by an in-memory origin), the "
                  "client-side outcome, and — predicted, not taken from observation — flow.server_conn's address, tls, sni, via, its "
                  "order of first use and whether it was reused. All cases run through the REAL default addon chain "
                  "(mitmproxy.addons.default_addons(), source order; rewrites by the real MapRemote and by a user script loaded at "
                  "ScriptLoader's place); the assumed order is regenerated into Gen/C24.lean and proved by addon_order_as_assumed.")
    level_note = ("trusted: Lean kernel; hand model tied differentially (validated, not verified). 'Other modes' of the statement "
                  "(wireguard, local redirect, dns, …) have no constructor of their own: UpstreamAuth distinguishes modes only by "
                  "isinstance(…, UpstreamMode / ReverseMode) (decision_depends_only_on_upstream_and_reverse, "
                  "other_modes_get_no_credential), so they are represented by `transparent` in the model; the harness drives "
                  "regular, upstream, reverse, transparent and socks5 (the other mode layers need a tun device / UDP sockets). Client replay runs through the real "
                  "clientplayback.ReplayHandler (every running mode x recorded mode x spelling of the mode name) and is compared "
                  "with the model, except a replay in upstream mode of a flow recorded in another mode (it trips an assertion in "
                  "HttpLayer.Start and writes nothing: oracle only); cases with a refusing ProxyAuth are oracle-only. An addon rewriting http->https between requestheaders and request is driven with the real "
                  "MapRemote addon and modelled as an https request (which is what the repaired UpstreamAuth makes of it). TLS towards the origin IS "
                  "driven for https-scheme requests: an in-memory TLS server (ssl.MemoryBIO, certificate from a CertStore under "
                  ".work/c24, real TlsConfig addon answering tls_start_server) terminates the session that mitmproxy opens "
                  "directly (regular mode) or through its own CONNECT at the upstream proxy (upstream mode), and the decrypted "
                  "request heads are scanned. NOT driven: TLS spoken by the client inside its own CONNECT tunnel (client "
                  "tunnels carry plain HTTP/1.1: CONNECT to :80 and :443 followed by plain requests), https upstream proxies / "
                  "https reverse targets, HTTP/2, request bodies, ALPN (always None here). The Dest-level model emits a CONNECT for every "
                  "https request (fresh origin per https request); repeated https requests to one origin (TLS connection reuse) are "
                  "compared with the routing model only. The two Lean models are each tied to the code and related by the refinement "
                  "theorem route_refines_dest. UpstreamAuth.tunneled is a "
                  "WeakSet: the model never removes entries and assumes client ids are not reused. With HTTP/2 between client and "
                  "mitmproxy a CONNECT stream marks the whole client connection as tunnelled, so later plain-http streams of that "
                  "connection get no credential (fails closed)."
                  " Lenient branches: for client replay a layer exception is not a failure when nothing was written (replaying in "
                  "upstream mode a flow recorded in another mode trips an assertion in HttpLayer.Start); replay cases also vary the "
                  "spelling of the running mode's name (Upstream: / UPSTREAM:); cases with a refusing ProxyAuth demand only that "
                  "nothing is written; when two https requests of one client connection go to the same origin the Dest-level model "
                  "is not compared (TLS connection reuse is the routing model's subject).")
    technique = "Lean 4 proof (trace induction, tunnel-membership invariant) + end-to-end differential correspondence through world.py with the real NextLayer/UpstreamAuth/Proxyserver addons"
    rule = ("history = upstream_auth set/unset x 1-2 client connections with a mode each (regular, upstream, reverse, "
            "transparent, socks5) x <=3 (quick) / <=5 steps per connection interleaved; step = plain absolute/origin-form "
            "request (two origins), CONNECT to :80 or :443 (then plain requests inside), or an absolute-form https-scheme "
            "request (TLS to a fresh origin, decrypted by the in-memory peer); plus upstream-side disconnects (peer FIN on every "
            "upstream connection of a client connection) and runtime changes of upstream_auth between any two steps, map_remote "
            "rewriting http->https, and client replay (every running x recorded mode). Exhaustive small scope first: every mode x auth x every step sequence of length <=3 on one "
            "connection. distinct = distinct case; non-trivial = at least one write reached an upstream connection.")
    budget = {"quick": 1500, "thorough": 40000}
    time_budget = {"quick": 20, "thorough": 500}
    fingerprints = ["mitmproxy.addons.upstream_auth:UpstreamAuth", "mitmproxy.addons.upstream_auth:parse_upstream_auth",
                    "mitmproxy.proxy.layers.http._upstream_proxy:HttpUpstreamProxy.start_handshake",
                    "mitmproxy.proxy.layers.http._upstream_proxy:HttpUpstreamProxy.make",
                    "mitmproxy.proxy.layers.http:HttpLayer.get_connection", "mitmproxy.proxy.layers.http:HttpStream.handle_connect",
                    "mitmproxy.proxy.layers.http:HttpStream.handle_connect_upstream", "mitmproxy.proxy.layers.http:HttpStream.handle_connect_finish",
                    "mitmproxy.proxy.layers.http:HttpStream.make_server_connection",
                    "mitmproxy.proxy.layers.http:HttpStream.state_wait_for_request_headers",
                    "mitmproxy.addons.tlsconfig:TlsConfig.tls_start_server", "mitmproxy.addons.clientplayback:ReplayHandler.__init__",
                    "mitmproxy.addons.mapremote:MapRemote.request", "mitmproxy.addons:default_addons", "mitmproxy.addons.next_layer:NextLayer._next_layer", "mitmproxy.addons.next_layer:NextLayer._setup_explicit_http_proxy"]
    trusted_base = ["harness/common/world.py as a stand-in for proxy/server.py's command interpreter",
                    "CPython ssl / OpenSSL as the in-memory TLS origin that decrypts what mitmproxy writes into TLS sessions",
                    "classification of upstream bytes: a connection opened to the upstream proxy's address carries direct traffic until its CONNECT is answered, tunnelled traffic afterwards"]
    parallel = False

    def translate(self):
        src = ("-- generated by harness/c24.py translate() from the source of mitmproxy.addons.default_addons(); do not edit\n"
               "namespace MitmVerif.Gen.C24\n" + addon_order_lean("C24") + "end MitmVerif.Gen.C24\n")
        return {"MitmVerif/Gen/C24.lean": src}

    def setup(self, tier):
        self.parallel = tier == "thorough"
        server_ctx()          # CA + origin certificate exist before any worker forks

    CRED = "user:s3cret"
    TOKEN = base64.b64encode(CRED.encode())

    # ------------------------------------------------------------------ generator
    STEPS = ["http", "http2", "c80", "c443", "https"]

    CREDS = ["user:s3cret", "u:p:with:colons", "Ünï:pässwörd", "x:"]
    CLIENT_CRED = "cli:pw"

    def mk_case(self, auth, conns, steps, opts=None, cred=None, pauth=None):
        c = {"auth": auth, "conns": [{"mode": m} for m in conns], "steps": steps}
        if opts: c["opts"] = opts
        if cred: c["cred"] = cred
        if pauth: c["pauth"] = pauth          # ProxyAuth also loaded: every client request carries good / bad client credentials
        return c

    def cred_of(self, case): return case.get("cred") or self.CRED

    def token_of(self, case): return base64.b64encode(self.cred_of(case).encode("utf-8"))

    OTHER_CRED = "second:cr3d"

    def tokens_of(self, case):
        """every credential that is configured at some time in this case"""
        return [self.token_of(case), base64.b64encode(self.OTHER_CRED.encode())]

    def exhaustive(self, tier):
        import itertools
        for mode in MODES:
            for auth in (True, False):
                for n in (1, 2, 3):
                    for seq in itertools.product(self.STEPS, repeat=n):
                        yield self.mk_case(auth, [mode], [{"c": 0, "k": k} for k in seq])

    def generate(self, rng, tier):
        if tier == "thorough":
            yield from self.exhaustive(tier)
        else:
            for c in self.exhaustive(tier):
                if len(c["steps"]) <= 2 or rng.chance(0.25): yield c
        maxper = 3 if tier == "quick" else 5
        for run in MODES:                       # client replay: every running mode x every recorded mode x scheme x host
            for rec in MODES:
                for scheme in ("http", "https"):
                    for host in ("origin", "target"):
                        if scheme == "https" and host == "target": continue
                        yield {"op": "replay", "auth": True, "run": run, "rec": rec, "scheme": scheme, "host": host}
                        if rec in ("upstream", "regular") and host == "origin":
                            # equivalent spellings of the running mode (`Upstream:…`, `UPSTREAM:…`)
                            for spell in ("cap", "upper"):
                                yield {"op": "replay", "auth": True, "run": run, "rec": rec, "scheme": scheme, "host": host, "spell": spell}
        while True:
            if rng.chance(0.05):
                alpha = ["u", ":", "\n", "p", "é", "€", "𝄞", " ", "\r", "\x00", "a:b"]
                yield {"op": "upval", "text": "".join(rng.pick(alpha) for _ in range(rng.randint(0, 6)))}
                continue
            if rng.chance(0.04):
                yield {"op": "replay", "auth": rng.chance(0.9), "run": rng.pick(list(MODES)), "rec": rng.pick(list(MODES)),
                       "scheme": "http", "host": rng.pick(["origin", "target"]), "spell": rng.pick([None, "cap", "upper"])}
                continue
            nconn = 2 if rng.chance(0.6) else 1
            conns = [rng.weighted([(5, "upstream"), (2, "regular"), (2, "reverse"), (1, "transparent"), (1, "socks5")]) for _ in range(nconn)]
            pending = []
            for cid in range(nconn):
                q = [{"c": cid, "k": rng.weighted([(5, "http"), (2, "http2"), (3, "c80"), (2, "c443"), (3, "https"), (2, "https2")])} for _ in range(rng.randint(1, maxper))]
                pending.append(q)
            steps = []
            while any(pending):
                steps.append(rng.pick([q for q in pending if q]).pop(0))
            opts = {}
            if rng.chance(0.3): opts["connection_strategy"] = "lazy"
            if rng.chance(0.2): opts["http_connect_send_host_header"] = False
            if rng.chance(0.2): opts["keep_host_header"] = True
            # an addon rewriting http -> https between requestheaders and request (map_remote), explicit-proxy layer only
            seen_connect = set()
            for st in steps:
                if st["k"] in ("c80", "c443"): seen_connect.add(st["c"])
                elif st["k"] == "http" and is_proxy_mode(conns[st["c"]]) and st["c"] not in seen_connect and rng.chance(0.2):
                    st["k"] = rng.pick(["rw", "rws"])
            # the upstream side drops (server FIN / error / idle close) between requests, inside tunnels and between them
            if rng.chance(0.35):
                for _ in range(rng.randint(1, 2)):
                    steps.insert(rng.randint(1, len(steps)), {"c": rng.randrange(nconn), "k": "drop"})
            # upstream_auth changed at runtime (unset -> set, set -> other credential, set -> unset) between any two steps
            if rng.chance(0.3):
                for _ in range(rng.randint(1, 2)):
                    steps.insert(rng.randint(0, len(steps)), {"c": 0, "k": "opt", "auth": rng.pick([True, False, "other"])})
            pauth = rng.weighted([(8, None), (2, "good"), (2, "bad")])
            if pauth and "socks5" in conns: pauth = None       # (the SOCKS5 handshake of this harness does not authenticate)
            yield self.mk_case(rng.chance(0.85), conns, steps, opts, rng.pick(self.CREDS) if rng.chance(0.4) else None, pauth)

    # ------------------------------------------------------------------ implementation runner
    def req_bytes(self, cn, k, idx, pauth=None):
        raw = self.req_bytes0(cn, k, idx)
        if pauth and not cn.tunnel:
            name = b"Proxy-Authorization" if is_proxy_mode(cn.mode) else b"Authorization"
            val = self.CLIENT_CRED if pauth == "good" else "cli:wrong"
            raw = raw[:-2] + name + b": Basic " + base64.b64encode(val.encode()) + b"\r\n\r\n"
        return raw

    def req_bytes0(self, cn, k, idx):
        mode = cn.mode
        if k in ("c80", "c443"):
            t = b"t%d.example:%d" % (idx, 80 if k == "c80" else 443)
            return b"CONNECT " + t + b" HTTP/1.1\r\nHost: " + t + b"\r\n\r\n"
        host = b"other.example" if k == "http2" else (b"s%d.example" % idx if k == "https" else
                                                      b"s999.example" if k == "https2" else
                                                      b"rw.example" if k == "rw" else
                                                      b"rws.example" if k == "rws" else b"origin.example")
        if is_proxy_mode(mode) and not cn.tunnel:
            scheme = b"https" if k in ("https", "https2") else b"http"
            return b"GET " + scheme + b"://" + host + b"/r%d HTTP/1.1\r\nHost: " % idx + host + b"\r\n\r\n"
        return b"GET /r%d HTTP/1.1\r\nHost: " % idx + host + b"\r\n\r\n"

    def scan(self, case, writes):
        toks = self.tokens_of(case)
        ws = []
        for dest, head, tls in writes:
            form = "connect" if head.startswith(b"CONNECT ") else "request"
            fields = [l.partition(b":") for l in head.split(b"\r\n")[1:] if l]
            hit = lambda v: any(t in v for t in toks)
            creds = sorted({k.strip().lower().decode("latin1") for k, _, v in fields if hit(v)})
            other = sorted({k.strip().lower().decode("latin1") for k, _, v in fields
                            if k.strip().lower() in (b"proxy-authorization", b"authorization") and not hit(v)})
            stray = hit(head) and not creds
            ws.append({"dest": dest, "form": form, "tls": tls, "creds": creds, "other_auth": other, "stray": stray})
        return ws

    def impl(self, case):
        if case.get("op") == "upval":
            try: return {"unit": "ok " + hx(upstream_auth.parse_upstream_auth(case["text"]))}
            except Exception as e:
                return {"unit": "err"} if type(e).__name__ == "OptionsError" else {"unit": "exc:" + type(e).__name__}
        # the flows run through the REAL default addon chain, in the order mitmproxy.addons.default_addons() gives it
        chain, by = default_chain()
        ua, pa0, mr, sl = by["UpstreamAuth"], by["ProxyAuth"], by["MapRemote"], by["ScriptLoader"]
        pa = pa0 if case.get("pauth") else None
        steps = [] if case.get("op") == "replay" else case["steps"]
        ensure_confdir()
        with taddons.context(*chain, loadcore=False) as tctx:
            quiet_logging()
            tctx.options.update(confdir=CONFDIR, ssl_insecure=True, http2=False)
            if pa: tctx.configure(pa, proxyauth=self.CLIENT_CRED)
            if any(st["k"] == "rw" for st in steps):
                tctx.configure(mr, map_remote=["|http://rw.example/|https://rw.example/"])
            if any(st["k"] == "rws" for st in steps):
                sl.addons.append(script.Script(rewrite_script(), False))     # a user script, at ScriptLoader's place in the chain
            for k, v in (case.get("opts") or {}).items(): setattr(tctx.options, k, v)
            tctx.configure(ua, upstream_auth=self.cred_of(case) if case["auth"] else None)
            if case.get("op") == "replay":
                return self.run_replay(case, tctx, ua)
            conns = [Conn(tctx, cid, c["mode"]) for cid, c in enumerate(case["conns"])]
            outs = []
            for idx, st in enumerate(steps):
                if st["k"] == "opt":        # upstream_auth changed at runtime
                    v = st["auth"]
                    tctx.configure(ua, upstream_auth=(self.OTHER_CRED if v == "other" else self.cred_of(case) if v else None))
                    outs.append({"client": [], "writes": [], "closed": False, "conns": [], "opt": True})
                    continue
                cn = conns[st["c"]]
                if st["k"] == "drop":       # every upstream connection of this client connection is closed by its peer (FIN)
                    n = 0
                    for lab in list(cn.w.server_labels()):
                        if cn.w.peer_close(lab): n += 1
                    cnew, writes = cn.delta()
                    outs.append({"client": parse_statuses(cnew), "writes": self.scan(case, writes), "dropped": n,
                                 "closed": cn.client not in cn.w.transports, "conns": cn.conn_delta()})
                    continue
                cn.w.recv("client", self.req_bytes(cn, st["k"], idx, case.get("pauth")))
                cn.pump()
                cnew, writes = cn.delta()
                sts = parse_statuses(cnew)
                if st["k"] in ("c80", "c443") and sts == [200]: cn.tunnel = True
                outs.append({"client": sts, "writes": self.scan(case, writes), "closed": cn.client not in cn.w.transports,
                             "conns": cn.conn_delta()})
            return {"steps": outs, "errors": [e[0] + ": " + e[1][:200] for cn in conns for e in cn.w.errors],
                    "tunneled": sorted(cn.cid for cn in conns if cn.client in getattr(ua, "tunneled", ()))}

    def run_replay(self, case, tctx, ua):
        """client replay through the real clientplayback.ReplayHandler: the flow carries the client connection (and proxy
        mode) it was recorded with; the instance is running in mode case['run']"""
        spec = MODES[case["run"]]
        if case.get("spell") == "cap": spec = spec[0].upper() + spec[1:]          # ProxyMode.parse reads the mode name
        elif case.get("spell") == "upper":                                         # case-insensitively
            name, sep, rest = spec.partition(":")
            spec = name.upper() + sep + rest
        tctx.options.mode = [spec]
        host = "target.example" if case["host"] == "target" else "origin.example"
        port = TARGET[1] if case["host"] == "target" else (443 if case["scheme"] == "https" else 80)
        f = tflow.tflow()
        f.request = mhttp.Request.make("GET", f"{case['scheme']}://{host}:{port}/r0")
        f.client_conn.proxy_mode = mode_specs.ProxyMode.parse(MODES[case["rec"]])
        f.is_replay = "request"
        h = clientplayback.ReplayHandler(f, tctx.options)
        cn = Conn(tctx, 0, case["run"], prepared=(h.layer, h.layer.context))
        cn.pump()
        _, writes = cn.delta()
        return {"steps": [{"client": [], "writes": self.scan(case, writes), "closed": False, "conns": []}],
                "errors": [e[0] + ": " + e[1][:200] for e in cn.w.errors], "tunneled": []}

    # ------------------------------------------------------------------ property oracle (needs no model)
    def oracle(self, case, obs):
        if case.get("op") == "upval": return []
        if obs["errors"] and case.get("op") != "replay": return [f"layer raised: {obs['errors'][0]}"]
        fails = []
        if case.get("op") == "replay":
            # (replaying a flow recorded in another mode while running in upstream mode trips an assertion in
            #  HttpLayer.Start — client replay keeps the recorded proxy_mode; nothing is written then, which is all C24 asks)
            # a replayed request is routed by the mode the instance is RUNNING in
            for w in obs["steps"][0]["writes"]:
                if not (w["creds"] or w["stray"]): continue
                ok = case["auth"] and ((case["run"] == "upstream" and w["dest"] == "proxy") or
                                       (case["run"] == "reverse" and w["dest"] == "reverseTarget"))
                if not ok:
                    fails.append(f"replay (running {case['run']}, flow recorded in {case['rec']}): credential written to "
                                 f"{w['dest']} as {w['form']} ({w['creds'] or 'stray bytes'})")
            return fails
        if case.get("pauth") == "bad" and any(o["writes"] for o in obs["steps"]):
            fails.append("a request refused by proxyauth was written upstream")
        in_tunnel = set()
        auth_now = case["auth"]
        for idx, (st, o) in enumerate(zip(case["steps"], obs["steps"])):
            if st["k"] == "opt":
                auth_now = bool(st["auth"]); continue
            cid = st["c"]; mode = case["conns"][cid]["mode"]
            for w in o["writes"]:
                has = bool(w["creds"]) or w["stray"]
                if not has: continue
                if not auth_now:
                    fails.append(f"step {idx}: credential bytes without upstream_auth?! {w}"); continue
                # "sent only to the configured upstream proxy (in CONNECT requests and in plain-HTTP requests forwarded to it
                #  in upstream mode) or to the reverse-proxy target in reverse mode"
                ok = (mode == "upstream" and w["dest"] == "proxy" and (w["form"] == "connect" or cid not in in_tunnel)) or \
                     (mode == "reverse" and w["dest"] == "reverseTarget")
                # "They never appear in requests sent through a tunnel to an origin server, nor in regular, transparent,
                #  SOCKS5 or other modes."
                if not ok:
                    fails.append(f"step {idx}: credential written to {w['dest']} as {w['form']} ({w['creds'] or 'stray bytes'}) "
                                 f"in mode {mode}" + (" inside the client's CONNECT tunnel" if cid in in_tunnel else ""))
            if st["k"] in ("c80", "c443") and o["client"] == [200]: in_tunnel.add(cid)
        return fails

    # ------------------------------------------------------------------ model tie
    @staticmethod
    def host_id(name):
        """abstract host ids of the routing model"""
        if name == "origin.example": return 1
        if name == "other.example": return 2
        if name == "target.example": return 3
        if name == "rw.example": return 4
        if name == "rws.example": return 5
        m = re.fullmatch(r"([st])(\d+)\.example", name)
        return (100 if m.group(1) == "s" else 200) + int(m.group(2))

    def route_events(self, case):
        evs = []
        for idx, st in enumerate(case["steps"]):
            k = st["k"]
            if k == "opt": evs.append("A1" if st["auth"] else "A0")
            elif k == "drop": evs.append(f"{st['c']}/drop")
            elif k in ("c80", "c443"): evs.append(f"{st['c']}/connect/{200 + idx}/{80 if k == 'c80' else 443}")
            else:
                tls = k in ("https", "https2", "rw", "rws")
                host = 2 if k == "http2" else (100 + idx if k == "https" else 1099 if k == "https2" else 4 if k == "rw" else
                                                5 if k == "rws" else 1)
                evs.append(f"{st['c']}/req/{host}/{443 if tls else 80}/{1 if tls else 0}")
        return " ".join(evs)

    def run_events(self, case):
        evs = []
        for st in case["steps"]:
            if st["k"] == "opt": evs.append("A1" if st["auth"] else "A0")
            else: evs.append(f"{st['c']}/{'https' if st['k'] in ('rw', 'rws', 'https2') else st['k']}")
        return " ".join(evs)

    def conn_token(self, c):
        if c["via"] not in (None, ["http", [PROXY[0], PROXY[1]]]): return "?via:" + repr(c["via"])
        return "{%d:%d:%d:%s:%d:%d:%d}" % (self.host_id(c["addr"][0]), c["addr"][1], c["tls"],
                                            self.host_id(c["sni"]) if c["sni"] else "-", 1 if c["via"] else 0, c["idx"], c["fresh"])

    @staticmethod
    def tls_reuse_possible(case):
        """two https requests to one origin on one client connection reuse the TLS connection (no second CONNECT): only the
        routing model knows about reuse, the Dest-level model is not compared then"""
        seen = set()
        for st in case["steps"]:
            if st["k"] in ("https2", "rw", "rws"):
                if (st["c"], st["k"]) in seen: return True
                seen.add((st["c"], st["k"]))
        return False

    def model_lines(self, case):
        if case.get("op") == "upval":
            return ["upval " + (".".join("%x" % ord(c) for c in case["text"]) or "-")]
        if case.get("op") == "replay":
            # (running in upstream mode, a flow recorded in another mode trips an assertion in HttpLayer.Start and writes
            #  nothing: outside the model, oracle only)
            if case["run"] == "upstream" and case["rec"] != "upstream": return None
            return [f"replay {1 if case['auth'] else 0} {case['run']} {1 if case['scheme'] == 'https' else 0} "
                    f"{1 if case['host'] == 'target' else 0}"]
        if case.get("pauth") == "bad": return None     # ProxyAuth refuses everything: oracle only (nothing may be written)
        modes_ = ",".join(c["mode"] for c in case["conns"])
        a = 1 if case["auth"] else 0
        if self.tls_reuse_possible(case):
            return [f"routev {a} {modes_} {self.route_events(case)}"]
        return [f"runv {a} {modes_} {self.run_events(case)}", f"routev {a} {modes_} {self.route_events(case)}"]

    def model_obs(self, case, replies):
        if case.get("op") in ("upval", "replay"): return replies[0]
        if len(replies) == 1: return {"run": "-", "route": replies[0]}
        return {"run": replies[0], "route": replies[1]}

    HDR = {"proxy-authorization": "pa", "authorization": "a"}

    def step_token(self, case, st, o):
        mode = case["conns"][st["c"]]["mode"]
        ws = []
        for w in o["writes"]:
            if w["stray"] or w["other_auth"] or len(w["creds"]) > 1: return f"?write:{w}"
            ws.append(f"{w['dest']}.{w['form']}." + (self.HDR.get(w["creds"][0], "?") if w["creds"] else "none") +
                      (".tls" if w["tls"] else ""))
        body = "[" + "+".join(ws) + "]"
        sts = o["client"]
        if st["k"] == "drop":
            if sts == [] and not o["writes"]: return ("I" if o["closed"] else "N") + body
            return f"?drop:{sts}:{o['closed']}" + body
        if sts == [299] and not o["closed"] and st["k"] not in ("c80", "c443"): return "R" + body
        if sts == [200] and not o["closed"] and st["k"] in ("c80", "c443"): return "T" + body
        if sts == [400] and o["closed"] and st["k"] in ("c80", "c443"): return "E" + body
        if sts == [] and o["closed"]: return "I" + body
        return f"?{st['k']}:{sts}:{o['closed']}" + body

    def impl_view(self, case, obs):
        if case.get("op") == "upval": return obs["unit"]
        if case.get("op") == "replay":
            ws = []
            for w in obs["steps"][0]["writes"]:
                if w["stray"] or w["other_auth"] or len(w["creds"]) > 1: return f"?write:{w}"
                ws.append(f"{w['dest']}.{w['form']}." + (self.HDR.get(w["creds"][0], "?") if w["creds"] else "none") +
                          (".tls" if w["tls"] else ""))
            return "[" + "+".join(ws) + "]" + ("?errors" if obs["errors"] else "")
        pairs = [(st, o) for st, o in zip(case["steps"], obs["steps"]) if st["k"] != "opt"]
        toks = [self.step_token(case, st, o) for st, o in pairs]
        # the routing model additionally predicts the connection that carried the request: address, tls, sni, via, reuse
        rtoks = []
        for t, (st, o) in zip(toks, pairs):
            cs = o["conns"]
            if len(cs) > 1: rtoks.append("?conns:" + repr(cs)); continue
            rtoks.append(t[0] + (self.conn_token(cs[0]) if cs else "") + t[1:])
        run = "-" if self.tls_reuse_possible(case) else \
            " ".join(toks) + " | " + (",".join(map(str, obs["tunneled"])) or "-")
        return {"run": run, "route": " ".join(rtoks)}

    def classify(self, case, obs):
        if case.get("op") == "upval": return json.dumps(case, sort_keys=True)
        if case.get("op") == "replay": return json.dumps(case, sort_keys=True)
        if not any(o["writes"] for o in obs["steps"]): return None
        return json.dumps(case, sort_keys=True)

    def branches(self, case, obs):
        if case.get("op") == "upval": return ["upval:" + obs["unit"][:3]]
        out = ["auth" if case["auth"] else "noauth"] + ["opt:" + k for k in (case.get("opts") or {})]
        if case.get("op") == "replay":
            ws = obs["steps"][0]["writes"]
            if obs["errors"]: out.append("replay:layer-assertion(no write)")
            return out + [f"replay:run={case['run']}:rec={case['rec']}:{case['scheme']}:" +
                          ",".join(f"{w['dest']}.{w['form']}:{'cred' if w['creds'] else 'nocred'}" for w in ws)]
        if case.get("pauth"): out.append("proxyauth:" + case["pauth"])
        if case.get("cred"): out.append("cred:variant")
        for st, o in zip(case["steps"], obs["steps"]):
            if st["k"] == "opt":
                out.append(f"upstream_auth:={st['auth']}"); continue
            if st["k"] == "drop":
                out.append(f"drop:{case['conns'][st['c']]['mode']}:{o.get('dropped', 0)}-closed"); continue
            mode = case["conns"][st["c"]]["mode"]
            for w in o["writes"]:
                out.append(f"{mode}:{w['dest']}.{w['form']}{'.tls' if w['tls'] else ''}:" + ("cred" if w["creds"] else "nocred"))
            if not o["writes"]: out.append(f"{mode}:{st['k']}:nowrite")
        if len(case["conns"]) > 1: out.append("two-clients")
        return out

    def neighbours(self, case, rng):
        if case.get("op") in ("replay", "upval"): return
        for i in range(len(case["steps"])):
            for k in self.STEPS:
                c = json.loads(json.dumps(case)); c["steps"][i]["k"] = k
                yield c
        for m in MODES:
            c = json.loads(json.dumps(case)); c["conns"][0]["mode"] = m
            yield c
