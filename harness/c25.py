"""C25 — DNS wire encoding round-trips and decoding is total (mitmproxy/dns.py, net/dns/domain_names.py)."""
import itertools, json, struct
from common.check import PropertyCheck
import c25_dns as D
from c25_dns import hx, unhx, t2b

from mitmproxy import dns
from mitmproxy.net.dns import domain_names

U16, U32 = 65535, 4294967295
TYPES = [1, 2, 5, 6, 12, 13, 15, 16, 17, 24, 26, 28, 30, 33, 35, 41, 65, 0, 255, 65535]
ASCII_LABELS = ["a", "b", "www", "example", "com", "ORG", "MiXed", "x-y", "_srv", "a" * 63, "0", "xn--bcher-kva", "xn--mnchen-3ya"]
ODD_LABELS = ["xn--BCHER-kva", "XN--bcher-kva", "xn--a", "xn--", "xn--abc-", "a" * 64, "", "xn--zckzah", "xn--9999", "xn--ab-9g2a"]
UNI_LABELS = ["bücher", "münchen", "例え", "ñ", "ß", "BÜCHER", "a。b", "é" * 30, "é" * 70, "‍", "ǆ", "١"]
RAW_LABELS = [b"a", b"www", b"example", b"com", b"EXAMPLE", b"xn--bcher-kva", b"xn--BCHER-kva", b"xn--a", b"a.b", b".", b"\xc3\xa9",
              b"\xff", b"xn--\xff", b"x" * 63, b"xn--mnchen-3ya", b"XN--A", b"a.xn--bcher-kva", b"\xc0\x0c", b"xn--abc-", b"xn--ab-9g2a", b"xn--BcHEr-kVA"]


class Check(PropertyCheck):
    prop = "C25"
    design_ref = "§5 C25"
    level_text = ("Lean theorems about the executable model of domain_names.pack/unpack_from_with_compression (with its "
                  "offset cache and nesting limit)/expand_record_data and DNSMessage.packed/unpack. `roundtrip`: every "
                  "well-formed message (full field ranges, IDNA-canonical names, arbitrary record data that holds no "
                  "compression pointer in a name field of its type) decodes back to itself, for every idna codec - this is the "
                  "PARTIAL form (`roundtrip_partial`) of the clause's full statement `RoundtripAll` (record data arbitrary), "
                  "which fails: `roundtrip_all_counterexample`, F-C25b; "
                  "`roundtrip_ascii` + `canon_of_ascii`: for names made of ASCII labels (the codec's ASCII fast path is "
                  "transcribed in the model) the round trip holds outright, with a codec-free decidable well-formedness "
                  "predicate - only non-ASCII / xn-- labels remain relative to the codec parameter. Totality: "
                  "`unpack_total`, `pointer_chase_measure` (both pointer-chasing loops are well-founded on the number of "
                  "unvisited offsets, no fuel), and for EVERY byte string `pointer_cycle_is_error` / "
                  "`expand_cycle_is_error` (any compression-pointer cycle, with or without labels, reached from an owner/"
                  "question name or from a name inside record data is a parse error; `cache_stays_sound` shows the cache "
                  "invariant holds throughout a decode), plus `pointer_loop_is_error`, `expand_loop_is_error`. "
                  "`cyclic_first_name_is_rejected` (input-level form, no cache hypothesis). Re-encoding: "
                  "`reencode_stable_matched` - for every byte string all of whose records match the layout of their type "
                  "(flag of the instrumented decoder `unpackT`, `unpackT_erases`; `expanded_by_layout_is_plain`) the decoded "
                  "message re-encodes and decodes to itself; `reencode_stable_partial` (same with the guard on the decoded "
                  "data); counter-examples `reencode_stable_counterexample` (F-C25a), `reencode_rejected_counterexample` "
                  "(F-C25c), `roundtrip_fallback_counterexample` (F-C25b) mark the exact boundary: records in the fallback; "
                  "`opaque_types_bytewise`. Tie: the model PREDICTS decode -> re-encode -> decode from the input bytes "
                  "alone (driver op chain) and encode -> decode from a constructed message (op rt); names at arbitrary "
                  "offsets (all pointer graphs on <=2/3 slots), record-data expansion windows, pointer-only cycles inside "
                  "record data of every name-bearing type; the Lean predicates rdataPlain, wellFormedAscii (op wfascii) and the "
                  "matched flag of unpackT (op unpackt) against their Python twins on every message / byte-string case.")
    level_note = ("trusted: Lean kernel; hand-written model tied by the differential run. Python's idna codec is a parameter "
                  "of the model only for labels containing xn-- (decode) and non-ASCII text (encode); no law about it is "
                  "assumed; in the driver it is a table recorded from the real codec per case (a reply that depends on a "
                  "missing entry is reported as idna-miss). The last clause of C25 (re-encoding) is proved for every input whose "
                  "records match their layouts (`reencode_stable_matched`) and for every message the C26 specification decoder "
                  "reads (`spec_readable_reencode_stable`); it FAILS, with proved counter-examples, for records of a name-bearing "
                  "type whose data does not match the type's layout: they keep the heuristic pointer expansion that "
                  "test_dns.py::test_packing pins (findings F-C25a, F-C25b, F-C25c). "
                  "DNSMessage.packed does not compress, so there is no theorem about pointers written by the packer; what a "
                  "compressing sender may write and how the decoder reads it is C26 (`compressed_name_read`). "
                  "Defects repaired by fix: commits in /repo are listed in known/C25.json.")
    technique = "Lean 4 proof (well-founded pointer chasing, parse-of-serialise induction) + differential model-vs-code correspondence"
    rule = ("msg cases: DNSMessage objects over full field ranges (incl. out-of-range values) with names from ASCII/ACE/"
            "Unicode/odd label pools and record data from {type-appropriate, random, >=0xC0 dense}; bytes cases: messages "
            "from an independent compressing encoder, single-byte mutations/truncations/trailing bytes, pointer graphs "
            "(self/mutual loops, forward pointers, chains around the nesting limit), raw random; name cases: all pointer "
            "assignments over <=3 (quick) / 4 (thorough) name slots; expand cases: record data expansion at random "
            "windows. distinct = distinct case; non-trivial = not an empty buffer.")
    budget = {"quick": 9000, "thorough": 300000}
    time_budget = {"quick": 20, "thorough": 500}
    fingerprints = ["mitmproxy.net.dns.domain_names:_unpack_label_into", "mitmproxy.net.dns.domain_names:unpack_from_with_compression",
                    "mitmproxy.net.dns.domain_names:pack", "mitmproxy.net.dns.domain_names:_expand_name",
                    "mitmproxy.net.dns.domain_names:_expand_name_field", "mitmproxy.net.dns.domain_names:expand_record_data",
                    "mitmproxy.net.dns.domain_names:record_data_can_have_compression",
                    "mitmproxy.dns:DNSMessage.unpack", "mitmproxy.dns:DNSMessage.unpack_from", "mitmproxy.dns:DNSMessage.packed"]
    trusted_base = ["CPython 3.12.1 `idna`/`punycode` codecs: a parameter of the model, instantiated per case by a table recorded from the real codec",
                    "struct.pack/unpack_from big-endian integer layouts H, I, B"]
    parallel = False
    case_timeout = 3               # decoding a <= 64 KiB message takes milliseconds

    def on_timeout(self, case):
        # "Decoding arbitrary bytes either produces a message or fails with a parse error, always terminating,
        #  including on compression-pointer loops"
        self._timeouts = getattr(self, "_timeouts", 0) + 1
        what = {"bytes": "DNSMessage.unpack", "name": "unpack_from_with_compression", "expand": "expand_record_data",
                "plain": "expand_record_data", "msg": "packed/unpack of a constructed message"}[case["op"]]
        return [f"termination: {what} did not return within {self.case_timeout}s (pointer loop?)"]

    def shrink_candidates(self, case):
        # a hang is reported as it is: shrinking it would cost case_timeout per candidate
        if getattr(self, "_timeouts", 0): return iter(())
        return super().shrink_candidates(case)

    # ------------------------------------------------------------------ translate
    def translate(self):
        lay = D.code_layout()
        fld = lambda f: ".name" if f == D.NAME else ".cstr" if f == D.CSTR else f".fixed {f}"
        rows = ",\n".join(f"  ({t}, [{', '.join(fld(f) for f in fs)}])" for t, fs in sorted(lay.items()))
        src = ("-- generated by harness/c25.py translate() from mitmproxy.net.dns.domain_names._RDATA_LAYOUT; do not edit\n"
               "namespace MitmVerif.C25\n\n"
               "/-- one leading field of a record type's RDATA: `fixed n` opaque bytes, a `<character-string>`, or a domain name -/\n"
               "inductive Field where\n  | fixed (n : Nat)\n  | cstr\n  | name\n  deriving DecidableEq, Repr\n\n"
               f"def layoutTable : List (Nat × List Field) := [\n{rows}\n]\n\nend MitmVerif.C25\n")
        return {"MitmVerif/Gen/C25.lean": src}

    def setup(self, tier):
        # the oracle's notion of "record data in uncompressed form" comes from the RFC table in c25_dns, never from the
        # tree under test (a tree whose _RDATA_LAYOUT differs must not move the oracle along with it)
        self.layout = D.rfc_layout()
        self._last = None
        self.known_selftest()

    # ------------------------------------------------------------------ generators
    def _label(self, rng, clean=False):
        r = rng.randint(0, 99)
        if clean:
            if r < 70: return rng.pick(ASCII_LABELS)
            if r < 85: return rng.pick(UNI_LABELS[:4])
            return "".join(rng.pick("abcXYZ019-") for _ in range(rng.randint(1, 12)))
        if r < 60: return rng.pick(ASCII_LABELS)
        if r < 75: return rng.pick(UNI_LABELS)
        if r < 88: return rng.pick(ODD_LABELS)
        return "".join(rng.pick("abcXYZ019-") for _ in range(rng.randint(1, 12)))

    def _name(self, rng, clean=False):
        if rng.chance(0.08): return ""
        n = ".".join(self._label(rng, clean) for _ in range(rng.randint(1, 4)))
        if clean: return n
        if rng.chance(0.04): n += "."
        if rng.chance(0.03): n = "." + n
        return n

    def _plain_labels(self, rng, k=None):
        return [rng.pick(RAW_LABELS[:5] + [b"mail", b"ns1", b"Host"]) for _ in range(rng.randint(0, 3) if k is None else k)]

    def _rdata(self, rng, ty):
        r = rng.randint(0, 99)
        if r < 45:      # type-appropriate, uncompressed
            nm = lambda: D.wire_name(self._plain_labels(rng))
            lay = D.RFC_LAYOUT.get(ty)
            if lay is not None:
                out = b""
                for f in lay:
                    if f == "N": out += nm()
                    elif f == "S":
                        s = bytes(rng.getrandbits(8) for _ in range(rng.randint(0, 5))); out += bytes([len(s)]) + s
                    else: out += bytes(rng.getrandbits(8) for _ in range(D._FIXED[f]))
                if ty == 6: out += bytes(rng.getrandbits(8) for _ in range(20))
                elif rng.chance(0.3): out += bytes(rng.getrandbits(8) for _ in range(rng.randint(1, 6)))
                return out
            if ty == 1: return bytes(rng.getrandbits(8) for _ in range(4))
            if ty == 28: return bytes(rng.getrandbits(8) for _ in range(16))
            s = bytes(rng.getrandbits(8) for _ in range(rng.randint(0, 8)))
            return bytes([len(s)]) + s
        if r < 65:      # bytes >= 0xC0 dense (pointer look-alikes)
            return bytes(rng.pick([0xC0, 0x0C, 0xC1, 0xFF, 0x00, 0x02, 0x3f, 0x40, rng.getrandbits(8)]) for _ in range(rng.randint(0, 10)))
        if r < 70: return b""
        return bytes(rng.getrandbits(8) for _ in range(rng.randint(1, 24)))

    def _num(self, rng, top, clean=False):
        r = rng.randint(0, 99)
        if r < 70: return rng.randint(0, top)
        if r < 90 or clean: return rng.pick([0, 1, top, top - 1, top // 2 + 1])
        return top + rng.pick([1, 2, 1000])   # out of range: encoding must fail

    def _msg_case(self, rng):
        clean = rng.chance(0.7)          # every field in range, names from the canonical pools, record data arbitrary
        flag = lambda: rng.randint(0, 1)
        num = lambda top: self._num(rng, top, clean)

        def rr():
            ty = rng.pick(TYPES) if rng.chance(0.85) else num(U16)
            return [hx(t2b(self._name(rng, clean))), ty, num(U16) if rng.chance(0.3) else 1, num(U32), hx(self._rdata(rng, ty))]
        sec = lambda p: [rr() for _ in range(rng.pick(p))]
        return {"op": "msg",
                "hdr": [num(U16), flag(), num(15), flag(), flag(), flag(), flag(), num(7), num(15)],
                "q": [[hx(t2b(self._name(rng, clean))), rng.pick(TYPES), num(U16) if rng.chance(0.3) else 1] for _ in range(rng.pick([0, 1, 1, 1, 2]))],
                "an": sec([0, 1, 1, 2, 3]), "ns": sec([0, 0, 0, 1]), "ar": sec([0, 0, 1])}

    def _wire_labels(self, rng):
        pool = RAW_LABELS if rng.chance(0.35) else RAW_LABELS[:5]
        return [rng.pick(pool) for _ in range(rng.randint(0, 4))]

    def _wire_msg(self, rng):
        base = self._wire_labels(rng)

        def nm():
            r = rng.randint(0, 9)
            if r < 5: return list(base)
            if r < 8: return [rng.pick(RAW_LABELS[:8])] + list(base)
            return self._wire_labels(rng)

        def rr():
            ty = rng.pick(TYPES)
            lay = D.RFC_LAYOUT.get(ty)
            fields = []
            if lay is not None and rng.chance(0.85):
                for f in lay:
                    if f == "N": fields.append(("n", nm()))
                    elif f == "S":
                        s = bytes(rng.getrandbits(8) for _ in range(rng.randint(0, 4))); fields.append(("b", bytes([len(s)]) + s))
                    else: fields.append(("b", bytes(rng.pick([0xC0, 0x0C, rng.getrandbits(8)]) for _ in range(D._FIXED[f]))))
                if ty == 6: fields.append(("b", bytes(rng.pick([0xC0, 0x0C, rng.getrandbits(8)]) for _ in range(20))))
            else:
                fields.append(("b", self._rdata(rng, ty)))
            return (nm(), ty, rng.pick([1, 1, 3, 254, 255]), rng.randint(0, U32), fields)
        return {"id": rng.randint(0, U16), "flags": rng.randint(0, U16),
                "q": [(nm(), rng.pick(TYPES), 1) for _ in range(rng.pick([0, 1, 1, 1, 2]))],
                "an": [rr() for _ in range(rng.pick([0, 1, 1, 2, 3]))], "ns": [rr() for _ in range(rng.pick([0, 0, 1]))],
                "ar": [rr() for _ in range(rng.pick([0, 0, 1]))]}

    def _slots(self, k, choice):
        """k name slots after a 12-byte header claiming k questions; choice[i] = (has_label, target) with
        target None (terminator) | j < k (pointer to slot j) | 100 + n (pointer to absolute offset n);
        returns (buf, slot offsets)"""
        sizes = [(2 if c[0] else 0) + (1 if c[1] is None else 2) + 4 for c in choice]
        offs = [12 + sum(sizes[:i]) for i in range(k)]
        body = b""
        for (lab, tgt) in choice:
            end = b"\x00" if tgt is None else struct.pack("!H", 0xC000 | (offs[tgt] if tgt < k else tgt - 100))
            body += (b"\x01a" if lab else b"") + end + b"\x00\x01\x00\x01"
        return struct.pack("!HHHHHH", 1, 0x0100, k, 0, 0, 0) + body, offs

    def _graph_cases(self, k):
        opts = [(lab, tgt) for lab in (0, 1) for tgt in [None] + list(range(k))]
        for choice in itertools.product(opts, repeat=k):
            buf, offs = self._slots(k, choice)
            yield {"op": "bytes", "buf_hex": hx(buf)}
            for o in offs:
                yield {"op": "name", "buf_hex": hx(buf), "off": o}

    def _rdata_loops(self, ty, shape, lead=None):
        """a message whose record of type `ty` has, where its layout expects a name, a compression pointer into a cycle
        made of pointers only (shape 0: self-pointer, 1: two pointers at each other, 2: label + pointer to a
        self-pointer in the trailing record, 3: pointer to a 3-cycle in another record, 4: label + pointer back to the label)"""
        lay = D.RFC_LAYOUT.get(ty, "")
        pre = b""
        for f in lay:
            if f == "N": break
            pre += (b"\x01x" if f == "S" else bytes(D._FIXED[f]))
        if lead is not None: pre = lead
        hdr = struct.pack("!HHHHHH", 0x1234, 0x8180, 1, 1, 0, 1)
        q = b"\x06google\x03com\x00" + struct.pack("!HH", ty if ty < 65536 else 1, 1)
        at = len(hdr) + len(q) + 2 + 10 + len(pre)          # offset of the name field inside the record data
        ptr = lambda o: struct.pack("!H", 0xC000 | o)
        def finish(rd, extra=b""):
            rr = b"\xc0\x0c" + struct.pack("!HHIH", ty, 1, 300, len(rd)) + rd
            ar = b"\x00" + struct.pack("!HHIH", 10, 1, 0, len(extra)) + extra      # NULL record holding the cycle
            return hdr + q + rr + ar
        if shape == 0: return finish(pre + ptr(at))
        if shape == 1: return finish(pre + ptr(at + 2) + ptr(at) + bytes(20))
        if shape == 2:
            rd = pre + b"\x03www" + ptr(0)
            far = len(hdr) + len(q) + 12 + len(rd) + 11
            return finish(pre + b"\x03www" + ptr(far), ptr(far))
        if shape == 3:
            rd = pre + ptr(0)
            far = len(hdr) + len(q) + 12 + len(rd) + 11
            return finish(pre + ptr(far), ptr(far + 2) + ptr(far + 4) + ptr(far))
        return finish(pre + b"\x03www" + ptr(at))

    def _chain(self, n, end=b"\x00"):
        """question name = chain of n pointers, stored in the data of a NULL record"""
        start = 12 + 2 + 4 + 1 + 10
        chain = b"".join(struct.pack("!H", 0xC000 | (start + 2 * (i + 1))) for i in range(n)) + end
        return (struct.pack("!HHHHHH", 1, 0x0100, 1, 0, 0, 1) + struct.pack("!H", 0xC000 | start) + b"\x00\x01\x00\x01"
                + b"\x00" + struct.pack("!HHIH", 10, 1, 0, len(chain)) + chain)

    def generate(self, rng, tier):
        for c in self._graph_cases(2): yield c
        for n in (0, 1, 5, 125, 126, 127, 128, 129, 200):
            yield {"op": "bytes", "buf_hex": hx(self._chain(n))}
            yield {"op": "bytes", "buf_hex": hx(self._chain(n, b"\x03abc\x00"))}
        for ty in sorted(D.RFC_LAYOUT) + [16, 1]:        # pointer-only cycles where the record's layout has a name
            for shape in range(5):
                yield {"op": "bytes", "buf_hex": hx(self._rdata_loops(ty, shape))}
        for shape in range(5):                            # ... and in the malformed-layout fallback scan
            yield {"op": "bytes", "buf_hex": hx(self._rdata_loops(33, shape, lead=b"\x00"))}
            yield {"op": "bytes", "buf_hex": hx(self._rdata_loops(2, shape, lead=b"\x40"))}
        if tier == "thorough":
            for c in self._graph_cases(3): yield c
        while True:
            r = rng.randint(0, 99)
            if r < 30:
                yield self._msg_case(rng)
            elif r < 55:
                yield {"op": "bytes", "buf_hex": hx(D.build_wire(self._wire_msg(rng), compress=rng.chance(0.85)))}
            elif r < 75:     # mutations of a valid message
                b = bytearray(D.build_wire(self._wire_msg(rng)))
                m = rng.randint(0, 5)
                if m == 0 and b: b[rng.randint(0, len(b) - 1)] = rng.getrandbits(8)
                elif m == 1 and b: b[rng.randint(0, len(b) - 1)] = rng.pick([0xC0, 0xC1, 0x40, 0x80, 0xFF, 0x00])
                elif m == 2: b = b[:rng.randint(0, len(b))]
                elif m == 3: b += bytes(rng.getrandbits(8) for _ in range(rng.randint(1, 4)))
                elif m == 4 and len(b) >= 12: b[4 + 2 * rng.randint(0, 3) + 1] = rng.randint(0, 4)
                elif len(b) > 13:
                    i = rng.randint(12, len(b) - 2); b[i] = 0xC0; b[i + 1] = rng.randint(0, min(255, len(b) + 2))
                yield {"op": "bytes", "buf_hex": hx(bytes(b))}
            elif r < 78:     # pointer cycles inside record data (random type, shape, leading bytes)
                ty = rng.pick(sorted(D.RFC_LAYOUT) + TYPES)
                lead = None if rng.chance(0.6) else bytes(rng.pick([0, 1, 0x40, 0xC0, rng.getrandbits(8)]) for _ in range(rng.randint(0, 7)))
                b = self._rdata_loops(ty, rng.randint(0, 4), lead)
                if rng.chance(0.3): yield {"op": "expand", "buf_hex": hx(b), "off": 12 + 16 + 12, "len": rng.randint(2, max(2, len(b) - 40 - 11)), "ty": ty}
                else: yield {"op": "bytes", "buf_hex": hx(b)}
            elif r < 83:     # pointer graphs with arbitrary targets
                k = rng.randint(1, 4)
                choice = [(rng.randint(0, 1), rng.pick([None] + list(range(k)) + [100 + rng.randint(0, 60)])) for _ in range(k)]
                buf, offs = self._slots(k, choice)
                if rng.chance(0.5): yield {"op": "bytes", "buf_hex": hx(buf)}
                else: yield {"op": "name", "buf_hex": hx(buf), "off": rng.pick(offs + [rng.randint(0, len(buf) + 2)])}
            elif r < 92:     # record data expansion at a random window
                b = D.build_wire(self._wire_msg(rng)) if rng.chance(0.7) else bytes(rng.pick([0xC0, 0x0C, 0x01, 0x61, 0x00, rng.getrandbits(8)]) for _ in range(rng.randint(0, 40)))
                off = rng.randint(0, len(b)); ln = rng.randint(0, len(b) - off)
                yield {"op": "expand", "buf_hex": hx(b), "off": off, "len": ln, "ty": rng.pick(TYPES)}
            elif r < 95:     # the well-formedness predicate on record data (Lean rdataPlain vs its Python twin)
                ty = rng.pick(TYPES)
                yield {"op": "plain", "ty": ty, "data_hex": hx(self._rdata(rng, ty)), "ctx_hex": hx(D.build_wire(self._wire_msg(rng)))}
            else:            # raw
                n = rng.randint(0, 40)
                b = bytes(rng.getrandbits(8) for _ in range(n))
                if rng.chance(0.7): b = struct.pack("!HHHHHH", rng.getrandbits(16), rng.getrandbits(16), rng.randint(0, 2), rng.randint(0, 2), 0, rng.randint(0, 1)) + b
                yield {"op": "bytes", "buf_hex": hx(b)}

    # ------------------------------------------------------------------ implementation
    _where = None      # (section, index) named by the last struct.error, e.g. ("answer", 0)

    @classmethod
    def _unpack(cls, buf):
        cls._where = None
        try:
            return dns.DNSMessage.unpack(buf), None
        except struct.error as e:
            import re as _re
            m = _re.match(r"(question|answer|authority|additional) #(\d+):", str(e))
            cls._where = (m.group(1), int(m.group(2))) if m else None
            return None, "err"
        except Exception as e:                      # anything but a parse error is a violation by itself
            return None, "exc:" + type(e).__name__

    @staticmethod
    def _packed(m):
        try:
            return m.packed, None
        except (ValueError, struct.error):
            return None, "err"
        except Exception as e:
            return None, "exc:" + type(e).__name__

    def impl(self, case):
        op = case["op"]
        if op == "msg":
            m = D.build_msg(case)
            p, e = self._packed(m)
            obs = {"msg": D.render_msg(m), "packed": e or hx(p)}
            if p is not None:
                m2, e2 = self._unpack(p)
                obs["back"] = e2 or "ok " + D.render_msg(m2)
        elif op == "bytes":
            m, e = self._unpack(unhx(case["buf_hex"]))
            obs = {"r": e or "ok " + D.render_msg(m)}
            if m is not None:
                p, e = self._packed(m)
                obs["packed"] = e or hx(p)
                if p is not None:
                    m2, e2 = self._unpack(p)
                    obs["back"] = e2 or "ok " + D.render_msg(m2)
                    if e2 == "err" and self._where: obs["back_where"] = list(self._where)
        elif op == "name":
            try:
                t, n = domain_names.unpack_from_with_compression(unhx(case["buf_hex"]), case["off"], domain_names.cache())
                obs = {"r": f"ok {hx(t2b(t))} {n}"}
            except struct.error:
                obs = {"r": "err"}
            except Exception as e:
                obs = {"r": "exc:" + type(e).__name__}
        elif op == "plain":
            data, ctx = unhx(case["data_hex"]), unhx(case["ctx_hex"])
            plain = D.rdata_plain(D.code_layout(), case["ty"], data)   # twin of the Lean predicate over the generated table
            buf = ctx + data + b"\xc0\x0c"
            try:
                d = domain_names.expand_record_data(buf, len(ctx), len(ctx) + len(data), case["ty"]) \
                    if domain_names.record_data_can_have_compression(case["ty"]) else data
                same = "same" if d == data else "changed"
            except struct.error:
                same = "err"
            obs = {"r": "1" if plain else "0", "in_context": same}
        else:
            try:
                d = domain_names.expand_record_data(unhx(case["buf_hex"]), case["off"], case["off"] + case["len"], case["ty"]) \
                    if domain_names.record_data_can_have_compression(case["ty"]) else unhx(case["buf_hex"])[case["off"]:case["off"] + case["len"]]
                obs = {"r": "ok " + hx(d)}
            except struct.error:
                obs = {"r": "err"}
            except Exception as e:
                obs = {"r": "exc:" + type(e).__name__}
        self._last = (json.dumps(case, sort_keys=True), obs)
        return obs

    # ------------------------------------------------------------------ the property
    def _well_formed(self, case):
        h = case["hdr"]
        if not (h[0] <= U16 and h[2] <= 15 and h[7] <= 7 and h[8] <= 15): return False
        for n, t, cl in case["q"]:
            if not (t <= U16 and cl <= U16 and D.canonical_name(D.b2t(unhx(n)))): return False
        for n, t, cl, ttl, d in case["an"] + case["ns"] + case["ar"]:
            if not (t <= U16 and cl <= U16 and ttl <= U32 and D.canonical_name(D.b2t(unhx(n)))): return False
            # the only record data the property cannot ask to survive: a compression pointer in a name field (such data is
            # not in uncompressed form; expanding it is the decoder's job). Data that merely does not match the layout of
            # its type is well-formed "arbitrary record data".
            if D.rdata_class(self.layout, t, unhx(d)) == "ptr": return False
        return True

    def _wf_ascii(self, case):
        """Python twin of Model/C25.lean `wellFormedAscii` (no idna codec involved; record data by the code's layout table,
        as the Lean predicate uses the generated table)"""
        def ascii_name(h):
            t = unhx(h)
            if not t: return True
            return all(0 < len(p) < 64 and all(c < 128 for c in p) and b"xn--" not in p for p in t.split(b"."))
        h = case["hdr"]
        lay = D.code_layout()
        rrs = case["an"] + case["ns"] + case["ar"]
        return (h[0] <= U16 and h[2] <= 15 and h[7] <= 7 and h[8] <= 15
                and all(len(case[k]) <= U16 for k in ("q", "an", "ns", "ar"))
                and all(ascii_name(n) and t <= U16 and cl <= U16 for n, t, cl in case["q"])
                and all(ascii_name(n) and t <= U16 and cl <= U16 and ttl <= U32 and len(unhx(d)) <= U16 and D.rdata_plain(lay, t, unhx(d))
                        for n, t, cl, ttl, d in rrs))

    def oracle(self, case, obs):
        fails = []
        for k in ("r", "packed", "back"):
            if str(obs.get(k, "")).startswith("exc:"):
                # "Decoding arbitrary bytes either produces a message or fails with a parse error"
                fails.append(f"{k}: raised {obs[k][4:]} (neither a message nor a parse/encode error)")
        if fails: return fails
        if case["op"] == "msg":
            # "Every well-formed DNS message ... encodes to bytes that decode to the same message"
            if self._well_formed(case):
                if obs["packed"] == "err": fails.append("roundtrip: well-formed message does not encode")
                elif obs.get("back") != "ok " + obs["msg"]: fails.append(f"roundtrip: decodes to {obs.get('back')}")
        elif case["op"] == "plain":
            # part of "well-formed message ... decodes to the same message": record data without a compression pointer in
            # a name field of its type is left alone in whatever message it is placed
            if obs["r"] == "1" and obs["in_context"] != "same": fails.append(f"plain record data {obs['in_context']} by expansion")
        elif case["op"] == "bytes" and obs["r"] != "err":
            # "a decoded message re-encodes to bytes that decode to the same message again"
            if obs["packed"] == "err": fails.append("reencode: decoded message does not encode")
            elif obs.get("back") != obs["r"]: fails.append(f"reencode: decodes to {obs.get('back')}")
        return fails

    @staticmethod
    def _parse_rendered(rendered):
        """'hdr qs an ns ar' -> (hdr, qs, [[(name, type, class, ttl, data)]])"""
        hdr, qs, *secs = rendered.split(" ")
        out = []
        for sec in secs:
            out.append([] if sec == "-" else [tuple(r.split(":")) for r in sec.split(";")])
        return hdr, qs, out

    def _only_fallback_data_differs(self, a, b, in_class):
        """the two renderings are the same message except for the data of records for which in_class(index, type, data of a)
        holds — and at least one such record differs"""
        ha, qa, sa = self._parse_rendered(a); hb, qb, sb = self._parse_rendered(b)
        if (ha, qa) != (hb, qb) or [len(x) for x in sa] != [len(x) for x in sb]: return False
        differs, i = False, 0
        for xa, xb in zip(sa, sb):
            for ra, rb in zip(xa, xb):
                if ra[:4] != rb[:4]: return False
                if ra[4] != rb[4]:
                    if not in_class(i, int(ra[1]), unhx(ra[4])): return False
                    differs = True
                i += 1
        return differs

    def known(self, case, obs, failure):
        """F-C25a: bytes case, failure 'reencode: decodes to ok ...', and first and second decode are the same message
                   except for the data of records in the fallback class (data not matching the layout of its type)
           F-C25b: msg case, failure 'roundtrip: decodes to ok ...', and constructed and decoded message are the same
                   except for the data of records in the fallback class
           F-C25c: bytes case, failure 'reencode: decodes to err', and the parse error of the second decode is located at a
                   record whose data in the input did not match the layout of its type"""
        if not isinstance(obs, dict): return None
        if case["op"] == "bytes" and failure.startswith("reencode: decodes to ok ") and str(obs.get("r", "")).startswith("ok ") \
                and str(obs.get("back", "")).startswith("ok "):
            raw = D.locate_records(unhx(case["buf_hex"]))      # the records as they stand in the INPUT
            if raw is not None:
                in_class = lambda i, ty, _d: i < len(raw) and raw[i][0] == ty and D.layout_mismatch(self.layout, ty, raw[i][1])
                if self._only_fallback_data_differs(obs["r"][3:], obs["back"][3:], in_class): return "F-C25a"
        if case["op"] == "bytes" and failure == "reencode: decodes to err" and obs.get("back") == "err" and obs.get("back_where") \
                and str(obs.get("r", "")).startswith("ok "):
            # F-C25c: the second decode fails AT a record whose data in the input did not match the layout of its type
            raw = D.locate_records(unhx(case["buf_hex"]))
            _, _, secs = self._parse_rendered(obs["r"][3:])
            sec, idx = obs["back_where"]
            order = ["answer", "authority", "additional"]
            if raw is not None and sec in order:
                i = sum(len(secs[k]) for k in range(order.index(sec))) + idx
                if i < len(raw) and idx < len(secs[order.index(sec)]) and int(secs[order.index(sec)][idx][1]) == raw[i][0] \
                        and D.layout_mismatch(self.layout, raw[i][0], raw[i][1]):
                    return "F-C25c"
        if case["op"] == "msg" and failure.startswith("roundtrip: decodes to ok ") and str(obs.get("back", "")).startswith("ok "):
            in_class = lambda i, ty, d: D.rdata_class(self.layout, ty, d) == "fallback"
            if self._only_fallback_data_differs(obs["msg"], obs["back"][3:], in_class): return "F-C25b"
        return None

    def known_selftest(self):
        """the classifiers fire for the recorded witnesses and for nothing next to them (independent of the tree under test:
        observations are literals)"""
        H = "1,0,0,0,0,1,1,0,0 61626364:33:1 "
        r1 = H + "61626364:33:1:60:046162636400c02b00 - -"          # SRV data shorter than its fixed fields, after heuristics
        r2 = H + "61626364:33:1:60:0461626364000000 - -"
        wb = {"op": "bytes", "buf_hex": "00018180000100010000000004616263640000210001c00c002100010000003c0005c00cc02b00"}
        wtxt = {"op": "bytes", "buf_hex": "00018180000100010000000004616263640000210001c00c001000010000003c000302c00c"}
        wsrv = {"op": "bytes", "buf_hex": "00018180000100010000000004616263640000210001c00c002100010000003c000900010002000301c000"}
        wm = {"op": "msg"}
        T = [
            # F-C25a positive: the recorded witness
            (wb, {"r": "ok " + r1, "packed": "00", "back": "ok " + r2}, "reencode: decodes to ok " + r2, "F-C25a"),
            # same input class, other failure clause: the decoded message does not encode / second decode is an error
            (wb, {"r": "ok " + r1, "packed": "err"}, "reencode: decoded message does not encode", None),
            (wb, {"r": "ok " + r1, "packed": "00", "back": "err"}, "reencode: decodes to err", None),
            # same input class, but a name changed as well
            (wb, {"r": "ok " + r1, "packed": "00", "back": "ok " + r2.replace("61626364:33:1:60", "61626365:33:1:60")},
             "reencode: decodes to ok x", None),
            # neighbouring input: TXT (no layout) data changed; SRV data that matches its layout changed
            (wtxt, {"r": "ok " + H + "61626364:16:1:60:02c00c - -", "packed": "00", "back": "ok " + H + "61626364:16:1:60:02c00d - -"},
             "reencode: decodes to ok x", None),
            (wsrv, {"r": "ok " + H + "61626364:33:1:60:00010002000301c000 - -", "packed": "00",
                  "back": "ok " + H + "61626364:33:1:60:00010002000301c100 - -"}, "reencode: decodes to ok x", None),
            # F-C25c positive (witness c00c c02c 00) and near misses: error located at another record / in a question; same
            # error on an input whose SRV data matches its layout
            ({"op": "bytes", "buf_hex": wb["buf_hex"][:-6] + "c02c00"}, {"r": "ok " + r1, "packed": "00", "back": "err", "back_where": ["answer", 0]},
             "reencode: decodes to err", "F-C25c"),
            ({"op": "bytes", "buf_hex": wb["buf_hex"][:-6] + "c02c00"}, {"r": "ok " + r1, "packed": "00", "back": "err", "back_where": ["question", 0]},
             "reencode: decodes to err", None),
            ({"op": "bytes", "buf_hex": wb["buf_hex"][:-6] + "c02c00"}, {"r": "ok " + r1, "packed": "00", "back": "err", "back_where": ["additional", 0]},
             "reencode: decodes to err", None),
            (wsrv, {"r": "ok " + H + "61626364:33:1:60:00010002000301c000 - -", "packed": "00", "back": "err", "back_where": ["answer", 0]},
             "reencode: decodes to err", None),
            # termination failure on a message of the class is not the finding
            (wb, {"__timeout__": 3}, "termination: DNSMessage.unpack did not return within 3s", None),
            # F-C25b positive: CNAME data 99 c0 0c constructed, decoded as 99 + expansion
            (wm, {"msg": H.replace(":33:", ":5:") + "61626364:5:1:60:99c00c - -", "packed": "00",
                  "back": "ok " + H.replace(":33:", ":5:") + "61626364:5:1:60:99046162636400 - -"}, "roundtrip: decodes to ok x", "F-C25b"),
            # same class, message does not encode; neighbouring: opaque type changed; plain CNAME data changed
            (wm, {"msg": H.replace(":33:", ":5:") + "61626364:5:1:60:99c00c - -", "packed": "err"},
             "roundtrip: well-formed message does not encode", None),
            (wm, {"msg": H + "61626364:16:1:60:99c00c - -", "packed": "00", "back": "ok " + H + "61626364:16:1:60:99046162636400 - -"},
             "roundtrip: decodes to ok x", None),
            (wm, {"msg": H.replace(":33:", ":5:") + "61626364:5:1:60:016100 - -", "packed": "00",
                  "back": "ok " + H.replace(":33:", ":5:") + "61626364:5:1:60:016200 - -"}, "roundtrip: decodes to ok x", None),
        ]
        for case, obs, failure, want in T:
            got = self.known(case, obs, failure)
            assert got == want, f"known_selftest: {failure!r} on {obs} classified {got}, expected {want}"
        # the input classes themselves
        L = self.layout
        assert D.rdata_class(L, 33, bytes.fromhex("c00cc02b00")) == "fallback" and D.rdata_class(L, 5, bytes.fromhex("99c00c")) == "fallback"
        assert D.rdata_class(L, 15, bytes.fromhex("000ac00c")) == "ptr" and D.rdata_class(L, 16, bytes.fromhex("02c00c")) == "opaque"
        assert D.rdata_class(L, 15, bytes.fromhex("c00c046d61696c00")) == "plain" and D.rdata_class(L, 5, bytes.fromhex("99c0")) == "plain"
        assert D.layout_mismatch(L, 33, bytes.fromhex("c00cc02b00")) and not D.layout_mismatch(L, 33, bytes.fromhex("000100020003c00c"))
        assert not D.layout_mismatch(L, 6, bytes.fromhex("026e73c00c04686f7374c00c") + bytes(20)) and D.layout_mismatch(L, 2, bytes.fromhex("40c00c"))
        assert D.locate_records(unhx(wb["buf_hex"])) == [(33, bytes.fromhex("c00cc02b00"))]

    # ------------------------------------------------------------------ model tie
    def _obs_for(self, case):
        key = json.dumps(case, sort_keys=True)
        if self._last and self._last[0] == key: return self._last[1]
        return self.impl(case)

    def _names(self, rendered):
        parts = rendered.split(" ")
        for sec in parts[1:]:
            if sec == "-": continue
            for r in sec.split(";"):
                yield D.b2t(unhx(r.split(":")[0]))

    def model_lines(self, case):
        obs = self._obs_for(case)
        op = case["op"]
        if any(str(v).startswith("exc:") for v in obs.values()): return None
        if op == "msg":
            # the model encodes the message and decodes ITS OWN bytes; only the idna table is taken from the real codec
            bufs = [unhx(obs["packed"])] if obs["packed"] != "err" else []
            tbl = D.idna_table(bufs, list(self._names(obs["msg"])))
            # + the codec-free well-formedness predicate of `roundtrip_ascii` against its Python twin
            return [f"rt {tbl} {D.render_case_msg(case)}", f"wfascii {D.render_case_msg(case)}"]
        if op == "bytes":
            # decode, re-encode, decode again: all three predicted by the model from the input bytes alone
            bufs = [unhx(case["buf_hex"])]
            names = []
            if obs["r"] != "err":
                names = list(self._names(obs["r"][3:]))
                if obs["packed"] != "err": bufs.append(unhx(obs["packed"]))
            tbl = D.idna_table(bufs, names)
            # + the instrumented decoder of `reencode_stable_matched`: its flag against the Python twin (layout_mismatch)
            return [f"chain {tbl} {case['buf_hex']}", f"unpackt {tbl} {case['buf_hex']}"]
        if op == "plain":
            return [f"plain {case['ty']} {case['data_hex']}"]
        if op == "name":
            return [f"name {D.idna_table([unhx(case['buf_hex'])])} {case['buf_hex']} {case['off']}"]
        return [f"expand {case['buf_hex']} {case['off']} {case['len']} {case['ty']}"]

    def model_obs(self, case, replies):
        return list(replies)

    def impl_view(self, case, obs):
        if any(str(v).startswith("exc:") for v in obs.values()): return ["exc"]
        ok = lambda v: "err" if v == "err" else "ok " + v
        if case["op"] == "msg":
            return [" | ".join([ok(obs["packed"])] + ([obs["back"]] if "back" in obs else [])), "1" if self._wf_ascii(case) else "0"]
        if case["op"] == "bytes":
            out = [obs["r"]]
            if "packed" in obs: out.append(ok(obs["packed"]))
            if "back" in obs: out.append(obs["back"])
            if obs["r"] == "err": t = "err"
            else:
                raw = D.locate_records(unhx(case["buf_hex"]))
                lay = D.code_layout()
                t = obs["r"] + (" ?" if raw is None else " 0" if any(D.layout_mismatch(lay, ty, d) for ty, d in raw) else " 1")
            return [" | ".join(out), t]
        return [obs["r"]]

    # ------------------------------------------------------------------ evidence
    def classify(self, case, obs):
        if case["op"] in ("bytes", "name", "expand") and case.get("buf_hex") == "-": return None
        return json.dumps(case, sort_keys=True)

    def branches(self, case, obs):
        op = case["op"]
        out = []
        if op == "msg":
            out.append("msg:" + ("wf" if self._well_formed(case) else "not-wf") + ":" + ("enc-ok" if obs["packed"] != "err" else "enc-err"))
            if "back" in obs and obs["back"] != "ok " + obs["msg"]: out.append("msg:changed-by-roundtrip")
        elif op == "plain":
            out.append(f"plain:{obs['r']}:{obs['in_context']}")
        else:
            b = unhx(case["buf_hex"])
            out.append(f"{op}:" + obs["r"][:3].strip())
            if op == "bytes" and obs["r"] != "err":
                if any(c >= 0xC0 for c in b[12:]): out.append("bytes:ok+has-0xC0")
                if D.ACE in b or b"XN--" in b: out.append("bytes:ok+ace")
                if obs.get("back") != obs["r"]: out.append("bytes:reencode-unstable")
                if len(b) != len(unhx(obs["packed"])) if obs.get("packed", "err") != "err" else False: out.append("bytes:ok+was-compressed")
        return out

    def neighbours(self, case, rng):
        if "buf_hex" not in case: return
        b = unhx(case["buf_hex"])
        for i in range(len(b)):
            for v in (0x00, 0xC0, 0x0C, 0x40, 0xFF, 0x2e):
                c = dict(case); c["buf_hex"] = hx(b[:i] + bytes([v]) + b[i + 1:]); yield c
        for i in range(len(b)):
            c = dict(case); c["buf_hex"] = hx(b[:i]); yield c

    def exhaustive(self, tier):
        for k in (1, 2, 3):
            yield from self._graph_cases(k)
