"""Shared DNS helpers of the C25/C26 checks: canonical rendering of messages, the recorded idna-codec table that
instantiates the model's `Idna` parameter, an independent compressing encoder, the specification decoder DnsRef
(Python twin of lean/MitmVerif/Model/C26.lean `DnsRef`), and the Python twin of `RdataPlain` (Props/C25)."""
import struct

ACE = b"xn--"


def hx(b) -> str:
    return bytes(b).hex() if b else "-"


def unhx(s: str) -> bytes:
    return b"" if s in ("-", "") else bytes.fromhex(s)


def t2b(s: str) -> bytes:
    return s.encode("utf-8", "surrogatepass")


def b2t(b: bytes) -> str:
    return b.decode("utf-8", "surrogatepass")


# ---------------------------------------------------------------- canonical rendering (== Driver/C25.lean showMsg)
def render_q(q):
    return f"{hx(t2b(q.name))}:{q.type}:{q.class_}"


def render_rr(r):
    return f"{hx(t2b(r.name))}:{r.type}:{r.class_}:{r.ttl}:{hx(r.data)}"


def render_list(f, l):
    return ";".join(f(x) for x in l) if l else "-"


def render_msg(m) -> str:
    b = lambda x: "1" if x else "0"
    return (f"{m.id},{b(m.query)},{m.op_code},{b(m.authoritative_answer)},{b(m.truncation)},{b(m.recursion_desired)},"
            f"{b(m.recursion_available)},{m.reserved},{m.response_code} "
            f"{render_list(render_q, m.questions)} {render_list(render_rr, m.answers)} "
            f"{render_list(render_rr, m.authorities)} {render_list(render_rr, m.additionals)}")


def build_msg(c):
    """case dict -> DNSMessage (names are hex of UTF-8 text)"""
    from mitmproxy import dns
    h = c["hdr"]
    q = [dns.Question(b2t(unhx(n)), t, cl) for n, t, cl in c["q"]]
    rr = lambda l: [dns.ResourceRecord(b2t(unhx(n)), t, cl, ttl, unhx(d)) for n, t, cl, ttl, d in l]
    return dns.DNSMessage(id=h[0], query=bool(h[1]), op_code=h[2], authoritative_answer=bool(h[3]), truncation=bool(h[4]),
                          recursion_desired=bool(h[5]), recursion_available=bool(h[6]), reserved=h[7], response_code=h[8],
                          questions=q, answers=rr(c["an"]), authorities=rr(c["ns"]), additionals=rr(c["ar"]))


def render_case_msg(c) -> str:
    h = c["hdr"]
    qs = ";".join(f"{n}:{t}:{cl}" for n, t, cl in c["q"]) or "-"
    rr = lambda l: ";".join(f"{n}:{t}:{cl}:{ttl}:{d}" for n, t, cl, ttl, d in l) or "-"
    return f"{','.join(str(int(x)) for x in h)} {qs} {rr(c['an'])} {rr(c['ns'])} {rr(c['ar'])}"


# ---------------------------------------------------------------- the idna codec as a recorded table
def ace_candidates(buf: bytes):
    """every length-prefixed slice of buf that contains b'xn--' (a superset of the labels the decoder can read)"""
    out, p = set(), buf.find(ACE)
    while p >= 0:
        for s in range(max(1, p - 59), p + 1):
            n = buf[s - 1]
            if n < 64 and s + n >= p + 4 and s + n <= len(buf):
                out.add(bytes(buf[s:s + n]))
        p = buf.find(ACE, p + 1)
    return out


def is_ascii(b: bytes) -> bool:
    return all(c < 128 for c in b)


def idna_table(buffers=(), texts=()) -> str:
    """`d:raw:text` / `e:text:raw` entries (`!` = UnicodeError) for everything the model may ask its Idna parameter
    while it works on these buffers / name texts"""
    dec, enc = {}, {}

    def want_enc(t: str):
        tb = t2b(t)
        if tb in enc or is_ascii(tb): return
        try:
            enc[tb] = t.encode("idna")
        except UnicodeError:
            enc[tb] = None

    for t in texts:
        want_enc(t)
        for part in t.split("."):
            want_enc(part)
    for buf in buffers:
        for raw in ace_candidates(buf):
            if raw in dec: continue
            try:
                t = raw.decode("idna")
                dec[raw] = t2b(t)
                want_enc(t)
            except UnicodeError:
                dec[raw] = None
    ents = [f"d:{hx(k)}:{'!' if v is None else hx(v)}" for k, v in sorted(dec.items())]
    ents += [f"e:{hx(k)}:{'!' if v is None else hx(v)}" for k, v in sorted(enc.items())]
    return ";".join(ents) or "-"


# ---------------------------------------------------------------- RdataPlain twin (Props/C25 `plainWalk`)
NAME, CSTR = -1, -2


def code_layout():
    from mitmproxy.net.dns import domain_names
    return dict(domain_names._RDATA_LAYOUT)


def heur_inert(rd: bytes) -> bool:
    return all(c < 192 for c in rd[:-1])


def plain_name(rd: bytes):
    """'stop' | 'ptr' | consumed length"""
    i = 0
    while True:
        if i >= len(rd): return "stop"
        sz = rd[i]
        if sz >= 192:
            return "stop" if i + 1 >= len(rd) else "ptr"
        if sz >= 64 or len(rd) - i - 1 < sz: return "stop"
        i += 1 + sz
        if sz == 0: return i


def rdata_plain(layout, ty: int, data: bytes) -> bool:
    """record data that `expand_record_data` leaves alone in every message (no pointer where one would be expanded)"""
    if ty not in layout: return True
    rd = data
    for f in layout[ty]:
        if f == NAME:
            r = plain_name(rd)
            if r == "stop": return heur_inert(rd)
            if r == "ptr": return False
            rd = rd[r:]
        else:
            if f == CSTR:
                if not rd: return True
                f = 1 + rd[0]
            if len(rd) < f: return heur_inert(rd)
            rd = rd[f:]
    return True


def rfc_layout():
    """the RFC layouts (RFC_LAYOUT below) in the NAME/CSTR/int form of `rdata_plain` — independent of the tree under test"""
    conv = {"N": NAME, "S": CSTR}
    return {ty: tuple(conv[f] if f in conv else _FIXED[f] for f in lay) for ty, lay in RFC_LAYOUT.items()}


def rdata_class(layout, ty: int, data: bytes) -> str:
    """how the RFC layout of `ty` reads `data` taken on its own:
    'opaque'   the type holds no domain name
    'ptr'      a name field is reached and holds a compression pointer (data is not in uncompressed form)
    'fallback' the data does not match the layout and the unmatched rest holds a byte >= 0xC0 that is not its last byte
               (the class of findings F-C25a/F-C25b: the heuristic expansion may rewrite it)
    'plain'    everything else"""
    if ty not in layout: return "opaque"
    rd = data
    for f in layout[ty]:
        if f == NAME:
            r = plain_name(rd)
            if r == "stop": return "plain" if heur_inert(rd) else "fallback"
            if r == "ptr": return "ptr"
            rd = rd[r:]
        else:
            if f == CSTR:
                if not rd: return "plain"
                f = 1 + rd[0]
            if len(rd) < f: return "plain" if heur_inert(rd) else "fallback"
            rd = rd[f:]
    return "plain"


def layout_mismatch(layout, ty: int, raw: bytes) -> bool:
    """the RDATA as it stands in a message (names possibly compressed) does not match the RFC layout of its type:
    a fixed field or character-string is cut short, or a name field does not end (terminator or pointer) inside the
    RDATA / meets a reserved label type. This is when expand_record_data falls back to its heuristic."""
    if ty not in layout: return False
    i = 0
    for f in layout[ty]:
        if f == NAME:
            while True:
                if i >= len(raw): return True
                sz = raw[i]
                if sz >= 192:
                    if i + 2 > len(raw): return True
                    i += 2; break
                if sz >= 64 or i + 1 + sz > len(raw): return True
                i += 1 + sz
                if sz == 0: break
        else:
            if f == CSTR:
                if i >= len(raw): return True
                f = 1 + raw[i]
            if i + f > len(raw): return True
            i += f
    return False


def locate_records(buf: bytes):
    """[(type, raw RDATA)] of all resource records in message order, found by skipping names without following
    pointers; None if the sections do not fit the buffer"""
    try:
        nq, nan, nns, nar = struct.unpack_from("!HHHH", buf, 4)
        pos = 12

        def skip_name(p):
            while True:
                sz = buf[p]
                if sz >= 192: return p + 2
                if sz >= 64: raise IndexError
                p += 1 + sz
                if sz == 0: return p
        for _ in range(nq):
            pos = skip_name(pos) + 4
        out = []
        for _ in range(nan + nns + nar):
            pos = skip_name(pos)
            t, _, _, ln = struct.unpack_from("!HHIH", buf, pos); pos += 10
            if pos + ln > len(buf): return None
            out.append((t, bytes(buf[pos:pos + ln]))); pos += ln
        return out
    except (IndexError, struct.error):
        return None


def canonical_name(name: str) -> bool:
    """IDNA-canonical: every part is a fixed point of decode∘encode and fits a label"""
    if name == "": return True
    for part in name.split("."):
        try:
            l = part.encode("idna")
            if not (0 < len(l) < 64): return False
            if l.decode("idna") != part: return False
        except UnicodeError:
            return False
    return True


# ---------------------------------------------------------------- independent wire encoder with compression
def wire_name(labels) -> bytes:
    return b"".join(bytes([len(l)]) + l for l in labels) + b"\x00"


class Compressor:
    """RFC 1035 §4.1.4 encoder: every name is written label by label; a suffix that was already written at an offset
    < 0x4000 is replaced by a pointer to it (case-sensitive match so that case is preserved)."""

    def __init__(self, compress=True):
        self.buf = bytearray()
        self.where = {}
        self.compress = compress

    def name(self, labels, compress=None):
        compress = self.compress if compress is None else compress
        labels = list(labels)
        for i in range(len(labels)):
            suffix = tuple(labels[i:])
            if compress and suffix in self.where:
                self.buf += struct.pack("!H", 0xC000 | self.where[suffix])
                return
            if len(self.buf) < 0x4000:
                self.where.setdefault(suffix, len(self.buf))
            self.buf += bytes([len(labels[i])]) + labels[i]
        self.buf += b"\x00"

    def raw(self, b):
        self.buf += b


# RDATA layouts by the RFCs (independent of the code's table): fields in order; rest opaque
RFC_LAYOUT = {
    2: "N", 3: "N", 4: "N", 5: "N", 7: "N", 8: "N", 9: "N", 12: "N",     # NS MD MF CNAME MB MG MR PTR (RFC 1035)
    6: "NN",                                                              # SOA mname rname (+ 5 x u32 opaque)
    14: "NN", 17: "NN",                                                   # MINFO, RP (RFC 1183)
    15: "2N", 18: "2N", 21: "2N",                                         # MX, AFSDB, RT
    26: "2NN",                                                            # PX (RFC 2163)
    33: "6N",                                                             # SRV (RFC 2782)
    24: "IN",                                                             # SIG: 18 fixed bytes, signer name (RFC 2535)
    30: "N",                                                              # NXT (RFC 2535)
    35: "4SSSN",                                                          # NAPTR (RFC 3403)
}
_FIXED = {"2": 2, "4": 4, "6": 6, "I": 18}


def build_wire(msg, compress=True):
    """msg: dict(id, flags, q=[(labels, type, class)], an/ns/ar=[(labels, type, class, ttl, fields)]) where fields is
    a list of ('b', bytes) | ('n', labels) -> wire bytes"""
    c = Compressor(compress)
    c.raw(struct.pack("!HHHHHH", msg["id"], msg["flags"], len(msg["q"]), len(msg["an"]), len(msg["ns"]), len(msg["ar"])))
    for labels, t, cl in msg["q"]:
        c.name(labels); c.raw(struct.pack("!HH", t, cl))
    for sec in ("an", "ns", "ar"):
        for labels, t, cl, ttl, fields in msg[sec]:
            c.name(labels)
            c.raw(struct.pack("!HHI", t, cl, ttl))
            at = len(c.buf); c.raw(b"\x00\x00")
            for kind, v in fields:
                if kind == "n": c.name(v, compress and t in RFC_LAYOUT)
                else: c.raw(v)
            struct.pack_into("!H", c.buf, at, len(c.buf) - at - 2)
    return bytes(c.buf)


# ---------------------------------------------------------------- DnsRef: specification decoder (twin of Model/C26.lean)
class RefError(Exception):
    pass


def ref_labels(buf: bytes, off: int):
    """labels at off up to terminator/pointer -> (labels, consumed, pointer target | None)"""
    labels, i = [], off
    while True:
        if i >= len(buf): raise RefError("truncated name")
        sz = buf[i]
        if sz >= 192:
            if i + 1 >= len(buf): raise RefError("truncated pointer")
            return labels, i + 2 - off, ((sz - 192) << 8) | buf[i + 1]
        if sz >= 64: raise RefError("reserved label type")
        if len(buf) < i + 1 + sz: raise RefError("truncated label")
        if sz == 0: return labels, i + 1 - off, None
        labels.append(bytes(buf[i + 1:i + 1 + sz])); i += 1 + sz


def ref_name(buf: bytes, off: int, info=None):
    """(labels, size at off); a pointer must point before the start of the name that contains it"""
    out, size, cur, hops = [], None, off, 0
    while True:
        labels, n, ptr = ref_labels(buf, cur)
        out += labels
        if size is None: size = n
        if ptr is None: break
        if not ptr < cur: raise RefError("forward pointer")
        cur = ptr; hops += 1
    if info is not None:
        info["labels"] += out; info["hops"] = max(info["hops"], hops)
    return out, size


def ref_rdata(buf: bytes, off: int, ln: int, ty: int, info=None) -> bytes:
    """canonical record data: names expanded by the RFC layout of the type, everything else byte for byte"""
    if ty not in RFC_LAYOUT: return bytes(buf[off:off + ln])
    out, pos, end = b"", off, off + ln
    for f in RFC_LAYOUT[ty]:
        if f == "N":
            labels, n = ref_name(buf, pos, None if (info is not None and info.get("owner_only")) else info)
            if pos + n > end: raise RefError("name exceeds record data")
            out += wire_name(labels); pos += n
        else:
            if f == "S":
                if pos >= len(buf): raise RefError("truncated character-string")
                k = 1 + buf[pos]
            else:
                k = _FIXED[f]
            if pos + k > end: raise RefError("truncated field")
            out += bytes(buf[pos:pos + k]); pos += k
    out += bytes(buf[pos:end])
    if info is not None: info["rdata"] = max(info["rdata"], len(out))
    return out


def ref_decode(buf: bytes, info=None):
    """-> canonical string (== Driver/C26.lean showRef) ; raises RefError"""
    if len(buf) < 12: raise RefError("short header")
    id_, flags, nq, nan, nns, nar = struct.unpack_from("!HHHHHH", buf, 0)
    pos = 12
    qs, rrs = [], []
    for _ in range(nq):
        labels, n = ref_name(buf, pos, info); pos += n
        if pos + 4 > len(buf): raise RefError("truncated question")
        t, cl = struct.unpack_from("!HH", buf, pos); pos += 4
        qs.append(f"{hx(wire_name(labels))}:{t}:{cl}")
    for cnt in (nan, nns, nar):
        sec = []
        for _ in range(cnt):
            labels, n = ref_name(buf, pos, info); pos += n
            if pos + 10 > len(buf): raise RefError("truncated record")
            t, cl, ttl, ln = struct.unpack_from("!HHIH", buf, pos); pos += 10
            if pos + ln > len(buf): raise RefError("truncated record data")
            sec.append(f"{hx(wire_name(labels))}:{t}:{cl}:{ttl}:{hx(ref_rdata(buf, pos, ln, t, info))}")
            pos += ln
        rrs.append(";".join(sec) or "-")
    if pos != len(buf): raise RefError("trailing bytes")
    return f"{id_},{flags} {';'.join(qs) or '-'} {rrs[0]} {rrs[1]} {rrs[2]}"


def ref_questions(buf: bytes):
    """(id, [(labels, type, class)]) of a message whose header and question section the specification reads, else None"""
    try:
        if len(buf) < 12: return None
        id_, _, nq = struct.unpack_from("!HHH", buf, 0)
        pos, qs = 12, []
        for _ in range(nq):
            labels, n = ref_name(buf, pos); pos += n
            if pos + 4 > len(buf): return None
            t, cl = struct.unpack_from("!HH", buf, pos); pos += 4
            qs.append((labels, t, cl))
        return id_, qs
    except RefError:
        return None


def ref_view(buf: bytes) -> str:
    try:
        return "ok " + ref_decode(buf)
    except RefError:
        return "err"


import re
_HOSTLABEL = re.compile(rb"^[A-Za-z0-9_-]{1,63}$")


def deliverable(buf: bytes) -> bool:
    """a message the proxy has no reason not to forward: the specification decoder reads it, every label is a plain
    host-name label (no ACE prefix: those depend on the idna codec), pointer nesting and expanded data are in bounds"""
    info = {"labels": [], "hops": 0, "rdata": 0}
    try:
        ref_decode(buf, info)
    except RefError:
        return False
    return (all(_HOSTLABEL.match(l) and ACE not in l for l in info["labels"]) and info["hops"] <= 100 and info["rdata"] <= 65535)


def hops_twin(buf: bytes, off: int, memo: dict) -> int:
    """twin of Lemmas/C26Live.lean `hops`: pointer hops of the specification's walk from off (0 where it does not walk)"""
    if off in memo: return memo[off]
    try:
        _, _, ptr = ref_labels(buf, off)
    except RefError:
        ptr = None
    r = 1 + hops_twin(buf, ptr, memo) if (ptr is not None and ptr < off) else 0
    memo[off] = r
    return r


def live_twin(buf: bytes) -> bool:
    """twin of Lemmas/C26Live.lean `liveCheck`: the specification reads the message, owner/question labels are plain
    (ASCII, no dot, no xn--), canonical record data fits 16 bits, no pointer chain of the buffer is deeper than 127"""
    info = {"labels": [], "hops": 0, "rdata": 0, "owner_only": True}
    try:
        ref_decode(buf, info)
    except RefError:
        return False
    if not all(is_ascii(l) and ACE not in l and b"." not in l for l in info["labels"]): return False
    if info["rdata"] > 65535: return False
    import sys
    sys.setrecursionlimit(max(sys.getrecursionlimit(), 40000))
    memo = {}
    return all(hops_twin(buf, off, memo) <= 127 for off in range(len(buf)))


def ref_reencoded_size(buf: bytes):
    """length of the uncompressed re-encoding of a message the specification reads (header + questions + records with
    every owner name and every name in name-bearing RDATA written out in full), None if the specification does not read it"""
    try:
        r = ref_decode(buf)
    except RefError:
        return None
    size = 12
    _hdr, qs, *secs = r.split(" ")
    hl = lambda h: 0 if h == "-" else len(h) // 2
    if qs != "-":
        for q in qs.split(";"):
            size += hl(q.split(":")[0]) + 4
    for sec in secs:
        if sec == "-": continue
        for rr in sec.split(";"):
            f = rr.split(":")
            size += hl(f[0]) + 10 + hl(f[4])
    return size
