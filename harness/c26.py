"""C26 — forwarded DNS messages keep their meaning (mitmproxy/proxy/layers/dns.py on top of the C25 codec)."""
import json, struct
from common.check import PropertyCheck, Skip
from common import world as W
import c25_dns as D
from c25_dns import hx, unhx
import c25 as C25

from mitmproxy import connection, options
from mitmproxy.addons.proxyserver import Proxyserver
from mitmproxy.proxy import context
from mitmproxy.proxy.layers import dns as dnslayer

U16, U32 = 65535, 4294967295
HOST = [b"www", b"example", b"cdn-example", b"xcom", b"com", b"ORG", b"mail", b"ns1", b"ns2", b"Host-1", b"_sip", b"_tcp", b"a", b"xn--bcher-kva", b"xn--mnchen-3ya", b"x" * 63]
ODD = [b"xn--BCHER-kva", b"xn--BcHEr-kVA", b"xn--MNCHEN-3ya", b"a.b", b"\xc3\xa9t\xc3\xa9", b"\xc0\x0c", b"xn--a", b"XN--A", b"caf\xe9", b" ", b"*"]
_OPTS = None


def frame(b: bytes) -> bytes:
    return struct.pack("!H", len(b)) + b


def unframe(stream: bytes):
    out, i = [], 0
    while i + 2 <= len(stream):
        n = struct.unpack_from("!H", stream, i)[0]
        out.append(stream[i + 2:i + 2 + n]); i += 2 + n
    return out


class Check(PropertyCheck):
    prop = "C26"
    design_ref = "§5 C26"
    level_text = ("Lean theorems over the C25 codec model, the independent specification decoder DnsRef (backward-only "
                  "compression pointers, RDATA canonicalised by its own RFC layout table) and the C27 model of DNSLayer. "
                  "`repack_preserves` / `forward_preserves` / `forward_preserves_tcp`: every message DnsRef reads is, if "
                  "forwarded, read identically by DnsRef afterwards (same header, questions, records; names label for label "
                  "and case for case; record data equal after expanding compressed names). `history_preserves`: for EVERY "
                  "schedule of client segments, server segments and closes on a connection (any interleaving of queries and "
                  "replies, ids, pending-query check, TCP length-prefix buffering, any connect outcome) with no addon "
                  "touching a flow, every SendData is the re-encoding of a frame the other side delivered, read identically "
                  "by DnsRef, or the SERVFAIL of a client frame; `history_preserves_any_segmentation` (with C27's "
                  "interleaved_seg_independent) makes that independent of how the streams are cut; `delivered_frames`. "
                  "Delivery (the clause 'is delivered'): `deliverable_is_forwarded`, `deliverable_is_forwarded_tcp`, "
                  "`live_checked_is_forwarded` - a message DnsRef reads whose owner/question labels are plain (ASCII, no dot, no "
                  "xn--), whose canonical record data fits 16 bits and whose pointer chains are at most 127 deep IS forwarded "
                  "(connection left open) and read identically; the executable precondition liveCheck is tied to its Python "
                  "twin (op live). `spec_readable_reencode_stable`: C25's re-encoding clause holds for every message DnsRef "
                  "reads. `compressed_name_read` + `scanRaw_wire_ptr`: labels followed by a pointer to an earlier offset < 16384 are "
                  "read by DnsRef and by the cache-based decoder as labels ++ target name (the contract with any compressing "
                  "encoder). `forward_never_crashes(_tcp)`, `decoded_message_encodes`, `opaque_types_bytewise`, "
                  "`code_layout_is_rfc_layout`. Tie: real DNSLayer driven through harness/common/world.py in both "
                  "directions over UDP and TCP (incl. > 16 KiB messages whose names first appear beyond offset 16383); "
                  "Lean DnsRef against its Python twin on every input and output.")
    level_note = ("trusted: Lean kernel; hand-written models tied differentially (forwarded bytes; DnsRef rendering vs its "
                  "Python twin). The idna codec is a parameter of the model, instantiated per case from the real codec. "
                  "Hooks are answered without modification by the world; the harness drives one segment per direction "
                  "(for server->client cases the world first lets the client ask the query each server message answers, so "
                  "that the reply is solicited). `history_preserves` is a theorem about the C27 layer model (tied to the "
                  "code by the C27 check) with acts = []: runs in which addons modify flows are outside C26's statement. "
                  "Over TCP the code raises when the uncompressed re-encoding of a message exceeds 65535 bytes (F-C26b, code "
                  "unchanged; classifier: tcp + struct.error + first input message whose reference re-encoded size > 65535). "
                  "Delivery is proved for plain ASCII labels only (labels with xn-- or non-ASCII bytes depend on the idna "
                  "parameter; the oracle's `deliverable` is narrower still). The compressing encoder is covered for sequences of names "
                  "(`reference_compressor_sequence_read`), not for whole messages with record data; there is no theorem about a whole-message compressing encoder "
                  "(DNSMessage.packed does not compress).")
    technique = "Lean 4 proof (parse agreement between the cache-based decoder and the specification decoder) + differential correspondence through the real DNSLayer"
    rule = ("server-style messages from an independent compressing encoder: compressed names inside CNAME/NS/PTR/MX/SOA/SRV/"
            "NAPTR/RP/... data, ACE/IDN labels, TXT/unknown/A/AAAA/OPT records with pointer-like bytes, SOA serials and MX "
            "preferences >= 0xC000, plus single-byte mutations, odd labels (dots, raw UTF-8, upper-case ACE) and raw bytes; "
            "each sent client->server and server->client over UDP and TCP (1-3 frames per segment). distinct = distinct "
            "(transport, direction, messages); non-trivial = at least one message DnsRef can read.")
    budget = {"quick": 5000, "thorough": 150000}
    time_budget = {"quick": 30, "thorough": 600}
    fingerprints = ["mitmproxy.proxy.layers.dns:DNSLayer.handle_request", "mitmproxy.proxy.layers.dns:DNSLayer.handle_response",
                    "mitmproxy.proxy.layers.dns:DNSLayer._unpack_messages", "mitmproxy.proxy.layers.dns:DNSLayer.state_query",
                    "mitmproxy.proxy.layers.dns:pack_message"] + C25.Check.fingerprints
    trusted_base = C25.Check.trusted_base + ["harness/common/world.py as the stand-in for proxy/server.py's command interpreter"]
    parallel = False
    case_timeout = 3               # the layer handles a message in milliseconds

    def on_timeout(self, case):
        # a message that is never handed on is not "delivered to the other side"
        self._timeouts = getattr(self, "_timeouts", 0) + 1
        return [f"the layer did not finish handling the segment within {self.case_timeout}s (nothing delivered)"]

    def shrink_candidates(self, case):
        if getattr(self, "_timeouts", 0): return iter(())
        return super().shrink_candidates(case)

    def translate(self):
        return C25.Check().translate()

    def setup(self, tier):
        self._last = None
        self.c25 = C25.Check(); self.c25.setup(tier)
        self.known_selftest()

    def known(self, case, obs, failure):
        """F-C26b: TCP case, the layer raised struct.error (`error`), the failure is the crash clause, and the message being
        handled when it raised — the first input message whose uncompressed re-encoding (computed from the INPUT by the
        reference decoder) exceeds 65535 bytes, all messages in front of it fitting — exists"""
        if not isinstance(obs, dict) or case.get("kind") == "cnames": return None
        if case.get("transport") != "tcp" or obs.get("state") != "crashed:error": return None
        if failure != "the layer raised error while forwarding": return None
        sizes = [D.ref_reencoded_size(unhx(h)) for h in case["msgs_hex"]]
        for sz in sizes:
            if sz is None: return None            # a message the specification cannot read in front: not this finding
            if sz > U16: return "F-C26b"
        return None

    def known_selftest(self):
        """the classifier of F-C26b fires for its witness and for nothing next to it; nothing else is ever excused; the
        abstain conditions are what they say (literals only, independent of the tree under test)"""
        big, ok = hx(self._expanding(243)), hx(self._expanding(242))
        assert D.ref_reencoded_size(unhx(big)) == 65638 and D.ref_reencoded_size(unhx(ok)) == 65369
        crash = "the layer raised error while forwarding"
        T = [({"transport": "tcp", "dir": "s2c", "msgs_hex": [big]}, {"state": "crashed:error", "out": []}, crash, "F-C26b"),
             ({"transport": "tcp", "dir": "c2s", "msgs_hex": [ok, big]}, {"state": "crashed:error", "out": []}, crash, "F-C26b"),
             # same input, other failure clause / other exception / other transport
             ({"transport": "tcp", "dir": "s2c", "msgs_hex": [big]}, {"state": "sent", "out": ["00"]}, "message 0: reference decoder reads x instead of y", None),
             ({"transport": "tcp", "dir": "s2c", "msgs_hex": [big]}, {"state": "crashed:KeyError", "out": []}, "the layer raised KeyError while forwarding", None),
             ({"transport": "udp", "dir": "s2c", "msgs_hex": [big]}, {"state": "crashed:error", "out": []}, crash, None),
             ({"transport": "tcp", "dir": "s2c", "msgs_hex": [big]}, {"state": "closed", "out": []}, "well-formed plain message(s) not delivered: closed, 0 of 1", None),
             # neighbouring input: one record fewer fits the frame; an unreadable message in front
             ({"transport": "tcp", "dir": "s2c", "msgs_hex": [ok]}, {"state": "crashed:error", "out": []}, crash, None),
             ({"transport": "tcp", "dir": "s2c", "msgs_hex": ["00ff", big]}, {"state": "crashed:error", "out": []}, crash, None)]
        for case, obs, failure, want in T:
            got = self.known(case, obs, failure)
            assert got == want, f"known_selftest: {failure!r} on {case['transport']}/{len(case['msgs_hex'])} msgs classified {got}, expected {want}"
        for f in ("message 0: reference decoder reads x instead of y", "1 messages in, 0 out (sent)",
                  "well-formed plain message(s) not delivered: closed, 0 of 1", "the layer raised KeyError while forwarding"):
            assert self.known({"transport": "udp", "dir": "c2s", "msgs_hex": ["00"]}, {"state": "sent", "out": []}, f) is None
        q = struct.pack("!HHHHHH", 7, 0x0100, 1, 0, 0, 0) + b"\x07example\x03com\x00\x00\x01\x00\x01"
        assert D.deliverable(q) and not D.deliverable(q[:-1]) and not D.deliverable(q.replace(b"example", b"ex.mple"))
        assert not D.deliverable(q.replace(b"\x07example", b"\x07xn--a-b")) and self._soliciting_query(q) == q
        assert self._soliciting_query(q[:20]) is None

    # ------------------------------------------------------------------ generators
    def _labels(self, rng, base):
        r = rng.randint(0, 9)
        if r < 4: return list(base)
        if r < 8: return [rng.pick(HOST)] + list(base)
        return [rng.pick(HOST) for _ in range(rng.randint(0, 4))]

    def _msg(self, rng, odd):
        pool = HOST + (ODD if odd else [])
        base = [rng.pick(pool) for _ in range(rng.randint(0, 3))]
        nm = lambda: self._labels(rng, base)
        hot = lambda n: bytes(rng.pick([0xC0, 0x0C, 0xC1, 0xFF, rng.getrandbits(8)]) for _ in range(n))

        def rr():
            ty = rng.pick([1, 2, 5, 6, 12, 15, 16, 28, 33, 35, 17, 18, 24, 26, 30, 13, 41, 65, 99, 257, 65280])
            lay = D.RFC_LAYOUT.get(ty)
            fields = []
            if lay is not None:
                for f in lay:
                    if f == "N": fields.append(("n", nm()))
                    elif f == "S":
                        s = hot(rng.randint(0, 4)); fields.append(("b", bytes([len(s)]) + s))
                    else: fields.append(("b", hot(D._FIXED[f])))
                if ty == 6: fields.append(("b", hot(20)))
                elif ty in (24, 30) or rng.chance(0.15): fields.append(("b", hot(rng.randint(0, 6))))
            elif ty == 1: fields.append(("b", hot(4)))
            elif ty == 28: fields.append(("b", hot(16)))
            elif ty in (16, 99):
                for _ in range(rng.randint(1, 3)):
                    s = hot(rng.randint(0, 6)) if rng.chance(0.6) else b"v=spf1 -all"; fields.append(("b", bytes([len(s)]) + s))
            else: fields.append(("b", hot(rng.randint(0, 12))))
            return (nm(), ty, rng.pick([1, 1, 1, 3, 254, 255, 4096]), rng.pick([0, 60, 0xC00C, U32, rng.randint(0, U32)]), fields)
        return {"id": rng.randint(0, U16), "flags": rng.pick([0x0100, 0x8180, 0x8583, rng.randint(0, U16)]),
                "q": [(nm(), rng.pick([1, 15, 16, 6, 33, 255]), 1) for _ in range(rng.pick([1, 1, 1, 1, 0, 2]))],
                "an": [rr() for _ in range(rng.pick([0, 1, 1, 2, 3, 5]))], "ns": [rr() for _ in range(rng.pick([0, 0, 1, 2]))],
                "ar": [rr() for _ in range(rng.pick([0, 0, 1, 2]))]}

    def _one(self, rng):
        r = rng.randint(0, 99)
        if r < 62: return D.build_wire(self._msg(rng, False), compress=rng.chance(0.9))
        if r < 72: return D.build_wire(self._msg(rng, True), compress=rng.chance(0.9))
        if r < 92:
            b = bytearray(D.build_wire(self._msg(rng, rng.chance(0.2))))
            m = rng.randint(0, 4)
            if m == 0 and b: b[rng.randint(0, len(b) - 1)] = rng.getrandbits(8)
            elif m == 1 and len(b) > 12: b[rng.randint(12, len(b) - 1)] = rng.pick([0xC0, 0xC1, 0x40, 0xFF, 0x00])
            elif m == 2: b = b[:rng.randint(0, len(b))]
            elif m == 3: b += bytes(rng.getrandbits(8) for _ in range(rng.randint(1, 3)))
            elif len(b) > 13:
                i = rng.randint(12, len(b) - 2); b[i] = 0xC0; b[i + 1] = rng.randint(0, min(255, len(b) + 2))
            return bytes(b)
        return bytes(rng.getrandbits(8) for _ in range(rng.randint(0, 40)))

    def _large(self, first_at, late, reuse, pad_type=16):
        """a big answer (zone-transfer / large TXT style): padding records push the first appearance of the owner
        name `late` to message offset `first_at` (in the re-packed, uncompressed layout as well as on the wire,
        the padding holds no compressible name); then `reuse` more records use that name or a suffix of it"""
        q = [b"big", b"example"]
        hdr_q = 12 + len(D.wire_name(q)) + 4
        recs, pos = [], hdr_q
        while pos < first_at:
            room = first_at - pos
            # a record with root owner costs 1 + 10 + len(data)
            n = min(60000, room - 11)
            if n < 0:                                   # cannot hit exactly: shift by one small record
                break
            if room - 11 - n != 0 and room - 11 - n < 11: n -= 11
            data = bytes([min(255, n - 1)]) + bytes(max(0, n - 1)) if n > 0 else b""
            data = data[:n]
            recs.append(([], pad_type, 1, 0, [("b", data)])); pos += 11 + len(data)
        glue = [(late, 1, 1, 300, [("b", b"\xc0\x00\x02\x01")]), (late, 28, 1, 300, [("b", bytes(16))])]
        for i in range(reuse):
            glue.append(([b"x%d" % i] + late[1:], 1, 1, 60, [("b", b"\x01\x02\x03\x04")]))
        return D.build_wire({"id": 0x4242, "flags": 0x8400, "q": [(q, 252, 1)], "an": recs, "ns": [], "ar": glue}, compress=True)

    def _expanding(self, k, rdata=b"\xc0\x00\x02\x01", ty=1):
        """a small, heavily compressed answer: a 255-byte question name and k records whose owner is a pointer to it;
        re-encoded without compression it has 12 + 259 + k * (265 + len(rdata)) bytes"""
        name = [b"a" * 63, b"b" * 63, b"c" * 63, b"d" * 61]
        return D.build_wire({"id": 0x1111, "flags": 0x8180, "q": [(name, ty, 1)],
                             "an": [(name, ty, 1, 60, [("b", rdata)]) for _ in range(k)], "ns": [], "ar": []}, compress=True)

    def _expanding_cases(self):
        # 242 records re-encode to 65369 bytes (fits a TCP frame), 243 to 65638 (does not): finding F-C26b
        for k in (242, 243, 300):
            m = hx(self._expanding(k))
            yield {"transport": "tcp", "dir": "s2c", "msgs_hex": [m]}
            yield {"transport": "tcp", "dir": "c2s", "msgs_hex": [m]}
            yield {"transport": "udp", "dir": "s2c", "msgs_hex": [m]}
        yield {"transport": "tcp", "dir": "s2c", "msgs_hex": [hx(self._expanding(2)), hx(self._expanding(250))]}

    def _large_cases(self):
        late = [b"ns1", b"dns-host", b"net"]
        for first_at in (16383, 16384, 16385, 16500, 20000, 33000):
            for reuse in (0, 2):
                m = self._large(first_at, late, reuse)
                yield {"transport": "tcp", "dir": "s2c", "msgs_hex": [hx(m)]}
                yield {"transport": "tcp", "dir": "c2s", "msgs_hex": [hx(m)]}
        yield {"transport": "udp", "dir": "s2c", "msgs_hex": [hx(self._large(16384, late, 1))]}
        yield {"transport": "tcp", "dir": "s2c", "msgs_hex": [hx(self._large(16384, [b"a", b"b", b"c", b"d"], 2, pad_type=10))]}

    def generate(self, rng, tier):
        # messages whose names first appear beyond the reach of a 14-bit compression pointer (offset >= 16384)
        for c in self._large_cases(): yield c
        for c in self._expanding_cases(): yield c
        while True:
            if rng.chance(0.004):    # small compressed messages whose uncompressed re-encoding is around / beyond 64 KiB
                yield {"transport": rng.pick(["tcp", "tcp", "udp"]), "dir": rng.pick(["c2s", "s2c"]),
                       "msgs_hex": [hx(self._expanding(rng.pick([200, 240, 242, 243, 244, 260, rng.randint(230, 400)]),
                                                       bytes(rng.getrandbits(8) for _ in range(rng.randint(0, 6))), rng.pick([1, 16, 99])))]}
                continue
            if rng.chance(0.03):     # the reference compressing encoder (Lean `cnames`) against the harness's Compressor
                base = [rng.pick(HOST + ODD) for _ in range(rng.randint(0, 3))]
                names = []
                for _ in range(rng.randint(1, 6)):
                    r = rng.randint(0, 9)
                    n = list(base) if r < 3 else [rng.pick(HOST)] + list(base) if r < 7 else [rng.pick(HOST + ODD) for _ in range(rng.randint(0, 4))]
                    names.append([hx(l) for l in n if 0 < len(l) < 64])
                yield {"kind": "cnames", "names": names}
                continue
            tr = rng.pick(["udp", "tcp"])
            if rng.chance(0.004 if tier == "quick" else 0.002):
                late = [rng.pick(HOST) for _ in range(rng.randint(1, 4))]
                yield {"transport": tr, "dir": rng.pick(["c2s", "s2c"]),
                       "msgs_hex": [hx(self._large(rng.pick([16000, 16383, 16384, rng.randint(16384, 40000)]), late, rng.randint(0, 3), rng.pick([16, 10, 99])))]}
                continue
            k = 1 if tr == "udp" or rng.chance(0.7) else rng.randint(2, 3)
            yield {"transport": tr, "dir": rng.pick(["c2s", "s2c"]), "msgs_hex": [hx(self._one(rng)) for _ in range(k)]}

    def exhaustive(self, tier):
        yield from self._large_cases()
        yield from self._expanding_cases()

    # ------------------------------------------------------------------ implementation: the real DNSLayer in the world
    @staticmethod
    def _ctx(transport):
        global _OPTS
        if _OPTS is None:
            _OPTS = options.Options(); Proxyserver().load(_OPTS)
        client = connection.Client(peername=("192.0.2.1", 51234), sockname=("127.0.0.1", 53), timestamp_start=1605699329,
                                   state=connection.ConnectionState.OPEN, transport_protocol=transport)
        ctx = context.Context(client, _OPTS)
        ctx.server = connection.Server(address=("192.0.2.53", 53), transport_protocol=transport)
        return ctx

    @staticmethod
    def _soliciting_query(reply: bytes):
        """the client query a server message answers: same id, same question section (uncompressed), nothing else"""
        r = D.ref_questions(reply)
        if r is None: return None
        id_, qs = r
        return struct.pack("!HHHHHH", id_, 0x0100, len(qs), 0, 0, 0) + b"".join(D.wire_name(l) + struct.pack("!HH", t, c) for l, t, c in qs)

    def impl(self, case):
        if case.get("kind") == "cnames":
            c = D.Compressor(True); offs = []
            for n in case["names"]:
                offs.append(len(c.buf)); c.name([unhx(l) for l in n])
            obs = {"state": "cnames", "out": [hx(bytes(c.buf))], "offs": offs}
            self._last = (json.dumps(case, sort_keys=True), obs)
            return obs
        tr = case["transport"]
        msgs = [unhx(h) for h in case["msgs_hex"]]
        data = b"".join(frame(m) for m in msgs) if tr == "tcp" else msgs[0]
        ctx = self._ctx(tr)
        w = W.World(dnslayer.DNSLayer(ctx), ctx)
        w.start()
        if case["dir"] == "c2s":
            w.recv("client", data); dest = "server0"
        else:
            # a reply is only handed on if it answers a pending query of this client (same id and question section,
            # that is C27): the client first asks exactly what each server message answers
            qs = [self._soliciting_query(m) for m in msgs]
            if any(q is None for q in qs) or len({q[:2] for q in qs}) != len(qs):
                # input-derived reasons: the specification cannot read the question section (no query to build) / two
                # replies carry one id (the second query would replace the first pending one)
                raise Skip()
            for q in qs:
                w.recv("client", frame(q) if tr == "tcp" else q)
            pre_ok = (not w.errors and "server0" in w.conns and not any(t[0] == "close" for t in w.trace)
                      and len([1 for lab, _ in w.sent_log if lab == "server0"]) == len(qs))
            if not pre_ok:
                if w.errors or all(D.deliverable(q) for q in qs):
                    # a crash is never acceptable, and a query made of plain host-name labels must be forwarded: this is
                    # a failure of the case, not a reason to look away
                    obs = {"state": ("crashed:" + w.errors[0][0]) if w.errors else "query-not-forwarded", "out": [], "other": [], "hooks": []}
                    self._last = (json.dumps(case, sort_keys=True), obs)
                    return obs
                raise Skip()              # odd labels the layer may legitimately refuse: nothing to answer
            w.sent_log.clear(); w.trace.clear()
            w.recv("server0", data); dest = "client"
        outs = [b for lab, b in w.sent_log if lab == dest]
        other = [b for lab, b in w.sent_log if lab != dest]
        hooks = [t[1] for t in w.trace if t[0] == "hook" and t[1].startswith("dns_")]
        closed = any(t[0] == "close" for t in w.trace)
        if w.errors: state = "crashed:" + w.errors[0][0]
        elif closed: state = "closed"
        else: state = "sent"
        if tr == "tcp": outs = [m for o in outs for m in unframe(o)] if all(len(o) >= 2 and struct.unpack_from("!H", o)[0] == len(o) - 2 for o in outs) else [b"<misframed>"]
        obs = {"state": state, "out": [hx(o) for o in outs], "other": [hx(o) for o in other], "hooks": hooks}
        self._last = (json.dumps(case, sort_keys=True), obs)
        return obs

    # ------------------------------------------------------------------ the property
    def oracle(self, case, obs):
        if obs["state"] == "cnames":
            # `reference_compressor_read` asked of the harness's encoder: the specification reads every name back
            buf, fails = unhx(obs["out"][0]), []
            for n, off in zip(case["names"], obs["offs"]):
                try:
                    got = D.ref_name(buf, off)[0]
                except D.RefError as e:
                    got = f"<{e}>"
                if got != [unhx(l) for l in n]: fails.append(f"compressor: name at {off} reads {got} instead of {n}")
            return fails
        if obs["state"].startswith("crashed"): return [f"the layer raised {obs['state'][8:]} while forwarding"]
        if obs["state"] == "query-not-forwarded":
            return ["the client's query for this reply (plain host-name labels) was not forwarded to the server"]
        fails = []
        msgs = [unhx(h) for h in case["msgs_hex"]]
        outs = [unhx(h) for h in obs["out"]]
        sizes_ok = case["transport"] == "udp" or all(0 < len(m) <= U16 for m in msgs)
        if obs["other"]: fails.append("data was sent to the side the message came from")
        if sizes_ok and (len(outs) > len(msgs) or (obs["state"] == "sent" and len(outs) != len(msgs))):
            fails.append(f"{len(msgs)} messages in, {len(outs)} out ({obs['state']})")
        if sizes_ok and len(outs) <= len(msgs):
            # the layer handles the messages in order and stops at the first one it cannot parse
            for i, (a, b) in enumerate(zip(msgs, outs)):
                ra = D.ref_view(a)
                # "delivered to the other side as a message that an independent DNS decoder reads identically"
                if ra != "err" and D.ref_view(b) != ra:
                    fails.append(f"message {i}: reference decoder reads {D.ref_view(b)[:300]} instead of {ra[:300]}")
        if sizes_ok and all(D.deliverable(m) for m in msgs) and (obs["state"] != "sent" or len(outs) != len(msgs)):
            fails.append(f"well-formed plain message(s) not delivered: {obs['state']}, {len(outs)} of {len(msgs)}")
        return fails

    # ------------------------------------------------------------------ model tie
    def _obs_for(self, case):
        key = json.dumps(case, sort_keys=True)
        if self._last and self._last[0] == key: return self._last[1]
        return self.impl(case)

    def model_lines(self, case):
        if case.get("kind") == "cnames":
            return ["cnames " + ",".join(".".join(n) if n else "-" for n in case["names"])]
        obs = self._obs_for(case)
        if obs["state"] == "query-not-forwarded": return None
        msgs = [unhx(h) for h in case["msgs_hex"]]
        if case["transport"] == "tcp" and not all(0 < len(m) <= U16 for m in msgs): return None
        data = b"".join(frame(m) for m in msgs) if case["transport"] == "tcp" else msgs[0]
        tbl = D.idna_table(msgs)
        # `live`: the executable precondition of `live_checked_is_forwarded` against its Python twin (small messages only)
        return [f"fwd {tbl} {case['transport']} {hx(data)}"] + [f"ref {h}" for h in case["msgs_hex"]] + [f"ref {h}" for h in obs["out"]] \
            + [f"live {h}" for h in case["msgs_hex"] if len(h) <= 8192]

    def model_obs(self, case, replies):
        return list(replies)

    def impl_view(self, case, obs):
        if obs["state"] == "cnames": return [obs["out"][0]]
        st = obs["state"].split(":")[0]
        if st == "crashed": f = "crashed"
        elif case["transport"] == "tcp": f = st + " " + (",".join(hx(frame(unhx(h))) for h in obs["out"]) or "-")
        else: f = st + " " + (",".join(obs["out"]) or "-")
        return [f] + [D.ref_view(unhx(h)) for h in case["msgs_hex"]] + [D.ref_view(unhx(h)) for h in obs["out"]] \
            + [("1" if D.live_twin(unhx(h)) else "0") for h in case["msgs_hex"] if len(h) <= 8192]

    # ------------------------------------------------------------------ evidence
    def classify(self, case, obs):
        if case.get("kind") == "cnames": return json.dumps(case, sort_keys=True) if case["names"] else None
        if all(D.ref_view(unhx(h)) == "err" for h in case["msgs_hex"]): return None
        return json.dumps(case, sort_keys=True)

    def branches(self, case, obs):
        if case.get("kind") == "cnames":
            return ["cnames:" + ("has-pointer" if any(c >= 0xC0 for c in unhx(obs["out"][0])) else "no-pointer")]
        out = [f"{case['transport']}:{case['dir']}:{obs['state'].split(':')[0]}"]
        for h in case["msgs_hex"]:
            b = unhx(h)
            r = D.ref_view(b)
            out.append("ref:" + r[:3].strip())
            if r != "err":
                if any(c >= 0xC0 for c in b[12:]): out.append("ref-ok:has-0xC0-bytes")
                if D.deliverable(b): out.append("ref-ok:deliverable")
                if D.ACE in b.lower(): out.append("ref-ok:ace")
        if obs["state"] == "sent" and any(len(unhx(a)) != len(unhx(b)) for a, b in zip(case["msgs_hex"], obs["out"])): out.append("sent:was-compressed")
        return out

    def neighbours(self, case, rng):
        if case.get("kind") == "cnames": return
        for j, h in enumerate(case["msgs_hex"]):
            b = unhx(h)
            for i in range(12, len(b)):
                for v in (0x00, 0xC0, 0x0C, 0x40, 0xFF, 0x2e):
                    c = dict(case); c["msgs_hex"] = list(case["msgs_hex"]); c["msgs_hex"][j] = hx(b[:i] + bytes([v]) + b[i + 1:]); yield c
