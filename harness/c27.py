"""C27 — DNS replies correspond to client queries; TCP framing ignores segmentation (mitmproxy/proxy/layers/dns.py)."""
import json, struct
from common.check import PropertyCheck
from common import world as W
import c25_dns as D
from c25_dns import hx, unhx
import c25 as C25

from mitmproxy import connection, options, dns, flow as mflow
from mitmproxy.addons.proxyserver import Proxyserver
from mitmproxy.proxy import context
from mitmproxy.proxy.layers import dns as dnslayer

_OPTS = None
NAMES = [[b"a", b"com"], [b"b", b"org"], [b"www", b"example", b"com"], [b"x"], [b"Mail", b"a", b"com"], []]
IDS = [1, 2, 5, 5, 5, 0xBEEF, 0, 65535]
QTYPES = [1, 28, 15, 16, 255]


def frame(b: bytes) -> bytes:
    return struct.pack("!H", len(b)) + b


def _qsec(labels, qtype, qs):
    """question section: `qs` = explicit list of (labels, qtype[, qclass]) — any length, 0 included — else the single question"""
    qs = [(labels, qtype)] if qs is None else list(qs)
    return qs, b"".join(D.wire_name(q[0]) + struct.pack("!HH", q[1], q[2] if len(q) > 2 else 1) for q in qs)


def mk_query(id_, labels, qtype=1, rd=1, opcode=0, flags_extra=0, qs=None, qdcount=None) -> bytes:
    flags = ((opcode & 15) << 11) | ((rd & 1) << 8) | flags_extra
    qs, sec = _qsec(labels, qtype, qs)
    return struct.pack("!HHHHHH", id_, flags, len(qs) if qdcount is None else qdcount, 0, 0, 0) + sec


def mk_reply(id_, labels, qtype=1, rcode=0, n_answers=1, rd=1, opcode=0, compress=True, qs=None, qdcount=None) -> bytes:
    flags = 0x8000 | ((opcode & 15) << 11) | ((rd & 1) << 8) | 0x80 | (rcode & 15)
    multi = qs is not None
    qs, sec = _qsec(labels, qtype, qs)
    owner = qs[0][0] if qs else [b"x"]
    b = struct.pack("!HHHHHH", id_, flags, len(qs) if qdcount is None else qdcount, n_answers, 0, 0) + sec
    for i in range(n_answers):
        # the pointer to offset 12 is the first question's name; without a question there is nothing to point to
        b += (b"\xc0\x0c" if compress and qs else D.wire_name(owner)) + struct.pack("!HHIH", 1, 1, 60, 4) + bytes([192, 0, 2, i + 1])
    return b


def walk_frames(stream: bytes):
    """length-prefixed frames of a stream: yields ("msg", bytes) ... and finally ("zero",) | ("partial",)"""
    i = 0
    while True:
        if len(stream) - i < 2:
            yield ("partial",); return
        n = struct.unpack_from("!H", stream, i)[0]
        if n == 0:
            yield ("zero",); return
        if len(stream) - i - 2 < n:
            yield ("partial",); return
        yield ("msg", stream[i + 2:i + 2 + n]); i += 2 + n


def ref_parts(buf: bytes):
    """independent decoder (DnsRef twin): (id, flags, question-section rendering, full rendering) or None"""
    try:
        s = D.ref_decode(buf)
    except D.RefError:
        return None
    hdr, qs = s.split(" ")[0:2]
    i, fl = hdr.split(",")
    return int(i), int(fl), qs, s


import re as _re
_PLAIN = _re.compile(rb"^[A-Za-z0-9_-]{1,63}$")


def qs_text(ref_qs):
    """question section: reference rendering (wire labels) -> the layer's text rendering (dotted name); None when a label
    is not a plain host-name label (L5: the text form of such labels is the idna codec's business)"""
    if ref_qs == "-": return "-"
    out = []
    for q in ref_qs.split(";"):
        w, t, c = q.split(":")
        b, labels, i = unhx(w), [], 0
        while b[i]:
            labels.append(b[i + 1:i + 1 + b[i]]); i += 1 + b[i]
        if not all(_PLAIN.match(l) and not l.lower().startswith(b"xn--") for l in labels): return None
        out.append(f"{hx(b'.'.join(labels))}:{t}:{c}")
    return ";".join(out)


LONG = [b"a" * 63, b"b" * 63, b"c" * 63, b"d" * 61]          # a 255-byte name


def expanded_size(buf: bytes):
    """length of the message re-encoded WITHOUT compression (what DNSMessage.packed writes), computed with the independent
    decoder: header + per question (expanded name + 4) + per record (expanded name + 10 + canonical data); None = unreadable"""
    try:
        s = D.ref_decode(buf)
    except D.RefError:
        return None
    _, qs, an, ns, ar = s.split(" ")
    n = 12
    if qs != "-":
        for q in qs.split(";"): n += len(unhx(q.split(":")[0])) + 4
    for sec in (an, ns, ar):
        if sec != "-":
            for r in sec.split(";"):
                f = r.split(":"); n += len(unhx(f[0])) + 10 + len(unhx(f[4]))
    return n


def mk_expanding(id_, n, reply=False) -> bytes:
    """a small message that expands: one question with a 255-byte name, then `n` more questions (query) resp. `n` A records
    (reply) whose names are a 2-byte pointer to it"""
    q0 = D.wire_name(LONG) + struct.pack("!HH", 1, 1)
    if reply:
        rr = b"\xc0\x0c" + struct.pack("!HHIH", 1, 1, 60, 4) + bytes([192, 0, 2, 1])
        return struct.pack("!HHHHHH", id_, 0x8180, 1, n, 0, 0) + q0 + rr * n
    return struct.pack("!HHHHHH", id_, 0x0100, n + 1, 0, 0, 0) + q0 + (b"\xc0\x0c" + struct.pack("!HH", 1, 1)) * n


class Check(PropertyCheck):
    prop = "C27"
    design_ref = "§5 C27"
    level_text = ("Lean theorems about an executable model of DNSLayer (flows keyed by message id, req_buf/resp_buf length "
                  "framing, request/response/error handlers with their hooks, OpenConnection incl. failed and killed attempts, "
                  "SERVFAIL synthesis, pack_message) on top of the C25 codec model, for EVERY event sequence, EVERY addon script "
                  "(pass / set response / clear response / set error, one action per hook) and EVERY script of connect outcomes: "
                  "`flow_has_query` (each flow handed to a dns_* hook has a request that the client sent at or before that point; "
                  "at dns_response its response is addon-made or has that query's id and question section), "
                  "`reply_answers_query` (+`_unmodified`, `reply_is_packed`: each message sent to the client is addon-made or has "
                  "id and question section of a query the client sent EARLIER on this connection), "
                  "`announced_queries_are_client_messages` (those queries are, in order, what the framing extracts from the "
                  "client's bytes), `servfail_fields`, `servfail_bytes` (the SERVFAIL of a decoded query encodes and decodes to "
                  "itself), `no_upstream_servfail`, `connect_failure_servfail`, `framer_lawful`/`frames_seg_independent`(`_whole`) "
                  "(messages + error extracted from a TCP stream do not depend on its segmentation; Basic/Seg `Incremental`), "
                  "`clientFeed_lawful`/`layer_seg_independent`/`reachable_stable` and `serverFeed_lawful`/"
                  "`layer_seg_independent_server`(`_whole`)/`reachable_stable_server` (hooks, bytes sent, closes and final state "
                  "of the whole layer do not depend on the segmentation of the client's stream, nor of the upstream server's "
                  "stream, for any pending queries and addon script), `run_coalesce`/`interleaved_seg_independent`/"
                  "`coalesce_segments` (any two schedules interleaving client segments, server segments and closes that carry "
                  "the same bytes between changes of direction are indistinguishable), `bad_length_closes`, "
                  "`bad_length_closes_server`, `done_is_final`, `stray_reply_ignored` (after EVERY history, upstream data in which no message "
                  "has id and question section of a query the client sent fires no hook and sends nothing; the state is untouched "
                  "except that the de-framer advances exactly as for solicited data), `upstream_reply_cases` (handled iff the flow "
                  "table holds a flow with that id and question section — first reply and duplicate alike), "
                  "`reply_with_other_question_section_ignored` (whole question lists are compared: count, order, name, type, class), `error_hook_then_servfail` / `failed_connect_then_error_hook` / `no_upstream_request_then_response_or_error` (EVERY history: each "
                  "failed or killed connect is directly followed by dns_error, each dns_request without upstream by dns_response or "
                  "dns_error, each dns_error by the SERVFAIL of the flow's decoded query, which always encodes), `layer_never_raises` "
                  "(no exception in any history if the addons' responses encode), `bad_length_closes_history`/`_server_history` (no "
                  "`crashed` alternative), `async_equals_sequential`/`async_quiescent`/`async_reply_answers_query`/"
                  "`async_flow_has_query` (transcription of Layer.handle_event/__process/__continue: for EVERY schedule of arrivals "
                  "and hook completions, emitted + owed = the sequential run; tied per arrival / per completion to the real Layer "
                  "with every dns hook deferred), `reply_provenance` / `unmodified_reply_answers_query` / `response_hook_provenance` (round 6, per MESSAGE: every reply is the SERVFAIL of the query being handled, or the response set by a `.respond` action consumed at a hook of THIS handling, or the "
                  "upstream message being handled, unchanged, which has id and question section of the stored query — the script-wide "
                  "disjunct `m in addonMsgs acts` of reply_answers_query / flow_has_query, which admitted seed c27-4's stale-response shape, "
                  "is no longer the strongest statement), `layer_raises_only_on_unencodable` (an exception leaves the layer only when a "
                  "message to be sent does not `Fit`: packed raises, or over TCP the encoding exceeds 65535 bytes), "
                  "`error_hook_then_servfail_udp`, `layer_never_raises_udp`, `buffered_server_segment_commutes`/`split_frame_around_query` (an upstream segment that completes no frame "
                  "commutes with the following client segment; a frame split around a client query = delivered whole after it). "
                  "The model is tied differentially to the real DNSLayer driven through harness/common/world.py.")
    level_note = ("trusted: Lean kernel; hand-written model tied differentially (per event: every dns hook with the flow's "
                  "request/response/error as the addon sees them, bytes sent to client and server, connect attempts and results, "
                  "closes, exceptions). The idna codec is a model parameter instantiated per case from the real codec. Client "
                  "and server use the same transport. Round 6: pack_message's struct.error for encodings longer than 65535 bytes over TCP is now an "
                  "explicit outcome of the model (`wireOf?`; before, `frame` wrapped the length silently): `error_hook_then_servfail` gained "
                  "the second outcome (exception when the SERVFAIL does not fit), `layer_never_raises` and `bad_length_closes*_history` "
                  "gained the hypothesis `DFits False c` (TCP: decoded messages re-encode within 65535 bytes; nothing over UDP) — the "
                  "former statements were true of the model for a wrong reason. The real code does raise there: finding F-C27e (same "
                  "root as F-C26b; code unchanged), generator kind `_oversize_cases` (just below / above the limit, query and reply, "
                  "TCP and UDP), classifier pinned by known_selftest. Addons are modelled by four actions per hook; they do not replace "
                  "flow.request. The pause-and-queue mechanism of Layer.handle_event is modelled (Model/C27_Async.lean) with the "
                  "suspended generator represented by the output it will still emit, cut after every hook (faithful because a paused "
                  "layer's state is touched by nobody else); OpenConnection is answered synchronously by the world, so only hooks "
                  "suspend in the tie. The "
                  "interleaving theorem keeps the relative order of client and server bytes at every change of direction "
                  "(moving a reply in front of its query is a different schedule, not a different segmentation). What the client decodes from forwarded upstream replies is "
                  "C26's theorem; here messages are compared before `pack` (`reply_is_packed` links them to the bytes). "
                  "Oracle: every expected value is derived from the case's inputs with an independent framing and the DnsRef twin "
                  "decoder; no Skip, no masked field in the tie. Lenient branches (each pinned by known_selftest with an "
                  "observation just outside it): L1 a client frame the reference decoder cannot read counts as a query with its "
                  "header id and unknown question section; L2 a message to the client is exempt from the id/question clause iff it "
                  "renders exactly (id included) as the response set by the addon action applied at a hook of this very message's "
                  "handling (not: by any action anywhere in the case — that let seed c27-4's stale addon response pass); L3 a crash is excused iff the "
                  "response about to be sent was set by an action with id > 65535; L4 a zero length prefix need not close iff an "
                  "earlier event already ended the layer; L5 question sections with a non-plain label are not compared between "
                  "the wire and the text rendering; L6 events the world did not deliver are not counted as sent. Bytes sent to "
                  "the SERVER are compared with the model only (the property does not speak about them).")
    technique = "Lean 4 proof (invariants over all schedules, Incremental segmentation law) + differential correspondence through the real DNSLayer"
    rule = ("query/reply schedules over UDP and TCP built from a small pool of ids (heavy id reuse), names and types: matching "
            "replies in any order, unsolicited ids, right id with a different question section, duplicated replies, "
            "retransmitted and re-used ids, connect failures, no upstream, addon actions in every hook, closes at any point, "
            "raw bytes; TCP streams re-segmented at random (frames cut, neighbours merged, other direction interleaved) and "
            "streams of valid frames followed by zero-length / over-long / undecodable frames with EVERY 2-split, "
            "plus stray upstream frames (duplicate, unknown id, other question) cut in two around a new client query, plus the id of a "
            "query used again after each way its flow can end (upstream reply, addon reply in dns_request / in dns_response, "
            "addon clear, addon error, no upstream, connect failure, still pending) x same / other question x UDP / TCP. Question "
            "sections hold 0, 1, 2 or 3 questions (other classes too): replies with the pending id whose section is equal / "
            "permuted / reversed / one question changed / shorter / longer / empty / other class (all enumerated first for 0..3 "
            "questions), QDCOUNT off by one. Every case "
            "is additionally re-run merged, byte-by-byte, with deferred hooks and (where an upstream segment completes no frame) "
            "with that segment and the following client segment exchanged. distinct = distinct case; non-trivial = at "
            "least one dns hook fired.")
    budget = {"quick": 2500, "thorough": 100000}
    time_budget = {"quick": 30, "thorough": 600}
    fingerprints = ["mitmproxy.proxy.layers.dns:DNSLayer.handle_request", "mitmproxy.proxy.layers.dns:DNSLayer.handle_response",
                    "mitmproxy.proxy.layers.dns:DNSLayer.handle_error", "mitmproxy.proxy.layers.dns:DNSLayer.unpack_message",
                    "mitmproxy.proxy.layers.dns:DNSLayer._unpack_messages", "mitmproxy.proxy.layers.dns:DNSLayer.state_query",
                    "mitmproxy.proxy.layers.dns:DNSLayer.state_done", "mitmproxy.proxy.layers.dns:DNSLayer.__init__",
                    "mitmproxy.proxy.layers.dns:pack_message", "mitmproxy.dns:DNSMessage.fail",
                    "mitmproxy.dns:DNSMessage.unpack", "mitmproxy.dns:DNSMessage.packed",
                    "mitmproxy.proxy.layer:Layer.handle_event", "mitmproxy.proxy.layer:Layer._Layer__process",
                    "mitmproxy.proxy.layer:Layer._Layer__continue"]
    trusted_base = C25.Check.trusted_base + ["harness/common/world.py as the stand-in for proxy/server.py's command interpreter",
                                             "mitmproxy.proxy.layer.Layer.handle_event queues events while a command is pending"]
    parallel = False
    case_timeout = 20              # a schedule takes milliseconds; in-process evaluation (the fork pool is slower here and stalls under load)

    def on_timeout(self, case):
        return [f"the layer did not finish handling the schedule within {self.case_timeout}s"]

    def translate(self):
        return C25.Check().translate()

    def setup(self, tier):
        self._last = None
        self.known_selftest()

    def known(self, case, obs, failure):
        """F-C27e exactly: the failure is the exception clause, over TCP, the exception is struct.error, and a message of the
        crashing event's direction delivered up to that event re-encodes (independent computation) to more than 65535 bytes"""
        mo = _re.match(r"event (\d+): an exception left the layer \(\[.*'crash:error'.*\]\)$", failure)
        if not mo or case["transport"] != "tcp": return None
        ei = int(mo.group(1))
        if ei >= len(case["events"]) or len(case["events"][ei]) != 2: return None
        d = case["events"][ei][0]
        stream = b"".join(unhx(e[1]) for i, e in enumerate(case["events"][:ei + 1]) if e[0] == d and len(e) == 2 and obs["delivered"][i])
        sizes = [expanded_size(f[1]) for f in walk_frames(stream) if f[0] == "msg"]
        return "F-C27e" if any(n is not None and n > 65535 for n in sizes) else None

    def known_selftest(self):
        """the oracle's lenient branches (L1–L6) are as narrow as stated: doctored observations just outside each must be
        rejected, the ones just inside accepted. Independent of the tree under test (the oracle never calls it)."""
        A, B = [b"a", b"com"], [b"b", b"org"]
        rq = lambda i, n, rd=1, op=0, t=1: f"[{i},1,{op},0,0,{rd},0,0,0 {hx(b'.'.join(n))}:{t}:1 - - -]"
        rs = lambda i, n, t=1: f"[{i},0,0,0,0,1,1,0,0 {hx(b'.'.join(n))}:{t}:1 - - -]"
        q1 = mk_query(1, A)
        sf = lambda i, n, rd=1: struct.pack("!HHHHHH", i, 0x8002 | (rd << 8), 1, 0, 0, 0) + D.wire_name(n) + struct.pack("!HH", 1, 1)
        X = mk_reply(1, A, compress=False)
        def ob(given, acts_at=None, delivered=None):
            return {"given": given, "delivered": delivered or [True] * len(given), "notes": [], "variants": {},
                    "acts_at": acts_at or [["p"] * sum(1 for x in it if x.startswith("hook ")) for it in given]}
        udp = lambda evs, acts=(), up=True: {"transport": "udp", "upstream": up, "events": evs, "acts": list(acts), "conns": ""}
        tcp = lambda evs, acts=(): {"transport": "tcp", "upstream": True, "events": evs, "acts": list(acts), "conns": ""}
        bad5 = b"\x00\x05" + b"\xff" * 12
        tests = [
            ("sanity: SERVFAIL of the query", udp([["c", hx(q1)]], up=False),
             ob([[f"hook dns_request {rq(1, A)} none 0", f"hook dns_error {rq(1, A)} none 1", "send client " + hx(sf(1, A))]]), None),
            ("L3 outside: crash although the oversized addon response was never applied", udp([["c", hx(q1)]], ["p", "p", "r=" + hx(X) + "@70000"]),
             ob([[f"hook dns_request {rq(1, A)} none 0", "open ok", "crash"]]), "exception left the layer"),
            ("L3 outside: crash after an upstream reply passed through", udp([["c", hx(q1)], ["s", hx(X)]], ["p", "p", "r=" + hx(X) + "@70000"]),
             ob([[f"hook dns_request {rq(1, A)} none 0", "open ok", "send server " + hx(q1)], [f"hook dns_response {rq(1, A)} {rs(1, A)} 0", "crash"]]),
             "exception left the layer"),
            ("L3 inside: oversized id set in dns_request", udp([["c", hx(q1)]], ["r=" + hx(X) + "@70000"]),
             ob([[f"hook dns_request {rq(1, A)} none 0", f"hook dns_response {rq(1, A)} {rs(70000, A)} 0", "crash"]], [["r=" + hx(X) + "@70000", "p"]]), None),
            ("L1 outside: unreadable client frame id 5 does not cover a reply with id 6", tcp([["c", hx(frame(bad5))]]),
             ob([["send client " + hx(frame(mk_reply(6, A)))]]), "answers none of its queries"),
            ("L1 inside: unknown question section for id 5", tcp([["c", hx(frame(bad5))]]),
             ob([["send client " + hx(frame(mk_reply(5, B)))]]), None),
            ("L2 outside: the addon's response under another id", udp([["c", hx(q1)]], ["r=" + hx(X)]),
             ob([[f"hook dns_request {rq(1, A)} none 0", f"hook dns_response {rq(1, A)} {rs(1, A)} 0", "send client " + hx(mk_reply(2, A, compress=False))]],
                [["r=" + hx(X), "p"]]), "answers none of its queries"),
            ("L2 outside (seed c27-4): the response an addon gave the FIRST query with id 1 is reported and sent again for a later query with id 1",
             udp([["c", hx(q1)], ["c", hx(mk_query(1, B, 28))]], ["r=" + hx(X)]),
             ob([[f"hook dns_request {rq(1, A)} none 0", f"hook dns_response {rq(1, A)} {rs(1, A)} 0", "send client " + hx(X)],
                 [f"hook dns_request {rq(1, B, t=28)} {rs(1, A)} 0", f"hook dns_response {rq(1, B, t=28)} {rs(1, A)} 0", "send client " + hx(X)]],
                [["r=" + hx(X), "p"], ["p", "p"]]), "pairs query"),
            ("L2 outside: an addon response (id 9) made for an earlier message is sent again later",
             udp([["c", hx(q1)], ["c", hx(mk_query(1, B, 28))]], ["r=" + hx(mk_reply(9, B, compress=False))]),
             ob([[f"hook dns_request {rq(1, A)} none 0", f"hook dns_response {rq(1, A)} {rs(9, B)} 0", "send client " + hx(mk_reply(9, B, compress=False))],
                 [f"hook dns_request {rq(1, B, t=28)} none 0", "open ok", "send server " + hx(mk_query(1, B, 28)), "send client " + hx(mk_reply(9, B, compress=False))]],
                [["r=" + hx(mk_reply(9, B, compress=False)), "p"], ["p"]]), "answers none of its queries"),
            ("L2 inside: response set in dns_request of this very message, other id and question",
             udp([["c", hx(q1)]], ["r=" + hx(mk_reply(9, B, compress=False))]),
             ob([[f"hook dns_request {rq(1, A)} none 0", f"hook dns_response {rq(1, A)} {rs(9, B)} 0", "send client " + hx(mk_reply(9, B, compress=False))]],
                [["r=" + hx(mk_reply(9, B, compress=False)), "p"]]), None),
            ("L4 outside: zero length prefix, only the other side closed in the same event", tcp([["c", hx(frame(q1) + b"\x00\x00")]]),
             ob([[f"hook dns_request {rq(1, A)} none 0", "open ok", "send server " + hx(frame(q1)), "close server"]]), "zero length prefix"),
            ("L4 inside: the layer had ended before", tcp([["c", hx(frame(q1))], ["sc"], ["c", "0000"]]),
             ob([[f"hook dns_request {rq(1, A)} none 0", "open ok", "send server " + hx(frame(q1))], ["close client"], []]), None),
            ("request the client never sent", udp([["c", hx(q1)]]),
             ob([[f"hook dns_request {rq(2, B)} none 0", "open ok", "send server " + hx(mk_query(2, B))]]), "the client never sent"),
            ("L6 outside: an undelivered datagram is not a query", udp([["c", hx(q1)]]),
             ob([[f"hook dns_request {rq(1, A)} none 0"]], delivered=[False]), "the client never sent"),
            ("second dns_request announces the first message again", udp([["c", hx(q1)], ["c", hx(mk_query(2, B))]]),
             ob([[f"hook dns_request {rq(1, A)} none 0"], [f"hook dns_request {rq(1, A)} none 0"]]), "dns_request #1 announces"),
            ("SERVFAIL agrees with the reported flow but not with the bytes the client sent (RD)", udp([["c", hx(q1)]], up=False),
             ob([[f"hook dns_request {rq(1, A, rd=0)} none 0", f"hook dns_error {rq(1, A, rd=0)} none 1", "send client " + hx(sf(1, A, rd=0))]]),
             "keeps id/questions/opcode/RD of none"),
            ("L5 outside: plain question sections are compared", udp([["c", hx(q1)], ["s", hx(mk_reply(1, B))]]),
             ob([[f"hook dns_request {rq(1, A)} none 0", "open ok", "send server " + hx(q1)],
                 [f"hook dns_response {rq(1, A)} {rs(1, B)} 0", "send client " + hx(mk_reply(1, B))]]), "pairs query"),
            ("flow without request", udp([["c", hx(q1)], ["s", hx(mk_reply(77, A))]]),
             ob([[f"hook dns_request {rq(1, A)} none 0", "open ok", "send server " + hx(q1)],
                 [f"hook dns_response none {rs(77, A)} 0", "send client " + hx(mk_reply(77, A))]]), "without request"),
        ]
        # classifier of F-C27e: positive witness and near misses (other transport, size just below, other exception, other clause)
        big, small = mk_expanding(3, 252), mk_expanding(3, 251)
        crash = lambda note: {"given": [["hook dns_request x none 0", "open ok", "crash"]], "delivered": [True], "notes": [note], "variants": {}, "acts_at": [["p"]]}
        msg = lambda note: f"event 0: an exception left the layer (['{note}'])"
        for case, obs, failure, want in [
                (tcp([["c", hx(frame(big))]]), crash("crash:error"), msg("crash:error"), "F-C27e"),
                (udp([["c", hx(big)]]), crash("crash:error"), msg("crash:error"), None),
                (tcp([["c", hx(frame(small))]]), crash("crash:error"), msg("crash:error"), None),
                (tcp([["c", hx(frame(big))]]), crash("crash:ValueError"), msg("crash:ValueError"), None),
                (tcp([["c", hx(frame(big))]]), crash("crash:error"), "event 0: dns_error is not followed by a reply to the client", None),
                (tcp([["c", hx(frame(big))], ["c", hx(frame(q1))]]), {**crash("crash:error"), "delivered": [False, True]},
                 "event 1: an exception left the layer (['crash:error'])", None)]:
            got = self.known(case, obs, failure)
            assert got == want, f"known_selftest: {failure!r} classified {got}, expected {want}"
        assert expanded_size(big) == 65539 and expanded_size(small) == 65280
        for name, case, obs, want in tests:
            got = self.oracle(case, obs)
            if want is None:
                assert not got, f"oracle selftest '{name}': should be accepted, got {got}"
            else:
                assert any(want in g for g in got), f"oracle selftest '{name}': should be rejected with '{want}', got {got}"

    # ------------------------------------------------------------------ generators
    def _acts(self, rng, n, heavy):
        out = []
        for _ in range(n):
            if not heavy and rng.chance(0.75): out.append("p"); continue
            r = rng.randint(0, 9)
            if r < 4: out.append("p")
            elif r < 6:
                b = mk_reply(rng.pick(IDS), rng.pick(NAMES), rng.pick(QTYPES), rcode=rng.pick([0, 0, 3]), n_answers=rng.randint(0, 2), compress=False)
                out.append("r=" + hx(b) + ("@70000" if rng.chance(0.04) else ("@%d" % rng.pick(IDS) if rng.chance(0.2) else "")))
            elif r < 7: out.append("x")
            else: out.append("e")
        return out

    def _qs(self, rng, single=0.7):
        """a question section: mostly one question; else 0, 2 or 3 (other classes too)"""
        if rng.chance(single): return [(rng.pick(NAMES), rng.pick(QTYPES))]
        return [(rng.pick(NAMES), rng.pick(QTYPES)) + ((rng.pick([1, 3, 255]),) if rng.chance(0.2) else ()) for _ in range(rng.pick([0, 0, 2, 2, 3]))]

    def _qs_variant(self, rng, qs):
        """a question section that differs from `qs`: permuted, one question changed, shorter, longer, empty, other class"""
        qs = list(qs)
        for _ in range(8):
            k = rng.randint(0, 6)
            if k == 0 and len(qs) > 1: v = qs[1:] + qs[:1]
            elif k == 1 and qs:
                j = rng.randint(0, len(qs) - 1); v = qs[:j] + [(rng.pick(NAMES), rng.pick(QTYPES))] + qs[j + 1:]
            elif k == 2 and qs: v = qs[:-1]
            elif k == 3: v = qs + [(rng.pick(NAMES), rng.pick(QTYPES))]
            elif k == 4: v = []
            elif k == 5 and qs:
                j = rng.randint(0, len(qs) - 1); v = qs[:j] + [(qs[j][0], qs[j][1], 3)] + qs[j + 1:]
            elif k == 6 and len(qs) > 1: v = list(reversed(qs))
            else: v = [(rng.pick(NAMES), rng.pick(QTYPES))] * rng.pick([2, 3])
            if [tuple(q) + ((1,) if len(q) == 2 else ()) for q in v] != [tuple(q) + ((1,) if len(q) == 2 else ()) for q in qs]: return v
        return qs + [([b"zz"], 1)]

    def _schedule(self, rng):
        """message-level schedule: list of (dir, bytes | None for a close)"""
        evs, pending, sent_replies = [], [], []
        n = rng.randint(1, 7)
        multi = 0.7 if rng.chance(0.5) else 0.97
        for _ in range(n):
            r = rng.randint(0, 99)
            if r < 42 or not pending and r < 70:
                i, qs = rng.pick(IDS), self._qs(rng, multi)
                if pending and rng.chance(0.25): i, qs = rng.pick(pending)              # retransmission
                elif pending and rng.chance(0.25): i = rng.pick(pending)[0]             # same id, another question section
                evs.append(("c", mk_query(i, None, rd=rng.randint(0, 1), opcode=rng.pick([0, 0, 0, 2, 5]), qs=qs,
                                          qdcount=(len(qs) + rng.pick([-1, 1]) if qs and rng.chance(0.03) else None))))
                pending.append((i, qs))
            elif r < 72 and pending:
                i, qs = rng.pick(pending)
                b = mk_reply(i, None, rcode=rng.pick([0, 0, 0, 3, 2]), n_answers=rng.randint(0, 2), compress=rng.chance(0.7), qs=qs)
                evs.append(("s", b)); sent_replies.append(b)
                if rng.chance(0.8): pending.remove((i, qs))
            elif r < 78:                                                                  # unsolicited id
                evs.append(("s", mk_reply(rng.pick([7, 77, 4242] + IDS), None, qs=self._qs(rng, multi))))
            elif r < 84 and pending:                                                      # right id, other question section
                i, qs = rng.pick(pending)
                evs.append(("s", mk_reply(i, None, n_answers=rng.randint(0, 1), qs=self._qs_variant(rng, qs),
                                          qdcount=(1 if rng.chance(0.03) else None))))
            elif r < 88 and sent_replies:
                evs.append(("s", rng.pick(sent_replies)))                                 # duplicated reply
            elif r < 91:
                evs.append((rng.pick(["c", "s"]), mk_reply(rng.pick(IDS), rng.pick(NAMES)) if rng.chance(0.5) else rng.bytes_(rng.randint(0, 30))))
            elif r < 94:
                b = bytearray(mk_query(rng.pick(IDS), rng.pick(NAMES)))
                b[rng.randint(0, len(b) - 1)] = rng.getrandbits(8)
                evs.append((rng.pick(["c", "c", "s"]), bytes(b)))
            elif r < 97: evs.append(("cc", None))
            else: evs.append(("sc", None))
        return evs

    def _multiq_cases(self, rng):
        """a pending query with 0..3 questions x an upstream message with its id whose question section is equal / permuted /
        one question changed / shorter / longer / empty / other class x UDP/TCP (the matching must compare the whole list)"""
        base = [(NAMES[0], 1), (NAMES[1], 28), (NAMES[2], 15)]
        for k in range(4):
            qs = base[:k]
            variants = [qs, qs[1:] + qs[:1], qs[:-1], qs + [(NAMES[3], 1)], [], [(q[0], q[1], 3) for q in qs],
                        [(NAMES[4], 16)] + qs[1:], [(NAMES[4], 16)] * 2, list(reversed(qs))]
            for v in variants:
                for tr in ("udp", "tcp"):
                    w = (lambda b: hx(frame(b))) if tr == "tcp" else hx
                    yield {"transport": tr, "upstream": True, "conns": "", "acts": [],
                           "events": [["c", w(mk_query(5, None, qs=qs))], ["s", w(mk_reply(5, None, n_answers=rng.randint(0, 1), qs=v))],
                                      ["s", w(mk_reply(5, None, n_answers=0, qs=qs))]]}

    def _segment(self, rng, transport, evs):
        if transport == "udp":
            return [[k] if b is None else [k, hx(b)] for k, b in evs]
        out = []
        for k, b in evs:
            if b is None: out.append([k, None]); continue
            f = frame(b) if 0 < len(b) <= 65535 else (b"\x00\x00" if rng.chance(0.5) else b)
            if rng.chance(0.06): f = rng.pick([b"\x00\x00", b"\x00", struct.pack("!H", len(b) + rng.randint(1, 3)) + b, f[:-1], f + b"\x00"])
            out.append([k, f])
        # cut frames (the halves may be separated by the next event of the other direction) and merge neighbours
        cut = []
        carry = {}
        for k, f in out:
            if f is None:
                cut.append([k, None]); continue
            f = carry.pop(k, b"") + f
            if len(f) > 1 and rng.chance(0.3):
                p = rng.randint(1, len(f) - 1)
                cut.append([k, f[:p]])
                if rng.chance(0.5): carry[k] = f[p:]
                else: cut.append([k, f[p:]])
            else: cut.append([k, f])
        for k, f in carry.items(): cut.append([k, f])
        merged = []
        for k, f in cut:
            if f is not None and merged and merged[-1][0] == k and merged[-1][1] is not None and rng.chance(0.3):
                merged[-1][1] += f
            else: merged.append([k, f])
        return [[k] if f is None else [k, hx(f)] for k, f in merged]

    def _case(self, rng):
        tr = rng.pick(["udp", "tcp", "tcp"])
        evs = self._schedule(rng)
        nq = sum(1 for k, _ in evs if k == "c")
        return {"transport": tr, "upstream": not rng.chance(0.12), "events": self._segment(rng, tr, evs),
                "acts": self._acts(rng, rng.randint(0, 2 * nq + 2), rng.chance(0.3)),
                "conns": "".join(rng.pick("1110") for _ in range(rng.randint(0, 3)))}

    SHORT = [[b"a"], [b"b", b"c"], []]

    def _framing_streams(self, m1, m2):
        """streams: valid frames followed by a malformed tail"""
        bad = b"\xff" * 12 + b"\x01"
        tails = [b"\x00\x00", b"\x00\x00\x01\x02", frame(bad), frame(m1)[:-1], struct.pack("!H", len(m2) + 3) + m2, b"\x00", frame(m2) + b"\x00\x00"]
        for t in tails:
            yield frame(m1) + t
        yield frame(m1) + frame(m2) + b"\x00\x00"
        yield b"\x00\x00" + frame(m1)
        yield frame(bad) + frame(m1)

    def _split_cases(self, rng=None):
        pick = (lambda s: s[0]) if rng is None else rng.pick
        n1, n2 = pick(self.SHORT), pick(self.SHORT[1:] + self.SHORT[:1])
        q1, q2 = mk_query(1, n1), mk_query(2, n2, 28)
        for dirn in ("c", "s"):
            pre = [] if dirn == "c" else [["c", hx(frame(q1) + frame(q2))]]
            m1, m2 = (q1, q2) if dirn == "c" else (mk_reply(1, n1, n_answers=0), mk_reply(2, n2, 28, n_answers=0))
            for stream in self._framing_streams(m1, m2):
                for p in range(0, len(stream) + 1):
                    segs = [s for s in (stream[:p], stream[p:]) if s]
                    yield {"transport": "tcp", "upstream": True, "events": pre + [[dirn, hx(s)] for s in segs], "acts": [], "conns": ""}

    def _stray_case(self, rng):
        """an upstream frame nobody waits for (duplicate, unknown id, other question), cut in two around a new client query"""
        n1, n2 = rng.pick(NAMES), rng.pick(NAMES)
        i1, i2 = rng.pick([1, 5]), rng.pick([2, 5])
        q1, q2 = mk_query(i1, n1), mk_query(i2, n2, 28)
        r1, r2 = mk_reply(i1, n1), mk_reply(i2, n2, 28, n_answers=rng.randint(0, 2))
        stray = frame(rng.pick([r1, mk_reply(77, n1), mk_reply(i1, rng.pick(NAMES), 15), mk_reply(i2, n2, 28)]))
        k = rng.randint(1, len(stray) - 1)
        evs = [["c", hx(frame(q1))], ["s", hx(frame(r1))], ["s", hx(stray[:k])], ["c", hx(frame(q2))]]
        tail = stray[k:] + frame(r2)
        evs += [["s", hx(tail)]] if rng.chance(0.5) else [["s", hx(x)] for x in rng.split(tail)]
        if rng.chance(0.2): evs.pop(1)
        return {"transport": "tcp", "upstream": True, "events": evs, "acts": self._acts(rng, rng.randint(0, 3), False), "conns": ""}

    ENDINGS = ["upstream", "addon-request", "addon-response", "addon-clear", "addon-error", "no-upstream", "connect-fail", "pending"]

    def _reuse_case(self, rng, ending=None, same=None, tr=None):
        """the id of a query is used again after each way its flow can end (or while it is pending), with the same or
        another question; then the upstream answers the new query and (sometimes) repeats its answer to the old one"""
        ending = ending or rng.pick(self.ENDINGS)
        same = rng.chance(0.35) if same is None else same
        tr = tr or rng.pick(["udp", "tcp"])
        i = rng.pick([1, 5, 7])
        n1 = rng.pick(NAMES); t1 = rng.pick(QTYPES)
        n2, t2 = (n1, t1) if same else (rng.pick([n for n in NAMES if n != n1]), rng.pick(QTYPES))
        q1, q2 = mk_query(i, n1, t1), mk_query(i, n2, t2, rd=rng.randint(0, 1))
        r1, r2 = mk_reply(i, n1, t1), mk_reply(i, n2, t2, n_answers=rng.randint(0, 2))
        addon = "r=" + hx(mk_reply(i, n1, t1, n_answers=2, compress=False))
        evs, acts, conns, up = [("c", q1)], [], "", True
        if ending == "upstream": evs.append(("s", r1)); acts = ["p", "p"]
        elif ending == "addon-request": acts = [addon, "p"]
        elif ending == "addon-response": evs.append(("s", r1)); acts = ["p", addon]
        elif ending == "addon-clear": evs.append(("s", r1)); acts = ["p", "x"]
        elif ending == "addon-error": acts = ["e", "p"]
        elif ending == "no-upstream": up = False; acts = ["p", "p"]
        elif ending == "connect-fail": conns = "0"; acts = ["p", "p"]
        else: acts = ["p"]
        evs.append(("c", q2))
        if up and ending not in ("connect-fail",):
            tail = [("s", r2)]
            if rng.chance(0.4): tail.insert(rng.randint(0, 1), ("s", r1))          # late / repeated answer to the old query
            evs += tail
        if rng.chance(0.3): evs.append(("c", mk_query(i, n1, t1)))                 # and once more
        acts += self._acts(rng, rng.randint(0, 2), False)
        return {"transport": tr, "upstream": up, "events": self._segment(rng, tr, evs) if rng.chance(0.5) else
                [[k, hx(frame(b) if tr == "tcp" else b)] for k, b in evs], "acts": acts, "conns": conns}

    def _oversize_cases(self, rng=None):
        """TCP/UDP messages whose uncompressed re-encoding is just below / just above the 65535 bytes of the TCP length prefix
        (F-C27e): a query forwarded upstream, a reply forwarded to the client"""
        pick = (lambda s: s[0]) if rng is None else rng.pick
        for tr in ("tcp", "udp"):
            w = (lambda b: hx(frame(b))) if tr == "tcp" else hx
            for n in ((251, 252) if rng is None else (pick([200, 250, 251]), pick([252, 253, 300]))):
                # query: 12 + (n + 1) * 259 bytes expanded
                yield {"transport": tr, "upstream": True, "conns": "", "acts": [],
                       "events": [["c", w(mk_expanding(3, n))], ["c", w(mk_query(4, [b"a", b"com"]))]]}
            for n in ((242, 243) if rng is None else (pick([100, 242]), pick([243, 300]))):
                # reply: 12 + 259 + n * 269 bytes expanded
                yield {"transport": tr, "upstream": True, "conns": "", "acts": [],
                       "events": [["c", w(mk_query(3, LONG))], ["s", w(mk_expanding(3, n, reply=True))], ["c", w(mk_query(4, [b"a", b"com"]))]]}

    def generate(self, rng, tier):
        for c in self._split_cases(None):
            yield c
        for c in self._oversize_cases(None):
            yield c
        for c in self._multiq_cases(rng):
            yield c
        for ending in self.ENDINGS:
            for same in (False, True):
                for tr in ("udp", "tcp"):
                    yield self._reuse_case(rng, ending, same, tr)
        while True:
            if rng.chance(0.10):
                yield self._reuse_case(rng)
            elif rng.chance(0.01):
                yield rng.pick(list(self._oversize_cases(rng)))
            elif rng.chance(0.07):
                yield self._stray_case(rng)
            elif rng.chance(0.08):
                cs = list(self._split_cases(rng))
                for _ in range(8): yield rng.pick(cs)
            else:
                yield self._case(rng)

    # ------------------------------------------------------------------ implementation: the real DNSLayer in the world
    @staticmethod
    def _ctx(transport, upstream):
        global _OPTS
        if _OPTS is None:
            _OPTS = options.Options(); Proxyserver().load(_OPTS)
        client = connection.Client(peername=("192.0.2.1", 51234), sockname=("127.0.0.1", 53), timestamp_start=1605699329,
                                   state=connection.ConnectionState.OPEN, transport_protocol=transport)
        ctx = context.Context(client, _OPTS)
        ctx.server = connection.Server(address=("192.0.2.53", 53) if upstream else None, transport_protocol=transport)
        return ctx

    @staticmethod
    def _rm(m):
        return "none" if m is None else "[" + D.render_msg(m) + "]"

    def _run(self, case, events, burst=False, steps=None):
        """-> (per-event item lists, delivered flags, notes).
        steps (a list to fill): asynchronous mode for the tie with the model of Layer.handle_event — EVERY dns hook is deferred,
        consecutive client segments arrive back to back, then the pending hooks are completed one at a time; each arrival and
        each completion is recorded as (driver line, items emitted by that very call)."""
        ctx = self._ctx(case["transport"], case["upstream"])
        acts, conns = list(case["acts"]), list(case["conns"])
        rendered, applied, notes = {}, {}, set()
        state = {"defer": False}

        def on_hook(w, h):
            if not h.name.startswith("dns_"): return None
            f = h.flow
            rendered[id(h)] = f"hook {h.name} {self._rm(getattr(f, 'request', None))} {self._rm(f.response)} {1 if f.error else 0}"
            a = acts.pop(0) if acts else "p"
            applied[id(h)] = a
            if a == "x": f.response = None
            elif a == "e": f.error = mflow.Error("set by addon")
            elif a.startswith("r="):
                h_, _, i_ = a[2:].partition("@")
                m = dns.DNSMessage.unpack(unhx(h_))
                if i_: m.id = int(i_)
                f.response = m
            return "defer" if state["defer"] else None

        def on_connect(w, cmd):
            ok = (conns.pop(0) == "1") if conns else True
            w.trace.append(("openres", ok))
            return None if ok else "connect failed"

        w = W.World(dnslayer.DNSLayer(ctx), ctx, on_hook=on_hook, on_connect=on_connect)
        w.start()
        pos = len(w.trace)
        per_event, delivered, acts_at = [], [], []

        def collect():
            nonlocal pos
            items, opening = [], False
            hook_acts.clear()
            for t in w.trace[pos:]:
                if t[0] == "open": opening = True
                elif t[0] == "openres":
                    items.append("open ok" if t[1] else "open fail"); opening = False
                elif opening and (t[0] == "send" or t[0] == "hook" and id(t[2]) in rendered):
                    # server.py open_connection: the server object carries the error of an earlier attempt
                    items.append("open killed"); opening = False
                if t[0] == "hook":
                    if id(t[2]) in rendered:
                        items.append(rendered[id(t[2])]); hook_acts.append(applied[id(t[2])])
                elif t[0] == "send": items.append(f"send {'client' if t[1] == 'client' else 'server'} {hx(t[2])}")
                elif t[0] == "close": items.append(f"close {'client' if t[1] == 'client' else 'server'}")
                elif t[0] == "log" and "matches no query" in t[2]: notes.add("reply-dropped")
                elif t[0] == "log" and "invalid message" in t[2]: notes.add("invalid-message")
            pos = len(w.trace)
            return items

        crashed = False
        hook_acts = []
        i = 0
        while i < len(events):
            if crashed:
                per_event.append([]); delivered.append(False); acts_at.append([]); i += 1; continue
            ev = events[i]
            j = i + 1
            if burst and ev[0] == "c":
                while j < len(events) and events[j][0] == "c": j += 1
            group = events[i:j]
            state["defer"] = burst and (len(group) > 1 or steps is not None)
            for e in group:
                k = e[0]
                if k == "c": d = w.recv("client", unhx(e[1]))
                elif k == "s": d = "server0" in w.conns and w.recv("server0", unhx(e[1]))
                elif k == "cc": d = w.peer_close("client")
                else: d = "server0" in w.conns and w.peer_close("server0")
                delivered.append(bool(d))
                if len(group) > 1: per_event.append([]); acts_at.append([])
                if steps is not None:
                    steps.append(("a " + " ".join(e), collect() + (["crash"] if w.errors else [])))
                    if w.errors: return None
            if steps is not None:
                while w.deferred_hooks:
                    w.resume(w.deferred_hooks[0])
                    steps.append(("a done", collect() + (["crash"] if w.errors else [])))
                    if w.errors: return None
                steps.append(("a idle?", ["idle"]))
                i = j
                continue
            if state["defer"]:
                state["defer"] = False
                while w.deferred_hooks and not w.errors:
                    w.resume(w.deferred_hooks[0])
            items = collect()
            if w.errors:
                items.append("crash"); crashed = True
                notes.add("crash:" + w.errors[0][0])
            if len(group) > 1: per_event[-1] = items; acts_at[-1] = list(hook_acts)
            else: per_event.append(items); acts_at.append(list(hook_acts))
            i = j
        self._acts_at = acts_at
        return per_event, delivered, sorted(notes)

    @staticmethod
    def _commutable(case, delivered):
        """index i of the first delivered upstream segment that (by the independent framing of the upstream's bytes)
        completes no frame and is directly followed by a client segment; None if there is none"""
        if case["transport"] != "tcp": return None
        evs, stream = case["events"], b""
        for i, e in enumerate(evs):
            if e[0] != "s" or len(e) != 2 or not delivered[i]: continue
            before = list(walk_frames(stream)); stream += unhx(e[1]); after = list(walk_frames(stream))
            if before[-1][0] == "zero": return None
            if len(after) == len(before) and after[-1][0] == "partial" and i + 1 < len(evs) and evs[i + 1][0] == "c" and len(evs[i + 1]) == 2:
                return i
        return None

    @staticmethod
    def _merge(events):
        out = []
        for e in events:
            if len(e) == 2 and out and out[-1][0] == e[0] and len(out[-1]) == 2:
                out[-1] = [e[0], hx(unhx(out[-1][1]) + unhx(e[1]))]
            else: out.append(list(e))
        return out

    @staticmethod
    def _bytewise(events):
        out = []
        for e in events:
            if len(e) == 2:
                b = unhx(e[1])
                if 1 < len(b) <= 160: out.extend([e[0], hx(b[i:i + 1])] for i in range(len(b)))
                elif len(b) > 160: out.extend([[e[0], hx(b[:len(b) // 3])], [e[0], hx(b[len(b) // 3:])]])
                else: out.append(list(e))
            else: out.append(list(e))
        return out

    def impl(self, case):
        events = case["events"]
        given, delivered, notes = self._run(case, events)
        acts_at = self._acts_at
        flat = lambda pe: [x for it in pe for x in it]
        variants = {}
        if case["transport"] == "tcp":
            variants["merged"] = flat(self._run(case, self._merge(events))[0])
            variants["bytewise"] = flat(self._run(case, self._bytewise(events))[0])
        if any(a[0] == "c" and b[0] == "c" for a, b in zip(events, events[1:])):
            variants["burst"] = flat(self._run(case, events, burst=True)[0])
        sw = self._commutable(case, delivered)
        if sw is not None:
            # Props `buffered_server_segment_commutes`: an upstream segment that completes no frame may change places with
            # the client segment that follows it
            variants["commuted"] = flat(self._run(case, events[:sw] + [events[sw + 1], events[sw]] + events[sw + 2:])[0])
        steps = []
        self._run(case, events, burst=True, steps=steps)
        obs = {"given": given, "delivered": delivered, "notes": notes, "variants": variants, "acts_at": acts_at,
               "async": [[ln, it] for ln, it in steps]}
        self._last = (json.dumps(case, sort_keys=True), obs)
        return obs

    # ------------------------------------------------------------------ the property
    # Every expected value below is derived from the case's INPUTS (bytes delivered, addon script) with the independent framing
    # `walk_frames` and the independent decoder `ref_parts`; nothing in the oracle calls the code under test.
    # Lenient branches (each exercised by known_selftest with an observation just outside it):
    #  L1 a client frame the reference decoder cannot read counts as a query with its header id and UNKNOWN question section
    #     (the codec may read more than the reference: C25/C26's subject) — only the question comparison is waived, only for that id;
    #  L2 a message sent to the client (a response reported at dns_response) is exempt from the id/question clause iff it renders
    #     exactly (id included) as the response set by the addon action applied at a hook of THIS message's handling (the
    #     dns_response hook directly in front of the send, or the dns_request hook directly in front of that);
    #  L3 a crash is excused iff the response about to be sent was set by an action `r=…@<id > 65535>` (the addon's fault);
    #  L4 a zero length prefix need not close its connection iff an EARLIER event already ended the layer (close / crash);
    #  L5 a question section with a label that is not a plain host-name label is not compared between the two renderings;
    #  L6 events the world did not deliver (connection closed / server not yet open) are not counted as sent.
    def _client_queries(self, case, upto, delivered=None):
        """what the client sent on this connection up to event `upto`: list of dicts id / qs (reference rendering | None, L1) /
        qt (text rendering | None, L5) / opcode / rd — from the raw bytes only"""
        datas = [unhx(e[1]) for i, e in enumerate(case["events"][:upto + 1]) if e[0] == "c" and (delivered is None or delivered[i])]
        msgs = []
        if case["transport"] == "udp": msgs = datas
        else:
            for f in walk_frames(b"".join(datas)):
                if f[0] == "msg": msgs.append(f[1])
        out = []
        for b in msgs:
            if len(b) < 12: continue                          # no decoder reads a message without a complete header
            i, fl = struct.unpack_from("!HH", b)
            r = ref_parts(b)
            out.append({"id": i, "qs": r[2] if r else None, "qt": qs_text(r[2]) if r else None, "opcode": (fl >> 11) & 15, "rd": (fl >> 8) & 1})
        return out

    @staticmethod
    def _act_id(a):
        h_, _, i_ = a[2:].partition("@")
        return int(i_) if i_ else None

    @staticmethod
    def _response_setter(items, k, acts):
        """L2: the action `r=…` that put the response into the flow which items[k] reports (hook dns_response: the response as
        the hook sees it) or sends (send client) — looking only at the hooks of THIS message's handling, i.e. the hooks
        directly in front of items[k]; None when the response does not come from an addon action applied there
        (an upstream reply, a SERVFAIL, or — the point of seed c27-4 — a response some earlier flow was given)"""
        hooks = [(j, it.split(" ")[1]) for j, it in enumerate(items[:k]) if it.startswith("hook ")]
        if len(acts) < len(hooks): return None
        at = lambda n: (hooks[n][0], hooks[n][1], acts[len(hooks) + n]) if -len(hooks) <= n < 0 else (None, None, None)
        if items[k].startswith("hook dns_response"):
            j1, h1, a1 = at(-1)
            return a1 if j1 == k - 1 and h1 == "dns_request" and a1.startswith("r=") else None
        j2, h2, a2 = at(-1)
        if j2 != k - 1 or h2 != "dns_response": return None
        if a2.startswith("r="): return a2
        if a2 == "x": return None
        j1, h1, a1 = at(-2)
        return a1 if j1 == k - 2 and h1 == "dns_request" and a1.startswith("r=") else None

    def _act_render(self, a):
        r = ref_parts(unhx(a[2:].partition("@")[0]))
        if r is None: return None, None
        i = self._act_id(a)
        full = r[3] if i is None else str(i) + r[3][r[3].index(","):]
        return full, (r[0] if i is None else i, qs_text(r[2]))

    @staticmethod
    def _crash_excused(items, k, acts):
        """L3: items[k] == 'crash'; acts = the actions applied at the hooks of this event, in hook order"""
        hooks = [(j, it.split(" ")[1]) for j, it in enumerate(items[:k]) if it.startswith("hook ")]
        if not hooks or len(acts) < len(hooks): return False
        big = lambda a: a.startswith("r=") and "@" in a and int(a.rpartition("@")[2]) > 65535
        j2, h2 = hooks[-1]; a2 = acts[len(hooks) - 1]
        if j2 != k - 1 or h2 != "dns_response": return False
        if a2.startswith("r="): return big(a2)
        if a2 == "x": return False
        if len(hooks) < 2: return False
        j1, h1 = hooks[-2]; a1 = acts[len(hooks) - 2]
        return j1 == k - 2 and h1 == "dns_request" and big(a1)

    def oracle(self, case, obs):
        fails = []
        tcp = case["transport"] == "tcp"
        all_q = self._client_queries(case, len(case["events"]), obs["delivered"])
        n_req = 0
        for ei, items in enumerate(obs["given"]):
            sent = self._client_queries(case, ei, obs["delivered"])
            for k, it in enumerate(items):
                p = it.split(" ", 2)
                if p[0] == "crash" and not self._crash_excused(items, k, obs["acts_at"][ei]):
                    fails.append(f"event {ei}: an exception left the layer ({obs['notes']})")
                if p[0] == "hook":
                    # "Every DNS flow mitmproxy reports to addons carries the query it belongs to"
                    req, resp, err = self._hook_fields(it)
                    if req is None:
                        fails.append(f"event {ei}: {p[1]} fired for a flow without request"); continue
                    # input-derived: the request is a query the client has sent; the i-th dns_request announces the i-th query
                    if not any(q["id"] == req[0] and (q["qt"] is None or q["qt"] == req[1]) for q in sent):
                        fails.append(f"event {ei}: {p[1]} flow carries a request id={req[0]} q={req[1]} the client never sent")
                    if p[1] == "dns_request":
                        if n_req >= len(all_q) or all_q[n_req]["id"] != req[0] or all_q[n_req]["qt"] not in (None, req[1]):
                            fails.append(f"event {ei}: dns_request #{n_req} announces id={req[0]} q={req[1]}, the client's message #{n_req} is "
                                         f"{all_q[n_req] if n_req < len(all_q) else None}")
                        n_req += 1
                    if p[1] == "dns_response":
                        if resp is None: fails.append(f"event {ei}: dns_response fired for a flow without response")
                        elif (resp[0] != req[0] or resp[1] != req[1]) and not (
                                (st := self._response_setter(items, k, obs["acts_at"][ei])) and self._act_render(st)[1] == (resp[0], resp[1])):
                            fails.append(f"event {ei}: dns_response flow pairs query id={req[0]} q={req[1]} with a response id={resp[0]} q={resp[1]}")
                    if p[1] == "dns_error":
                        # "including the SERVFAIL mitmproxy synthesises ..., which also keeps the opcode and recursion-desired flag"
                        nxt = items[k + 1] if k + 1 < len(items) else ""
                        if not nxt.startswith("send client "):
                            fails.append(f"event {ei}: dns_error is not followed by a reply to the client")
                        else:
                            w = self._unwire(tcp, unhx(nxt.split(" ")[2]))
                            r = ref_parts(w) if w is not None else None
                            if r is None: fails.append(f"event {ei}: the synthesised reply is not a well-formed message")
                            else:
                                i, fl = r[0], r[1]
                                got = {"id": i, "opcode": (fl >> 11) & 15, "rd": (fl >> 8) & 1}
                                if not (fl & 0x8000) or (fl & 15) != 2:
                                    fails.append(f"event {ei}: synthesised reply has qr={(fl >> 15) & 1} rcode={fl & 15}")
                                # input-derived: it is the SERVFAIL of a query the client sent (id, questions, opcode, RD from the raw bytes)
                                if not any(q["id"] == i and q["qs"] in (None, r[2]) and q["opcode"] == got["opcode"] and q["rd"] == got["rd"] for q in sent):
                                    fails.append(f"event {ei}: SERVFAIL {got} q={r[2]} keeps id/questions/opcode/RD of none of the client's queries {sent[:6]}")
                                # consistency with the flow the error hook reported
                                hdr = req[2]
                                want = {"id": hdr[0], "opcode": hdr[2], "rd": hdr[5]}
                                if got != want: fails.append(f"event {ei}: SERVFAIL has {got}, the flow's query has {want}")
                                if qs_text(r[2]) not in (None, req[1]):
                                    fails.append(f"event {ei}: SERVFAIL question section {qs_text(r[2])} differs from the flow's query {req[1]}")
                if p[0] == "open" and p[1] in ("fail", "killed"):
                    nxt = items[k + 1] if k + 1 < len(items) else ""
                    if not nxt.startswith("hook dns_error"): fails.append(f"event {ei}: failed upstream connect is not reported through dns_error")
                if p[0] == "send" and p[1] == "client":
                    # "every reply it sends to a client answers a query that client sent on that connection:
                    #  same message id and question section (for unmodified messages)"
                    w = self._unwire(tcp, unhx(p[2]))
                    r = ref_parts(w) if w is not None else None
                    if r is None:
                        fails.append(f"event {ei}: bytes sent to the client are not one well-formed DNS message: {p[2][:80]}"); continue
                    st = self._response_setter(items, k, obs["acts_at"][ei])
                    if st and self._act_render(st)[0] == r[3]: continue                              # L2
                    if not any(q["id"] == r[0] and q["qs"] in (None, r[2]) for q in sent):           # L1
                        fails.append(f"event {ei}: reply id={r[0]} questions={r[2]} sent to the client answers none of its queries "
                                     f"{[(q['id'], q['qs']) for q in sent[:6]]}")
        # "Over TCP, the sequence of DNS messages mitmproxy extracts does not depend on how the byte stream is segmented"
        flat = [x for it in obs["given"] for x in it]
        for name, v in obs["variants"].items():
            if v != flat:
                d = next((i for i, (a, b) in enumerate(zip(v, flat)) if a != b), min(len(v), len(flat)))
                fails.append(f"the layer's behaviour depends on the delivery ({name}): at step {d} {v[d:d + 1]} instead of {flat[d:d + 1]}")
        # "a malformed length prefix closes the connection"
        if tcp:
            for dirn, lab in (("c", "client"), ("s", "server")):
                stream = b""
                for ei, e in enumerate(case["events"]):
                    if e[0] != dirn or not obs["delivered"][ei]: continue                            # L6
                    stream += unhx(e[1])
                    if any(f[0] == "zero" for f in walk_frames(stream)):
                        before = [x for it in obs["given"][:ei] for x in it]
                        now = obs["given"][ei]
                        ended_before = any(x.startswith("close ") or x == "crash" for x in before)  # L4
                        crash_now = any(x == "crash" and self._crash_excused(now, k, obs["acts_at"][ei]) for k, x in enumerate(now))
                        if not ended_before and f"close {lab}" not in now and not crash_now:
                            fails.append(f"event {ei}: zero length prefix from the {lab} did not close the connection")
                        break
        return fails[:6]

    @staticmethod
    def _unwire(tcp, b):
        if not tcp: return b
        if len(b) < 2 or struct.unpack_from("!H", b)[0] != len(b) - 2: return None
        return b[2:]

    @staticmethod
    def _hook_fields(item):
        """'hook name [req] [resp] err' -> ((id, questions, header ints) | None, same for resp, err)"""
        rest = item.split(" ", 2)[2]
        out = []
        while rest and len(out) < 2:
            if rest.startswith("none"):
                out.append(None); rest = rest[5:]
            else:
                end = rest.index("]")
                body = rest[1:end]; rest = rest[end + 2:]
                f = body.split(" ")
                hdr = [int(x) for x in f[0].split(",")]
                out.append((hdr[0], f[1], hdr))
        return out[0], out[1], rest.strip() == "1"

    # ------------------------------------------------------------------ model tie
    def _obs_for(self, case):
        key = json.dumps(case, sort_keys=True)
        if self._last and self._last[0] == key: return self._last[1]
        return self.impl(case)

    def model_lines(self, case):
        bufs = [unhx(e[1]) for e in case["events"] if len(e) == 2]
        bufs += [b"".join(unhx(e[1]) for e in case["events"] if len(e) == 2 and e[0] == k) for k in ("c", "s")]
        bufs += [unhx(a[2:].partition("@")[0]) for a in case["acts"] if a.startswith("r=")]
        tbl = D.idna_table(bufs)
        lines = [f"reset {tbl} {1 if case['transport'] == 'tcp' else 0} {1 if case['upstream'] else 0} "
                 f"{','.join(case['acts']) or '-'} {case['conns'] or '-'}"]
        for e in case["events"]:
            lines.append(f"{e[0]} {e[1]}" if len(e) == 2 else e[0])
        # the same schedule through the model of Layer.handle_event (Model/C27_Async.lean): every arrival and every hook
        # completion of the asynchronous run, and whether the layer is idle after each group
        lines += [ln for ln, _ in self._obs_for(case)["async"]]
        return lines

    def model_obs(self, case, replies):
        return [replies[0]] + list(replies[1:])

    def impl_view(self, case, obs):
        return ["ok"] + [" | ".join(it) or "-" for it in obs["given"]] + [" | ".join(it) or "-" for _, it in obs["async"]]

    # ------------------------------------------------------------------ evidence
    def classify(self, case, obs):
        if not any(x.startswith("hook") for it in obs["given"] for x in it): return None
        return json.dumps(case, sort_keys=True)

    def branches(self, case, obs):
        out = [case["transport"], "upstream" if case["upstream"] else "no-upstream"] + list(obs["notes"])
        kinds = set()
        for it in obs["given"]:
            for x in it:
                p = x.split(" ")
                kinds.add(" ".join(p[:2]) if p[0] in ("hook", "send", "close", "open") else p[0])
        out += sorted(kinds) + ["variant:" + v for v in obs["variants"]]
        ids = [q["id"] for q in self._client_queries(case, len(case["events"]))]
        if len(ids) != len(set(ids)): out.append("duplicated-id")
        if any(a != "p" for a in case["acts"]): out.append("addon-acts")
        return out

    def neighbours(self, case, rng):
        evs = case["events"]
        for i in range(len(evs)):
            c = dict(case); c["events"] = evs[:i] + evs[i + 1:]; yield c
        for i, e in enumerate(evs):
            if len(e) == 2:
                b = unhx(e[1])
                for p in range(1, len(b)):
                    c = dict(case); c["events"] = evs[:i] + [[e[0], hx(b[:p])], [e[0], hx(b[p:])]] + evs[i + 1:]; yield c

    def exhaustive(self, tier):
        return self._split_cases(None)
