"""C28 — WebSocket messages are relayed exactly once with their exact content
(mitmproxy/proxy/layers/websocket.py, mitmproxy/websocket.py)."""
import ast, codecs, inspect, struct, textwrap
import wsproto, wsproto.events as WE, wsproto.extensions
from wsproto import ConnectionType, ConnectionState as WSState
from wsproto.frame_protocol import Opcode

from common.check import PropertyCheck, Skip, hx, unhx
from common.world import World, make_context
from mitmproxy import connection
from mitmproxy.http import HTTPFlow, Request, Response
from mitmproxy.websocket import WebSocketData, WebSocketMessage
from mitmproxy.proxy.layers import websocket as W

# generator hint only (where to place characters); the model's constant is regenerated in translate().
# Nothing is parsed from source at import time; a renamed/removed attribute must not kill the check at import.
_fs = getattr(getattr(W, "Fragmentizer", None), "FRAGMENT_SIZE", 4000)
FS = _fs if isinstance(_fs, int) and 0 < _fs <= 100000 else 4000
CHARS = ["a", "Z", "0", " ", "é", "ß", "€", "あ", "�", "😀", "𝄞", "߿", "ࠀ", "퟿", "", "\U00010000", "\U0010ffff", "\x00", "\x7f", "\x80"]
SOUP = bytes([0x41, 0x7f, 0x80, 0xbf, 0xc0, 0xc1, 0xc2, 0xdf, 0xe0, 0xa0, 0x9f, 0xed, 0xef, 0xf0, 0x90, 0x8f, 0xf4, 0xf5, 0xff, 0xe2, 0x82, 0xac])


def valid_utf8(b: bytes) -> bool:
    try:
        b.decode("utf-8"); return True
    except UnicodeDecodeError:
        return False


def text_boundaries(frames):
    """frame payloads of a text message as a wsproto-level receiver sees them: a frame ending inside a
    character delivers that character with the next frame (independent incremental decoder)."""
    dec = codecs.getincrementaldecoder("utf-8")()
    out = []
    for i, f in enumerate(frames):
        out.append(dec.decode(f, i == len(frames) - 1).encode())
    return out


# ------------------------------------------------------------------------------------------------
def ext_header(deflate):
    """the negotiated Sec-WebSocket-Extensions value: falsy = none, 1/True = plain permessage-deflate, str = its parameters"""
    if not deflate: return None
    return "permessage-deflate" if deflate in (1, True) else "permessage-deflate; " + deflate


class Peer:
    """in-memory wsproto endpoint: serialises raw frames (so that text frames may end inside a
    character) and decodes what the proxy sends to it"""

    def __init__(self, kind, deflate):
        ext = []
        if deflate:
            # the peer honours exactly what the 101 response negotiated (window bits, context takeover)
            e = wsproto.extensions.PerMessageDeflate(); e.finalize(ext_header(deflate)); ext = [e]
        self.conn = wsproto.Connection(kind, ext)

    def frame(self, f):
        t = f["t"]
        p = unhx(f.get("p_hex", "-"))
        fp = self.conn._proto
        if t == "cl":
            if f.get("code") is not None:
                p = struct.pack("!H", f["code"]) + unhx(f.get("reason_hex", "-"))
            return bytes(fp._serialize_frame(Opcode.CLOSE, p))
        op = {"t": Opcode.TEXT, "b": Opcode.BINARY, "c": Opcode.CONTINUATION, "pi": Opcode.PING, "po": Opcode.PONG}[t]
        fin = bool(f.get("fin", 1)) if t in ("t", "b", "c") else True
        try:
            return bytes(fp._serialize_frame(op, p, fin))
        except AssertionError:
            # the ONLY abstention of this check: the harness peer's own permessage-deflate compressor refuses to
            # serialise a stray CONTINUATION frame (assert in wsproto/extensions.py). It happens before any
            # mitmproxy code has seen a byte, so it cannot hide a violation; every other AssertionError surfaces.
            if t == "c" and fp.extensions: raise Skip()
            raise

    def decode(self, data):
        self.conn.receive_data(data)
        return list(self.conn.events())


def ev_token(ev, kind=None):
    if isinstance(ev, WE.TextMessage):
        return f"m.t.{hx(ev.data.encode())}.{int(ev.frame_finished)}.{int(ev.message_finished)}"
    if isinstance(ev, WE.BytesMessage):
        return f"m.b.{hx(bytes(ev.data))}.{int(ev.frame_finished)}.{int(ev.message_finished)}"
    if isinstance(ev, WE.Ping): return f"pi.{hx(bytes(ev.payload))}"
    if isinstance(ev, WE.Pong): return f"po.{hx(bytes(ev.payload))}"
    if isinstance(ev, WE.CloseConnection):
        r = "none" if ev.reason is None else hx(ev.reason.encode())
        return f"cl.{kind}.{int(ev.code)}.{r}"
    raise AssertionError(ev)


class Recorder:
    """records the events handed to wsproto (`WebsocketConnection.send`: the model's output interface) and lets the
    in-memory peers decode the bytes of the matching SendData commands (the property oracle's observation)"""
    SIDE = {"client": "c", "server0": "s"}

    def __init__(self, w, deflate):
        from collections import deque
        self.w = w
        self.peers = {"c": Peer(ConnectionType.CLIENT, deflate), "s": Peer(ConnectionType.SERVER, deflate)}
        self.sendevs = deque()
        self.peer_seen = {"c": [], "s": []}   # ["m", typ, [payload per frame]] | ["pi"/"po", hex] | ["cl", code, reason]
        self.partial = {"c": None, "s": None}
        self.pos = len(w.trace)
        self.nerr = 0
        self.hook_idx = 0

    def wrap(self, ws, sd):
        orig = ws.send
        def send(event):
            data = orig(event)
            self.sendevs.append((sd, event))
            return data
        ws.send = send

    def peer_decode(self, sd, data):
        partial, peer_seen = self.partial, self.peer_seen
        for ev in self.peers[sd].decode(data):
            if isinstance(ev, WE.Message):
                typ = "t" if isinstance(ev, WE.TextMessage) else "b"
                d = ev.data.encode() if typ == "t" else bytes(ev.data)
                if partial[sd] is None: partial[sd] = [typ, [b""]]
                if partial[sd][0] != typ: partial[sd][0] = "mixed"
                partial[sd][1][-1] += d
                if ev.message_finished:
                    peer_seen[sd].append(["m", partial[sd][0], [hx(x) for x in partial[sd][1]]]); partial[sd] = None
                elif ev.frame_finished: partial[sd][1].append(b"")
            elif isinstance(ev, WE.Ping): peer_seen[sd].append(["pi", hx(bytes(ev.payload))])
            elif isinstance(ev, WE.Pong): peer_seen[sd].append(["po", hx(bytes(ev.payload))])
            elif isinstance(ev, WE.CloseConnection):
                peer_seen[sd].append(["cl", int(ev.code), hx((ev.reason or "").encode())])

    def collect(self):
        w = self.w
        toks, burst = [], None
        for t in w.trace[self.pos:]:
            if t[0] == "hook":
                if t[1] == "websocket_message":
                    toks.append(f"H{self.hook_idx}"); self.hook_idx += 1
                elif t[1] == "websocket_end": toks.append("E")
            elif t[0] == "send":
                sd = self.SIDE[t[1]]
                self.peer_decode(sd, t[2])
                esd, ev = self.sendevs.popleft()
                assert esd == sd
                if isinstance(ev, WE.Message):
                    typ = "t" if isinstance(ev, WE.TextMessage) else "b"
                    data = ev.data.encode() if typ == "t" else bytes(ev.data)
                    if burst is None: burst = [sd, typ, []]
                    if (burst[0], burst[1]) != (sd, typ): burst[2].append("mixed")
                    burst[2].append(hx(data) + ("!" if ev.message_finished else "+"))
                    if ev.message_finished:
                        toks.append(f"M{burst[0]}.{burst[1]}." + ";".join(burst[2])); burst = None
                elif isinstance(ev, WE.Ping): toks.append(f"PI{sd}.{hx(bytes(ev.payload))}")
                elif isinstance(ev, WE.Pong): toks.append(f"PO{sd}.{hx(bytes(ev.payload))}")
                elif isinstance(ev, WE.CloseConnection):
                    r = "none" if ev.reason is None else hx(ev.reason.encode())
                    toks.append(f"CL{sd}.{int(ev.code)}.{r}")
            elif t[0] == "close":
                toks.append("CC" + self.SIDE[t[1]])
            elif t[0] == "ignored":
                toks.append("IGN" + t[1])
        if burst is not None: toks.append(f"M{burst[0]}.{burst[1]}." + ";".join(burst[2]) + ";unfinished")
        if len(w.errors) > self.nerr:
            toks.append("X"); self.nerr = len(w.errors)
        self.pos = len(w.trace)
        return " ".join(toks) if toks else "-"


def flow_state(ws, lay, w):
    msgs = [("t" if m.type == Opcode.TEXT else "b") + ("c" if m.from_client else "s") + ("i" if m.injected else "r")
            + ("d" if m.dropped else "f") + ":" + hx(m.content) for m in ws.messages]
    closed = "none"
    if ws.closed_by_client is not None:
        r = "none" if ws.close_reason is None else hx(ws.close_reason.encode())
        closed = f"{'c' if ws.closed_by_client else 's'}.{int(ws.close_code)}.{r}"
    buf = lambda b: "|".join(hx(x) for x in b)
    return (f"msgs={','.join(msgs) if msgs else '-'} closed={closed} done={int(lay._handle_event == lay.done)} "
            f"crashed={int(bool(w.errors))} bufc={buf(lay.client_ws.frame_buf)} bufs={buf(lay.server_ws.frame_buf)}")


def shadow_tokens(shadow, sd, data, src_frames, cur):
    """model input for one `receive_data(data)` of the layer's wsproto connection on side sd: the events a shadow
    wsproto connection yields for the same bytes (+ the per-frame payloads of completed messages)"""
    toks = []
    if shadow[sd].state is WSState.CLOSED: return toks
    shadow[sd].receive_data(data)
    for ev in shadow[sd].events():
        kind = None
        if isinstance(ev, WE.CloseConnection):
            kind = "e" if data is None else ("p" if shadow[sd].state is WSState.OPEN else "f")
        toks.append(ev_token(ev, kind))
        if isinstance(ev, WE.Message):
            cur[sd][-1] += ev.data.encode() if isinstance(ev.data, str) else bytes(ev.data)
            if ev.message_finished:
                src_frames.append([hx(x) for x in cur[sd]]); cur[sd] = [b""]
            elif ev.frame_finished: cur[sd].append(b"")
    return toks


REQUEST = (b"GET /chat HTTP/1.1\r\nHost: example.com\r\nConnection: Upgrade\r\nUpgrade: websocket\r\n"
           b"Sec-WebSocket-Version: 13\r\nSec-WebSocket-Key: dGhlIHNhbXBsZSBub25jZQ==\r\n")
RESPONSE = (b"HTTP/1.1 101 Switching Protocols\r\nUpgrade: websocket\r\nConnection: Upgrade\r\n"
            b"Sec-WebSocket-Accept: s3pPLMBiTxaQ9kYGzzhZRbK+xOo=\r\n")
EXT = b"Sec-WebSocket-Extensions: permessage-deflate\r\n"


def virtual_script(case):
    """an end-to-end case as the peers' script: frames piggybacked on the upgrade request / the 101 response first"""
    if case["kind"] != "e2e": return case["script"]
    pre = []
    if case.get("cpiggy"): pre.append({"op": "frames", "from": "c", "frames": case["cpiggy"]})
    if case.get("spiggy"): pre.append({"op": "frames", "from": "s", "frames": case["spiggy"]})
    return pre + case["script"]


def run_e2e(case):
    """the real HttpLayer (transparent mode) performs the upgrade; WebSocket frames may share a TCP segment with the
    upgrade request / the `101 Switching Protocols` response.  The model is fed what the layer's wsproto connections
    actually received (logged at `receive_data`), the oracle judges against what the peers sent."""
    from mitmproxy.proxy.layers import http as H
    deflate = case.get("deflate")
    policy = case.get("policy", [])
    ctx = make_context()
    ctx.server.address = ("example.com", 80)
    top = H.HttpLayer(ctx, H.HTTPMode.transparent)
    st = {"flow": None, "lay": None}
    log = []     # ("data", side, bytes|None) | ("inject", side, text, hex) in the order the WebSocket layer got them

    def on_hook(w, hook):
        if hook.name == "websocket_start":
            st["flow"] = hook.flow
            for s in top.streams.values():
                if isinstance(getattr(s, "child_layer", None), W.WebsocketLayer): st["lay"] = s.child_layer
            lay = st["lay"]
            rec.pos = len(w.trace)
            for ws, sd in ((lay.client_ws, "c"), (lay.server_ws, "s")):
                rec.wrap(ws, sd)
                def rd(data, orig=ws.receive_data, sd=sd):
                    log.append(("data", sd, data))
                    return orig(data)
                ws.receive_data = rd
        elif hook.name == "websocket_message":
            flow = st["flow"]
            i = len(flow.websocket.messages) - 1
            act = policy[i] if i < len(policy) else "k"
            m = flow.websocket.messages[-1]
            if act == "d": m.drop()
            elif act != "k": m.content = unhx(act[1:])

    w = World(top, ctx, on_hook=on_hook)
    w.add_open_server(ctx.server)
    rec = Recorder(w, deflate)
    w.start()
    peers = rec.peers
    label = {"c": "client", "s": "server0"}
    ext = (b"Sec-WebSocket-Extensions: " + ext_header(deflate).encode() + b"\r\n") if deflate else b""
    w.recv("client", REQUEST + ext + b"\r\n" + b"".join(peers["c"].frame(f) for f in case.get("cpiggy", [])))
    data = RESPONSE + ext + b"\r\n" + b"".join(peers["s"].frame(f) for f in case.get("spiggy", []))
    chunks, p = [], 0
    for n in case.get("sseg", []):
        if 0 < n and p + n < len(data): chunks.append(data[p:p + n]); p += n
    chunks.append(data[p:])
    for ch in chunks: w.recv("server0", ch)
    if st["lay"] is None:
        return {"steps": [], "lines": [], "state": "no-websocket", "src_frames": [], "peer": rec.peer_seen, "peer_partial": [],
                "errors": ["upgrade did not reach the WebSocket layer"] + [e[0] + ": " + e[1] for e in w.errors][:1]}
    for op in case["script"]:
        sd = op.get("from", "c")
        if op["op"] == "frames":
            data = b"".join(peers[sd].frame(f) for f in op["frames"])
            chunks, p = [], 0
            for n in op.get("seg", []):
                if 0 < n and p + n < len(data): chunks.append(data[p:p + n]); p += n
            chunks.append(data[p:])
            for ch in chunks: w.recv(label[sd], ch)
        elif op["op"] == "eof":
            w.peer_close(label[sd])
        elif op["op"] == "inject":
            typ = Opcode.TEXT if op["text"] else Opcode.BINARY
            lay = st["lay"]
            if not (lay._handle_event == lay.done):
                log.append(("inject", sd, op["text"], op["content_hex"]))
            w.inject(W.WebSocketMessageInjected(st["flow"], WebSocketMessage(typ, sd == "c", unhx(op["content_hex"]))))
    shadow = {"c": Peer(ConnectionType.SERVER, deflate).conn, "s": Peer(ConnectionType.CLIENT, deflate).conn}
    src_frames, cur, lines = [], {"c": [b""], "s": [b""]}, []
    for ent in log:
        if ent[0] == "data":
            toks = shadow_tokens(shadow, ent[1], ent[2], src_frames, cur)
            lines.append(f"data {ent[1]} " + " ".join(toks) if toks else f"data {ent[1]}")
        else:
            lines.append(f"inject {ent[1]} {'t' if ent[2] else 'b'} {ent[3]}")
    return {"steps": [rec.collect()], "lines": lines, "state": flow_state(st["flow"].websocket, st["lay"], w),
            "src_frames": src_frames, "peer": rec.peer_seen,
            "peer_partial": [sd for sd in ("c", "s") if rec.partial[sd] is not None],
            "errors": [e[0] + ": " + e[1] for e in w.errors][:2]}


def run_layer(case):
    deflate = case.get("deflate")
    policy = case.get("policy", [])
    ctx = make_context()
    ctx.server = connection.Server(address=("example.com", 80))
    flow = HTTPFlow(ctx.client, ctx.server)
    flow.request = Request.make("GET", "http://example.com/", headers={"Connection": "upgrade", "Upgrade": "websocket", "Sec-WebSocket-Version": "13"})
    h = {"Connection": "upgrade", "Upgrade": "websocket"}
    if deflate: h["Sec-WebSocket-Extensions"] = ext_header(deflate)
    flow.response = Response.make(101, headers=h)
    flow.websocket = WebSocketData()
    lay = W.WebsocketLayer(ctx, flow)

    def on_hook(w, hook):
        if hook.name == "websocket_message":
            i = len(flow.websocket.messages) - 1
            act = policy[i] if i < len(policy) else "k"
            m = flow.websocket.messages[-1]
            if act == "d": m.drop()
            elif act != "k": m.content = unhx(act[1:])

    w = World(lay, ctx, on_hook=on_hook)
    w.add_open_server(ctx.server)
    w.start()
    rec = Recorder(w, deflate)
    peers = rec.peers
    shadow = {"c": Peer(ConnectionType.SERVER, deflate).conn, "s": Peer(ConnectionType.CLIENT, deflate).conn}
    label = {"c": "client", "s": "server0"}
    steps, lines = [], []       # per delivered chunk: rendered impl outputs / model protocol line
    src_frames, cur = [], {"c": [b""], "s": [b""]}   # per received message: payload per frame as a wsproto receiver sees it
    rec.wrap(lay.client_ws, "c"); rec.wrap(lay.server_ws, "s")
    collect = rec.collect
    peer_seen, partial = rec.peer_seen, rec.partial

    for op in case["script"]:
        sd = op.get("from", "c")
        if op["op"] == "frames":
            data = b"".join(peers[sd].frame(f) for f in op["frames"])
            chunks, p = [], 0
            for n in op.get("seg", []):
                if 0 < n and p + n < len(data): chunks.append(data[p:p + n]); p += n
            chunks.append(data[p:])
            for ch in chunks:
                delivered = w.recv(label[sd], ch)
                toks = []
                if shadow[sd].state is not WSState.CLOSED:
                    shadow[sd].receive_data(ch)
                    for ev in shadow[sd].events():
                        kind = None
                        if isinstance(ev, WE.CloseConnection):
                            kind = "p" if shadow[sd].state is WSState.OPEN else "f"
                        toks.append(ev_token(ev, kind))
                        if isinstance(ev, WE.Message) and delivered:
                            cur[sd][-1] += ev.data.encode() if isinstance(ev.data, str) else bytes(ev.data)
                            if ev.message_finished:
                                src_frames.append([hx(x) for x in cur[sd]]); cur[sd] = [b""]
                            elif ev.frame_finished: cur[sd].append(b"")
                if delivered:
                    lines.append(f"data {sd} " + " ".join(toks) if toks else f"data {sd}")
                    steps.append(collect())
        elif op["op"] == "eof":
            delivered = w.peer_close(label[sd])
            if delivered:
                shadow[sd].receive_data(None)
                toks = [ev_token(ev, "e") for ev in shadow[sd].events()]
                lines.append(f"data {sd} " + " ".join(toks))
                steps.append(collect())
        elif op["op"] == "inject":
            typ = Opcode.TEXT if op["text"] else Opcode.BINARY
            w.inject(W.WebSocketMessageInjected(flow, WebSocketMessage(typ, sd == "c", unhx(op["content_hex"]))))
            lines.append(f"inject {sd} {'t' if op['text'] else 'b'} {op['content_hex']}")
            steps.append(collect())
    ws = flow.websocket
    msgs = [("t" if m.type == Opcode.TEXT else "b") + ("c" if m.from_client else "s") + ("i" if m.injected else "r")
            + ("d" if m.dropped else "f") + ":" + hx(m.content) for m in ws.messages]
    closed = "none"
    if ws.closed_by_client is not None:
        r = "none" if ws.close_reason is None else hx(ws.close_reason.encode())
        closed = f"{'c' if ws.closed_by_client else 's'}.{int(ws.close_code)}.{r}"
    buf = lambda b: "|".join(hx(x) for x in b)
    state = (f"msgs={','.join(msgs) if msgs else '-'} closed={closed} done={int(lay._handle_event == lay.done)} "
             f"crashed={int(bool(w.errors))} bufc={buf(lay.client_ws.frame_buf)} bufs={buf(lay.server_ws.frame_buf)}")
    return {"steps": steps, "lines": lines, "state": state, "src_frames": src_frames, "peer": peer_seen,
            "peer_partial": [sd for sd in ("c", "s") if partial[sd] is not None],
            "errors": [e[0] + ": " + e[1] for e in w.errors][:2]}


# ---- specification-level replay of a script (what the peers sent), independent of the layer ------
def spec_of(case):
    """what the peers sent, derived from the INPUT script only: source messages / pings in script order up to the first
    close/eof (everything behind a close is legitimately ignored) or up to the first protocol violation by a peer
    (`weird`: then only the items before it are expected — wsproto answers the violation with a local close)"""
    asm = {"c": None, "s": None}
    items = []          # ("msg", from, text, [frames], injected) | ("ping"/"pong", from, payload)
    close = None
    for op in virtual_script(case):
        if close is not None: break
        sd = op.get("from", "c")
        if op["op"] == "inject":
            items.append(("msg", sd, bool(op["text"]), [unhx(op["content_hex"])], True))
        elif op["op"] == "eof":
            close = (sd, 1006, None, "eof")
        else:
            for f in op["frames"]:
                if close is not None: break
                t = f["t"]; p = unhx(f.get("p_hex", "-"))
                if t in ("t", "b"):
                    if asm[sd] is not None: return items, None, True          # data frame inside a fragmented message
                    asm[sd] = [t == "t", [p]]
                elif t == "c":
                    if asm[sd] is None: return items, None, True              # continuation without a message
                    asm[sd][1].append(p)
                elif t in ("pi", "po"):
                    items.append(("ping" if t == "pi" else "pong", sd, p)); continue
                elif t == "cl":
                    if f.get("code") is None and p: return items, None, True  # malformed close payload
                    if f.get("code") is None: close = (sd, 1005, "", "frame")
                    else: close = (sd, f["code"], unhx(f.get("reason_hex", "-")).decode("utf-8", "replace"), "frame")
                    continue
                if asm[sd] is not None:
                    txt, frs = asm[sd]
                    if txt:
                        try: codecs.getincrementaldecoder("utf-8")().decode(b"".join(frs), False)
                        except UnicodeDecodeError: return items, None, True              # text that cannot become UTF-8
                    if f.get("fin", 1):
                        if txt and not valid_utf8(b"".join(frs)): return items, None, True   # text that is not UTF-8
                        items.append(("msg", sd, txt, frs, False)); asm[sd] = None
    return items, close, False


def parse_tokens(steps):
    out = []
    for s in steps:
        if s != "-": out.extend(s.split(" "))
    return out


def raw_frame(f):
    """independent serialiser (RFC 6455 section 5.2) for the wire cases"""
    p = unhx(f["p_hex"]); key = None if f.get("key_hex") is None else unhx(f["key_hex"])
    b0 = (128 if f["fin"] else 0) | (f["rsv"] << 4) | f["op"]
    m = 128 if key is not None else 0
    n = len(p)
    if f.get("len_form") == 2 or (f.get("len_form") is None and 125 < n <= 65535): hdr = bytes([b0, m | 126]) + struct.pack("!H", n & 0xffff)
    elif f.get("len_form") == 8 or (f.get("len_form") is None and n > 65535): hdr = bytes([b0, m | 127]) + struct.pack("!Q", n)
    else: hdr = bytes([b0, m | min(n, 125)])
    if key is not None:
        return hdr + key + bytes(x ^ key[i % 4] for i, x in enumerate(p))
    return hdr + p


def wire_bytes(case):
    b = bytearray(b"".join(raw_frame(f) for f in case["frames"]))
    for pos, val in case.get("mut", []):
        if pos < len(b): b[pos] = val
    if case.get("trunc") is not None: b = b[:case["trunc"]]
    return bytes(b)


def run_wire(case):
    """wsproto's frame codec on the same bytes: FrameDecoder (whole buffer), the event mapping of Connection, and the
    serialiser for every frame wsproto is able to send"""
    from wsproto import frame_protocol as FP
    buf = wire_bytes(case)
    role_client = bool(case["client"])
    dec = FP.FrameDecoder(client=role_client, extensions=[])
    dec.receive_bytes(buf)
    frames, fail = [], False
    while True:
        try:
            f = dec.process_buffer()
        except FP.ParseFailed:
            fail = True; break
        if f is None or not f.frame_finished: break
        frames.append(f"{int(f.message_finished)}.{int(f.opcode)}.{hx(bytes(f.payload))}")
    conn = wsproto.Connection(ConnectionType.CLIENT if role_client else ConnectionType.SERVER)
    conn.receive_data(buf)
    evs, evfail = [], False
    for ev in conn.events():
        if isinstance(ev, WE.CloseConnection) and conn.state is WSState.OPEN: evfail = True; break
        if isinstance(ev, WE.Message) and not ev.frame_finished: break      # trailing partial frame
        evs.append(ev_token(ev, "f"))
    enc = []
    for f in case["frames"]:
        key = None if f.get("key_hex") is None else unhx(f["key_hex"])
        if f["rsv"] or f["op"] not in (0, 1, 2, 8, 9, 10) or f.get("len_form") is not None or (f["op"] >= 8 and len(unhx(f["p_hex"])) > 125):
            enc.append(None); continue
        fp = FP.FrameProtocol(client=key is not None, extensions=[])
        saved = FP.os.urandom
        FP.os.urandom = lambda n, k=key: k
        try:
            enc.append(hx(bytes(fp._serialize_frame(Opcode(f["op"]), unhx(f["p_hex"]), bool(f["fin"])))))
        finally:
            FP.os.urandom = saved
    return {"frames": frames, "fail": fail, "events": "fail" if evfail else (" ".join(evs) if evs else "-"), "enc": enc}


class Check(PropertyCheck):
    prop = "C28"
    design_ref = "§5 C28"
    level_text = ("Lean theorems (35) for ALL inputs about the model of WebsocketLayer.relay_messages + Fragmentizer and the transcribed "
                  "wsproto receive/send path (frame codec, message decoder incl. its strict incremental UTF-8 decoder, close parsing). "
                  "Clause table (statement clause -> theorems | oracle clauses): "
                  "(1) every message, as modified/dropped/injected, delivered exactly once, in order, as ONE message of the same type, "
                  "any fragmentation/segmentation -> recorded_is_what_was_sent (+ _until_close: WHOLE interleaved histories, "
                  "flow.websocket.messages = sentMessages(history), a function of the events alone) composed with "
                  "each_message_once_in_order / each_message_once_in_order_wsproto (no crash hypothesis: "
                  "no_crash_when_close_is_last + stream_eventsU_close_last, the latter about the decoder the driver runs), "
                  "each_burst_is_one_message, injected_recorded_once, message_wire_roundtripU, "
                  "text_message_wire_roundtrip_any_cuts, wire_message_end_to_endU, wire_text_message_end_to_end_any_cuts, "
                  "sent_text_is_strictly_utf8, frame_roundtrip, stream_roundtrip, partial_frame_events_insensitive "
                  "(message_wire_roundtrip / wire_message_end_to_end / stream_events_close_last are the same statements for "
                  "the decoder WITHOUT the UTF-8 step, `streamEvents`, which no driver op runs: kept as auxiliary forms) | 'n sent/injected, m recorded', 'recorded "
                  "type/direction/injected differ', 'was not delivered', 'delivered with the other type', 'peer received k, j expected', "
                  "'burst is not exactly one message'. (2) content equals the recorded content -> delivered_equals_recorded, "
                  "binary_exact, text_exact, text_exact_utf8, text_frames_cut_anywhere, text_message_cut_anywhere_recorded | 'recorded "
                  "content differs from the sent/edited content', 'delivered content differs from the recorded content', 'fragments "
                  "concatenate to'. (3) unmodified messages keep their frame boundaries -> unmodified_keeps_boundaries, "
                  "unmodified_message_keeps_frames, unmodified_text_message_any_cuts, text_buffer_stays_valid, decoder_output_is_utf8 | "
                  "'unmodified but frame boundaries changed', 'unmodified message re-fragmented'. (4) pings and pongs are relayed -> "
                  "pings_pongs_relayed, controls_relayed_in_order, controls_relayed_until_close | 'pings/pongs from x: sent .. relayed ..'. (5) recorded close code "
                  "and reason are the closing peer's -> close_code_reason_recorded, close_recorded_in_history | 'close recorded as'. "
                  "Ties: san + Fragmentizer; the whole layer between in-memory wsproto peers (+-deflate with negotiated parameters, "
                  "keep/edit/drop/inject); end to end through the HttpLayer upgrade; the frame codec, event mapping and incremental "
                  "UTF-8 decoder transcriptions against wsproto / codecs on valid, malformed, mutated and truncated input.")
    level_note = ("still parameters (assumed, exercised by the in-memory peers, not proved): permessage-deflate (zlib; the wire model "
                  "takes frames with the payload the extension hands over, `rsvOk` = RSV bits the extensions accept) and the UTF-8 "
                  "validity of close REASONS. Received text is no longer a parameter: wsproto's strict incremental decoder is "
                  "transcribed (stepS/goS/incDecode/decodeChunks, frameEventU/streamEventsU), tied against codecs' incremental decoder "
                  "and wsproto's events on frames cut inside characters, and its outputs are proved UTF-8 (decoder_output_is_utf8). "
                  "The `crashed` hypothesis of the run-level theorems is derived for every history whose batches carry a close only "
                  "as last event (no_crash_when_close_is_last), which the transcribed receive path guarantees "
                  "(stream_eventsU_close_last, for `streamEventsU`, the function the `fev` driver op runs against wsproto). The tied "
                  "functions of the wire theorems are encodeFrame (fenc), decodeStream (fdec), streamEventsU (fev), decodeChunks "
                  "(uinc); `streamEvents`/`framesEvents` (no UTF-8 step) are untied auxiliaries. The wire model decodes whole frames; delivery of a frame in pieces is covered at event "
                  "level (partial_frame_events_insensitive); wsproto's EARLY report of sequencing errors on incomplete frames is "
                  "outside the model (truncated streams: complete frames compared only). In the layer tie the model consumes the "
                  "events a shadow wsproto connection yields for the same bytes (e2e: the bytes the layer's connections received) "
                  "and its outputs are compared with the events handed to wsproto.send; the oracle works on what the peers decode "
                  "from SendData and derives every expected value from the input script. Under deflate, frame boundaries of "
                  "uncompressed data are observable only at the send-event level. Lenient branches of the check: (a) after a "
                  "protocol violation BY A PEER only the items sent before it are owed (prefix check, nothing skipped); (b) the "
                  "single Skip: a stray CONTINUATION frame the harness peer's own deflate compressor refuses to serialise; (c) a text "
                  "message whose content an addon set to non-UTF-8 bytes is owed only as its decode-replace image (text_exact); "
                  "(d) window bits 8 are not generated (wsproto/zlib refuse them; the layer's finalize() would raise at start). "
                  "No findings; three defects repaired in /repo (two by this check).")
    technique = "Lean 4 proof (induction over event sequences, byte strings and frame streams) + differential model-vs-code correspondence (Fragmentizer, full layer, HTTP upgrade end to end, wsproto frame codec)"
    rule = ("san: byte soups over UTF-8 lead/continuation boundary values; frag: (is_text, original fragment lengths, new content) "
            "with 1-4 byte characters straddling multiples of FRAGMENT_SIZE and original fragment boundaries, sizes 0..3*FS+3, "
            "same-length and length-changing contents, invalid UTF-8; layer: scripts of raw frames both ways (fragmented, cut "
            "inside characters, random TCP segmentation, +-deflate), pings/pongs, injections (also between fragments), close/eof, "
            "addon policy per message keep/same-length edit/length-changing edit/drop; e2e: the same through the real HttpLayer "
            "(transparent mode) upgrade, with WebSocket frames sharing the TCP segment of the 101 response / the upgrade "
            "request, payloads and segments ending in CR, LF, CRLF, 0x00, 0xff, ..., every cut of these short streams "
            "(model fed with what the layer's wsproto connections received, oracle judges against what the peers sent); wire: "
            "deflate: negotiated permessage-deflate parameter sets (each parameter alone and in pairs, every position, window bits "
            "9/10/11/15) x messages repeating earlier data inside one message and across messages at distances around 2^bits, both "
            "directions, peers configured from the negotiated header; "
            "uinc: the payloads of the frames of one text message cut at arbitrary byte positions (valid text, truncated last "
            "character, byte soup) through the incremental decoder; "
            "frame streams (masked/unmasked, 7/16/64-bit lengths, control frames, close codes, text cut inside characters) incl. bad RSV/opcode/mask/"
            "length form/sequencing, a mutated header byte, truncation. distinct = distinct case; non-trivial = "
            "at least one frame/fragment.")
    budget = {"quick": 5200, "thorough": 120000}
    time_budget = {"quick": 15, "thorough": 420}
    fingerprints = ["mitmproxy.proxy.layers.websocket:Fragmentizer.__call__", "mitmproxy.proxy.layers.websocket:Fragmentizer.cut",
                    "mitmproxy.proxy.layers.websocket:Fragmentizer.msg", "mitmproxy.proxy.layers.websocket:Fragmentizer.__init__",
                    "mitmproxy.proxy.layers.websocket:WebsocketLayer.relay_messages", "mitmproxy.proxy.layers.websocket:WebsocketLayer.start",
                    "mitmproxy.proxy.layers.websocket:WebsocketLayer.done", "mitmproxy.proxy.layers.websocket:WebsocketConnection",
                    "mitmproxy.websocket:WebSocketMessage", "mitmproxy.websocket:WebSocketData",
                    "mitmproxy.proxy.layers.http._http1:Http1Connection.make_pipe",
                    "mitmproxy.proxy.layers.http._http1:Http1Connection.passthrough"]
    trusted_base = ["wsproto 1.3 frame codec / permessage-deflate / incremental UTF-8 decoder (model parameter; exercised by the in-memory peers)",
                    "CPython bytes.decode('utf-8', 'replace') as the primitive the `san` automaton transcribes (tied differentially)"]
    parallel = True
    _bigp = 0.05

    def setup(self, tier):
        # quick tier: the fork pool costs more (pickling multi-kB payloads) than it saves
        self.parallel = tier == "thorough"
        self.known_selftest()
        self._bigp = 0.05   # share of multi-kB payloads (x3)

    # ---- T: constant regenerated from the live class -------------------------------------------
    def translate(self):
        fs = W.Fragmentizer.FRAGMENT_SIZE      # an exception here is recorded by the runner as a broken tie
        if not isinstance(fs, int) or fs <= 0: raise ValueError(f"Fragmentizer.FRAGMENT_SIZE = {fs!r}")
        return {"MitmVerif/Gen/C28.lean":
                "-- generated by harness/c28.py translate() from mitmproxy/proxy/layers/websocket.py — do not edit\n"
                "namespace MitmVerif.C28\n/-- `Fragmentizer.FRAGMENT_SIZE` -/\n"
                f"def FRAGMENT_SIZE : Nat := {int(fs)}\nend MitmVerif.C28\n"}

    # ---- generators ----------------------------------------------------------------------------
    @staticmethod
    def _text(rng, nbytes, straddle=()):
        """valid UTF-8 of about nbytes bytes; multi-byte characters are forced across the offsets in `straddle`"""
        out = bytearray()
        targets = sorted(straddle)
        while len(out) < nbytes:
            ch = rng.pick(CHARS).encode()
            for t in targets:
                if len(out) < t <= len(out) + 4 and len(out) != t - 0:
                    # choose a character that covers offset t strictly inside
                    k = t - len(out)            # 1..4 bytes before the cut
                    cands = [c.encode() for c in CHARS if len(c.encode()) > k]
                    if cands: ch = rng.pick(cands)
                    break
            out += ch
        return bytes(out)

    def _content(self, rng, text, lens=None):
        r = rng.random()
        if r < 0.45: n = rng.randint(0, 40)
        elif r < 0.7: n = rng.randint(0, 600)
        elif r < 0.7 + 2 * self._bigp: n = rng.pick([FS - 3, FS - 1, FS, FS + 1, FS + 2, 2 * FS - 1, 2 * FS, 2 * FS + 3, 3 * FS, 3 * FS + 3])
        elif r < 0.7 + 3 * self._bigp: n = rng.randint(FS - 5, 3 * FS + 3)
        else: n = rng.randint(0, 80)
        if not text:
            return bytes(rng.pick(SOUP) if rng.chance(0.5) else rng.getrandbits(8) for _ in range(min(n, 300))) + b"\xc3" * max(0, n - 300)
        str_offsets = [k * FS for k in range(1, 4)]
        if lens:
            acc = 0
            for l in lens[:-1]:
                acc += l; str_offsets.append(acc)
        return self._text(rng, n, str_offsets)

    def _fit(self, rng, text, n):
        """content of exactly n bytes (valid UTF-8 for text if possible)"""
        if not text: return bytes(rng.getrandbits(8) for _ in range(n))
        out = bytearray()
        while len(out) < n:
            c = rng.pick(CHARS).encode()
            if len(out) + len(c) <= n: out += c
            else: out += b"x" * (n - len(out))
        return bytes(out)

    def _frag_case(self, rng):
        text = rng.chance(0.75)
        nl = rng.pick([0, 1, 1, 2, 3, 5])
        if rng.chance(0.15): lens = [rng.pick([0, 1, 2, 3, FS, FS + 1]) for _ in range(nl)]
        else: lens = [rng.randint(0, 12) for _ in range(nl)]
        r = rng.random()
        if r < 0.35:      # unmodified: content is the concatenation of valid fragments
            frags = [self._fit(rng, text, l) for l in lens]
            # make every fragment individually valid (as wsproto would hand them over)
            frags = [f if (not text or valid_utf8(f)) else b"y" * len(f) for f in frags]
            content = b"".join(frags)
            return {"kind": "frag", "text": int(text), "frags_hex": [hx(f) for f in frags], "content_hex": hx(content)}
        frags = [b"f" * l for l in lens]
        if r < 0.6:       # same length, different content (characters straddle the old boundaries)
            content = self._text(rng, sum(lens), [sum(lens[:i + 1]) for i in range(len(lens))])[:sum(lens)] if text else self._fit(rng, False, sum(lens))
            if text and not valid_utf8(content): content = self._fit(rng, True, sum(lens))
        elif r < 0.93:
            content = self._content(rng, text, lens)
        else:             # invalid UTF-8 handed to a text message by an addon / arbitrary bytes
            content = bytes(rng.pick(SOUP) for _ in range(rng.randint(0, 30)))
        return {"kind": "frag", "text": int(text), "frags_hex": [hx(f) for f in frags], "content_hex": hx(content)}

    def _split_frames(self, rng, text, content):
        """raw frames of one message; text frames may end inside a character"""
        k = rng.pick([1, 1, 1, 2, 2, 3, 4])
        if len(content) < 2: k = 1
        cuts = sorted(rng.randint(0, len(content)) for _ in range(k - 1))
        parts, prev = [], 0
        for c in cuts + [len(content)]:
            parts.append(content[prev:c]); prev = c
        frames = []
        for i, p in enumerate(parts):
            frames.append({"t": ("t" if text else "b") if i == 0 else "c", "fin": int(i == len(parts) - 1), "p_hex": hx(p)})
        return frames

    def _edit(self, rng, text, content):
        """(action string, new content)"""
        r = rng.random()
        if r < 0.5: return "k", content
        if r < 0.62: return "d", None
        if r < 0.8:   # same length
            if text:
                s = content.decode()
                new = "".join(reversed(s)).encode() if rng.chance(0.5) else (s[1:] + s[:1]).encode()
            else:
                new = bytes(b ^ 0x55 for b in content)
            return "e" + hx(new), new
        big = rng.chance(0.25)
        if text:
            new = self._text(rng, rng.pick([FS + 1, 2 * FS + 2, FS - 1]) if big else rng.randint(0, 30), [FS, 2 * FS])
        else:
            new = bytes(rng.getrandbits(8) for _ in range(rng.randint(0, 30))) + (b"\xe2\x82" * FS if big else b"")
        if new == content: new += b"!"
        return "e" + hx(new), new

    def _layer_case(self, rng):
        script, policy = [], []
        nops = rng.randint(1, 7)
        open_msg = {"c": None, "s": None}     # frames of a message whose delivery is split over several ops
        closed = False
        for _ in range(nops):
            sd = rng.pick(["c", "s"])
            r = rng.random()
            if r < 0.62:
                frames = []
                for _ in range(rng.randint(1, 3)):
                    q = rng.random()
                    if open_msg[sd]:
                        # continue the pending message (possibly after an injection / other direction's traffic)
                        frames.extend(open_msg[sd]); open_msg[sd] = None
                        act, _ = self._pending_act; policy.append(act)
                    elif q < 0.7:
                        text = rng.chance(0.65)
                        content = self._content(rng, text) if rng.chance(0.9) else b""
                        if len(content) > 3 * FS + 3: content = content[:FS]
                        if text and not valid_utf8(content): content = b"ok"
                        fr = self._split_frames(rng, text, content)
                        act = self._edit(rng, text, content)
                        if len(fr) > 1 and rng.chance(0.3):
                            k = rng.randint(1, len(fr) - 1)
                            frames.extend(fr[:k]); open_msg[sd] = fr[k:]; self._pending_act = act
                            break
                        frames.extend(fr); policy.append(act[0])
                    elif q < 0.85:
                        frames.append({"t": "pi", "p_hex": hx(rng.bytes_(rng.randint(0, 5)))})
                    else:
                        frames.append({"t": "po", "p_hex": hx(rng.bytes_(rng.randint(0, 5)))})
                total = sum(len(unhx(f.get("p_hex", "-"))) + 8 for f in frames)
                seg = [rng.randint(1, max(1, total)) for _ in range(rng.pick([0, 0, 1, 2, 4]))]
                script.append({"op": "frames", "from": sd, "frames": frames, "seg": seg})
            elif r < 0.8:
                text = rng.chance(0.7)
                content = self._content(rng, text) if rng.chance(0.85) else bytes(rng.pick(SOUP) for _ in range(rng.randint(0, 12)))
                if len(content) > 3 * FS + 3: content = content[:FS]
                script.append({"op": "inject", "from": sd, "text": int(text), "content_hex": hx(content)})
                # the recorded content of an injected text message is its decode-replace image
                rec = content.decode("utf-8", "replace").encode() if text else content
                policy.append(self._edit(rng, text, rec)[0])
            elif r < 0.93:
                fr = {"t": "cl"}
                if rng.chance(0.8):
                    fr["code"] = rng.pick([1000, 1001, 1003, 1008, 1011, 3000, 4999])
                    fr["reason_hex"] = hx(rng.pick(["", "bye", "grüß", "x" * 50]).encode())
                frames = [fr]
                if rng.chance(0.12): frames.append({"t": "pi", "p_hex": "01"})   # data after the close frame, same segment
                script.append({"op": "frames", "from": sd, "frames": frames, "seg": []}); closed = True
            else:
                script.append({"op": "eof", "from": sd}); closed = True
            if closed:
                if rng.chance(0.3): script.append({"op": "frames", "from": rng.pick(["c", "s"]), "frames": [{"t": "b", "p_hex": "00"}], "seg": []})
                break
        deflate = int(rng.chance(0.4))
        if rng.chance(0.04) and not deflate:   # protocol violations (wsproto answers with a locally generated close)
            script.insert(rng.randint(0, len(script)), {"op": "frames", "from": rng.pick(["c", "s"]),
                          "frames": [rng.pick([{"t": "c", "p_hex": "00"}, {"t": "t", "p_hex": "ff"}, {"t": "cl", "p_hex": "00"}])], "seg": []})
        return {"kind": "layer", "deflate": deflate, "script": script, "policy": policy}

    TAILS = [b"\r", b"\n", b"\r\n", b"\n\r\n\n", b"\x00", b"\xff", b"a", b""]

    def _e2e_small(self, tier):
        """frames sharing a TCP segment with the `101` response / the upgrade request, payloads ending in every byte
        class, and every cut (quick: the cuts around the header end and inside the frames) of these short streams"""
        hdr = len(RESPONSE) + 2
        for tail in self.TAILS:
            for text in (1, 0):
                if text and not valid_utf8(tail): continue
                body = (b"a\nb" if tail else b"") + tail
                fr1 = {"t": "t" if text else "b", "fin": 1, "p_hex": hx(body)}
                fr2 = {"t": "b", "fin": 1, "p_hex": hx(b"\x01" + tail)}
                follow = [{"op": "frames", "from": "s", "frames": [{"t": "t", "fin": 1, "p_hex": hx(b"next")}], "seg": []}]
                for spiggy in ([fr1], [fr1, fr2], [{"t": "pi", "p_hex": hx(tail)}, fr1]):
                    yield {"kind": "e2e", "deflate": 0, "cpiggy": [], "spiggy": spiggy, "sseg": [], "script": follow, "policy": []}
                yield {"kind": "e2e", "deflate": 0, "cpiggy": [fr1], "spiggy": [], "sseg": [], "policy": [],
                       "script": [{"op": "frames", "from": "c", "frames": [{"t": "t", "fin": 1, "p_hex": hx(b"next")}], "seg": []}]}
                yield {"kind": "e2e", "deflate": 1, "cpiggy": [], "spiggy": [fr1, fr2], "sseg": [], "script": follow, "policy": []}
                total = hdr + 2 + len(body) + 2 + 1 + len(tail)
                cuts = range(1, total) if tier == "thorough" else [c for c in range(1, total) if c >= hdr - 3 or c % 29 == 0]
                if tail in (b"\r", b"\n", b"\r\n", b"\xff"):
                    for c in cuts:
                        yield {"kind": "e2e", "deflate": 0, "cpiggy": [], "spiggy": [fr1, fr2], "sseg": [c], "script": follow, "policy": []}

    def _uinc_case(self, rng):
        """the payloads of the frames of one text message, cut at arbitrary BYTE positions (also inside characters),
        valid text mostly, sometimes byte soup / a truncated last character"""
        r = rng.random()
        if r < 0.7: b = self._text(rng, rng.randint(0, 24))
        elif r < 0.85: b = self._text(rng, rng.randint(1, 12))[:-1]
        else: b = bytes(rng.pick(SOUP) for _ in range(rng.randint(1, 10)))
        k = rng.randint(1, 5)
        cuts = sorted(rng.randint(0, len(b)) for _ in range(k - 1))
        parts, prev = [], 0
        for c in cuts + [len(b)]:
            parts.append(b[prev:c]); prev = c
        return {"kind": "uinc", "chunks_hex": [hx(x) for x in parts]}

    def _wire_case(self, rng):
        client = rng.randint(0, 1)            # role of the receiver; the sender masks iff the receiver is the server
        frames, open_msg, valid, mtext, tbuf = [], False, True, False, b""
        for _ in range(rng.randint(1, 4)):
            q = rng.random()
            n = rng.pick([0, 1, 5, 124, 125, 126, 127, 300]) if rng.chance(0.85) else rng.pick([65535, 65536, 70000])
            if q < 0.65:
                op = 0 if open_msg else rng.pick([1, 2]); fin = int(rng.chance(0.6)); open_msg = not fin
                if op:
                    mtext = op == 1
                    # a text message is valid as a whole; its frames are cut at arbitrary byte positions, also inside
                    # characters (ties the transcription of wsproto's incremental decoder, `frameEventU`)
                    tbuf = ((b"a\xc3\xa9\xe2\x82\xac\xf0\x9f\x98\x80" * (n // 10 + 1))[:n]).decode("utf-8", "ignore").encode()
                if mtext:
                    c = len(tbuf) if fin else rng.randint(0, len(tbuf))
                    p, tbuf = tbuf[:c], tbuf[c:]
                else:
                    p = rng.bytes_(min(n, 40)) + b"\x00" * max(0, n - 40)
            else:
                op = rng.pick([8, 9, 10]); fin = 1; n = min(n, 125)
                p = (struct.pack("!H", rng.pick([1000, 1001, 1011, 3000, 4999, 999, 1005, 1016, 2999, 5000])) + b"bye")[: max(2, n)] if op == 8 else rng.bytes_(min(n, 20))
                if op == 8 and rng.chance(0.15): p = rng.pick([b"", b"\x03"])
            f = {"fin": fin, "rsv": 0, "op": op, "key_hex": None if client else hx(rng.bytes_(4)), "p_hex": hx(p)}
            r = rng.random()
            if r < 0.05: f["rsv"] = rng.randint(1, 7); valid = False
            elif r < 0.09: f["op"] = rng.pick([3, 7, 11, 15]); valid = False
            elif r < 0.12: f["key_hex"] = hx(rng.bytes_(4)) if client else None; valid = False
            elif r < 0.15 and op >= 8: f["fin"] = 0; valid = False
            elif r < 0.19 and len(p) <= 125: f["len_form"] = rng.pick([2, 8]); valid = False
            frames.append(f)
        if rng.chance(0.12) and len(frames) > 1:     # message sequencing violations (MessageDecoder)
            k = rng.randint(0, len(frames) - 1)
            if frames[k]["op"] in (0, 1, 2):      # (a binary payload is never relabelled as text: UTF-8 validity is a parameter)
                frames[k]["op"] = rng.pick([0, 2] if frames[k]["op"] != 1 else [0, 1, 2]); valid = False
        case = {"kind": "wire", "client": client, "frames": frames, "valid": int(valid), "events": 1}
        r = rng.random()
        total = len(wire_bytes(case))
        if r < 0.15 and total:
            # wsproto reports sequencing errors as soon as the header of an incomplete frame is in; the whole-frame
            # model waits for the frame -> on truncated streams only the complete frames are compared
            case["trunc"] = rng.randint(0, total - 1); case["events"] = 0
        elif r < 0.3 and total:
            # a byte of the header region is overwritten: payload bytes may shift, so text/close-reason UTF-8 validity
            # (a parameter of the model) is no longer known -> compare frames only, not events
            case["mut"] = [[rng.randint(0, min(total - 1, 13)), rng.getrandbits(8)]]; case["events"] = 0
        return case

    DEFLATE_PARAMS = ["server_no_context_takeover", "client_no_context_takeover",
                      "server_max_window_bits={b}", "client_max_window_bits={b}"]

    @staticmethod
    def _far_repeat(rng, dist):
        """incompressible bytes in which a 48-byte block recurs exactly `dist` bytes later (a back-reference of that distance)"""
        blk = rng.bytes_(48)
        return blk + rng.bytes_(max(0, dist - 48)) + blk

    def _deflate_script(self, rng, sd, pattern, bits):
        B = lambda p: {"op": "frames", "from": sd, "frames": [{"t": "b", "fin": 1, "p_hex": hx(p)}], "seg": []}
        if pattern == "repeat-message":       # a later message repeats an earlier one (context takeover or not)
            m = rng.bytes_(rng.pick([40, 200]))
            return [B(m), B(m), B(m[:20] + m)], 3
        d = (1 << bits) + rng.pick([-212, -60, -1, 0, 1, 60, 188, 700])
        if pattern == "far-repeat":           # a back-reference around the negotiated window size inside one message
            return [B(self._far_repeat(rng, d))], 1
        # the same distance across two messages
        blk = rng.bytes_(48)
        return [B(blk + rng.bytes_(max(0, d - 96))), B(blk + b"tail")], 2

    def _deflate_small(self, tier):
        """negotiated permessage-deflate parameter sets — each parameter alone and in pairs, in every position, window
        bits 9/10/15 (wsproto and zlib refuse 8) — x messages that repeat earlier data at distances around 2^bits,
        inside one message and across messages, in both directions; the in-memory peers are configured from the same
        negotiated header and therefore reject a back-reference they were promised not to get"""
        from common.prng import Rng
        rng = Rng(2806)
        sets = []
        for b in (9, 10, 15):
            singles = [p.format(b=b) for p in self.DEFLATE_PARAMS]
            sets += [[x] for x in singles]
            for i, x in enumerate(singles):
                for j, y in enumerate(singles):
                    if i != j and (tier == "thorough" or (i + j + b) % 3 == 0): sets.append([x, y])
        sets.append([p.format(b=9) for p in self.DEFLATE_PARAMS]); sets.append([p.format(b=10) for p in reversed(self.DEFLATE_PARAMS)])
        for ps in sets:
            bits = [int(x.split("=")[1]) for x in ps if "=" in x] or [15]
            for sd in ("c", "s"):
                for pattern in ("repeat-message", "far-repeat", "far-repeat-across"):
                    script, n = self._deflate_script(rng, sd, pattern, min(bits))
                    yield {"kind": "layer", "deflate": "; ".join(ps), "script": script, "policy": ["k"] * n}

    def _deflate_case(self, rng):
        b = rng.pick([9, 10, 11, 15])
        ps = [p.format(b=b) for p in self.DEFLATE_PARAMS]
        rng.shuffle(ps)
        ps = ps[:rng.randint(1, 4)]
        script, policy = [], []
        for _ in range(rng.randint(1, 3)):
            sc, n = self._deflate_script(rng, rng.pick(["c", "s"]), rng.pick(["repeat-message", "far-repeat", "far-repeat-across"]), b)
            script += sc
            for _ in range(n):
                policy.append(rng.pick(["k", "k", "k", "d", "e" + hx(self._far_repeat(rng, (1 << b) + rng.pick([-60, 188])))]))
        case = {"kind": "layer", "deflate": "; ".join(ps), "script": script, "policy": policy}
        if rng.chance(0.3):
            case = {"kind": "e2e", "deflate": case["deflate"], "cpiggy": [], "spiggy": [], "sseg": [], "script": script, "policy": policy}
        return case

    def _e2e_case(self, rng):
        base = self._layer_case(rng)
        def piggy():
            out = []
            for _ in range(rng.randint(1, 3)):
                q = rng.random()
                tail = rng.pick(self.TAILS)
                if q < 0.75:
                    text = rng.chance(0.5) and valid_utf8(tail)
                    body = (self._text(rng, rng.randint(0, 20)) if text else rng.bytes_(rng.randint(0, 20))) + tail
                    out.extend(self._split_frames(rng, text, body))
                else:
                    out.append({"t": rng.pick(["pi", "po"]), "p_hex": hx(rng.bytes_(rng.randint(0, 4)) + tail)})
            return out
        side = rng.pick(["s", "s", "c"])     # messages are piggybacked in one direction only (the recording order of
        sp = piggy() if side == "s" else []  # simultaneous early data of both directions is not part of the statement)
        cp = piggy() if side == "c" else []
        npre = sum(1 for f in sp + cp if f["t"] in ("t", "b", "c") and f.get("fin", 1))
        total = len(RESPONSE) + 2 + sum(len(unhx(f.get("p_hex", "-"))) + 4 for f in sp)
        sseg = [rng.randint(1, total) for _ in range(rng.pick([0, 0, 0, 1, 2]))]
        acts = []
        for f in sp + cp:
            if f["t"] in ("t", "b", "c") and f.get("fin", 1): acts.append("k" if rng.chance(0.8) else "d")
        return {"kind": "e2e", "deflate": base["deflate"], "cpiggy": cp, "spiggy": sp, "sseg": sorted(sseg) and sseg,
                "script": base["script"], "policy": acts + base["policy"]}

    def generate(self, rng, tier):
        # small-scope enumeration of the UTF-8 automaton: every 1- and a slice of 2/3-byte strings over the boundary bytes
        for a in range(256):
            yield {"kind": "san", "data_hex": hx(bytes([a]))}
        import itertools
        for t in itertools.product(SOUP, repeat=2):
            yield {"kind": "san", "data_hex": hx(bytes(t))}
        if tier == "thorough":
            for t in itertools.product(SOUP, repeat=3):
                yield {"kind": "san", "data_hex": hx(bytes(t))}
        yield from self._e2e_small(tier)
        yield from self._deflate_small(tier)
        n = 0
        while True:
            n += 1
            r = rng.random()
            if r < 0.02:
                yield self._e2e_case(rng)
            elif r < 0.035:
                yield self._deflate_case(rng)
            elif r < 0.10:
                yield self._wire_case(rng)
            elif r < 0.13:
                yield self._uinc_case(rng)
            elif r < 0.16:
                yield {"kind": "san", "data_hex": hx(bytes(rng.pick(SOUP) if rng.chance(0.8) else rng.getrandbits(8) for _ in range(rng.randint(1, 24))))}
            elif r < 0.955:
                yield self._frag_case(rng)
            else:
                yield self._layer_case(rng)

    # ---- implementation ------------------------------------------------------------------------
    def impl(self, case):
        k = case["kind"]
        if k == "san":
            return {"out": hx(unhx(case["data_hex"]).decode("utf-8", "replace").encode())}
        if k == "frag":
            frags = [unhx(f) for f in case["frags_hex"]]
            frames = []
            for m in W.Fragmentizer(frags, bool(case["text"]))(unhx(case["content_hex"])):
                if case["text"]:
                    assert isinstance(m, WE.TextMessage)
                    frames.append([hx(m.data.encode()), int(m.message_finished)])
                else:
                    assert isinstance(m, WE.BytesMessage)
                    frames.append([hx(bytes(m.data)), int(m.message_finished)])
            return {"frames": frames}
        if k == "uinc":
            # wsproto's MessageDecoder: one strict incremental UTF-8 decoder per text message, final on the last frame
            dec = codecs.getincrementaldecoder("utf-8")()
            chunks = [unhx(c) for c in case["chunks_hex"]]
            out = []
            try:
                for i, c in enumerate(chunks): out.append(hx(dec.decode(c, i == len(chunks) - 1).encode()))
            except UnicodeDecodeError:
                return {"out": "fail"}
            return {"out": ",".join(out)}
        if k == "wire": return run_wire(case)
        obs = run_e2e(case) if k == "e2e" else run_layer(case)
        self._last = (case, obs.pop("lines"))
        return obs

    # ---- oracle: the statement of C28 on the implementation's observable ------------------------
    def oracle(self, case, obs):
        k = case["kind"]
        fails = []
        if k == "san":
            return fails
        if k == "frag":
            content = unhx(case["content_hex"]); frags = [unhx(f) for f in case["frags_hex"]]
            frames = [(unhx(p), fin) for p, fin in obs["frames"]]
            # "delivered ... as one message": only the last fragment finishes the message
            if not frames or [f for _, f in frames] != [0] * (len(frames) - 1) + [1]:
                fails.append("fragments do not form exactly one message")
            joined = b"".join(p for p, _ in frames)
            # "content equals the recorded content" (a text message is UTF-8; other bytes cannot be sent as text)
            if (not case["text"] or valid_utf8(content)) and joined != content:
                fails.append(f"fragments concatenate to {joined[:40].hex()}… ({len(joined)} bytes), content is {content[:40].hex()}… ({len(content)} bytes)")
            # "unmodified messages keep their original frame boundaries"
            if content == b"".join(frags) and frags and (not case["text"] or all(valid_utf8(f) for f in frags)):
                if [p for p, _ in frames] != frags:
                    fails.append("unmodified message re-fragmented: " + str([len(p) for p, _ in frames]) + " vs " + str([len(f) for f in frags]))
            return fails
        if k == "uinc":
            joined = b"".join(unhx(c) for c in case["chunks_hex"])
            if valid_utf8(joined):
                got = None if obs["out"] == "fail" else b"".join(unhx(c) for c in obs["out"].split(","))
                if got != joined: fails.append(f"incremental decoding of valid text {joined.hex()} gave {obs['out']}")
            elif obs["out"] != "fail": fails.append(f"invalid text {joined.hex()} was decoded to {obs['out']}")
            return fails
        if k == "wire":
            # wsproto law used by the relay theorems: frames out = frames in (unmodified, complete, well-formed streams)
            if not case.get("mut") and case.get("trunc") is None and case.get("valid"):
                want = [f"{int(f['fin'])}.{f['op']}.{f['p_hex']}" for f in case["frames"]]
                if obs["fail"] or obs["frames"] != want:
                    fails.append(f"wsproto decoded {obs['frames']} fail={obs['fail']} from the frames {want}")
            return fails
        return self._layer_oracle(case, obs)

    def _layer_oracle(self, case, obs):
        fails = []
        items, close, weird = spec_of(case)
        if obs["errors"] and not weird:
            fails.append("layer raised " + obs["errors"][0])
            return fails
        if obs["state"] == "no-websocket": return fails + ["the upgrade did not reach the WebSocket layer"]
        # weird (a peer violated the protocol somewhere): everything sent BEFORE the violation is still owed
        toks = parse_tokens(obs["steps"])
        st = dict(kv.split("=", 1) for kv in obs["state"].split(" "))
        recorded = []
        if st["msgs"] != "-":
            for m in st["msgs"].split(","):
                head, c = m.split(":")
                recorded.append({"text": head[0] == "t", "from": head[1], "inj": head[2] == "i", "dropped": head[3] == "d", "content": unhx(c)})
        policy = case.get("policy", [])
        # expected recorded messages: every message a peer sent / an addon injected, once, in order, as edited by the addon
        src = [it for it in items if it[0] == "msg"]
        if (len(recorded) != len(src)) if not weird else (len(recorded) < len(src)):
            fails.append(f"{len(src)} messages sent/injected" + (" before the protocol violation" if weird else "") + f", {len(recorded)} recorded")
            return fails
        deliv = {"c": [], "s": []}
        for sd in ("c", "s"):
            if sd in obs["peer_partial"]: fails.append(f"peer {sd} was left with an unfinished message")
            for it in obs["peer"][sd]:
                if it[0] == "m":
                    if it[1] == "mixed": fails.append("peer saw a message with mixed frame types")
                    deliv[sd].append((it[1] == "t", [unhx(x) for x in it[2]]))
        other = {"c": "s", "s": "c"}
        sent_bursts = {"c": [], "s": []}
        for t in toks:
            if t[0] == "M":
                sd2, _, frs2 = t[1:].split(".", 2)
                sent_bursts[sd2].append([unhx(f[:-1]) for f in frs2.split(";") if f[-1] in "+!"])
        idx_by_dir = {"c": 0, "s": 0}
        nrecv = 0
        for i, (it, rec) in enumerate(zip(src, recorded)):
            _, sd, text, frs, inj = it
            orig = b"".join(frs)
            if inj and text: orig_rec = orig.decode("utf-8", "replace").encode()
            else: orig_rec = orig
            act = policy[i] if i < len(policy) else "k"
            want = orig_rec if act in ("k", "d") else unhx(act[1:])
            if (rec["text"], rec["from"], rec["inj"]) != (text, sd, inj):
                fails.append(f"message {i}: recorded type/direction/injected differ from what was sent"); continue
            if rec["content"] != want:
                fails.append(f"message {i}: recorded content {rec['content'][:30].hex()} differs from the sent/edited content {want[:30].hex()}"); continue
            if rec["dropped"] != (act == "d"):
                fails.append(f"message {i}: dropped flag wrong"); continue
            if rec["dropped"]:
                if not inj: nrecv += 1
                continue
            # delivered exactly once, in order, same type, content equals the recorded content
            dl = deliv[other[sd]]
            j = idx_by_dir[sd]; idx_by_dir[sd] += 1
            if j >= len(dl):
                fails.append(f"message {i} ({'text' if text else 'binary'} from {sd}) was not delivered"); continue
            dtext, pay = dl[j]
            if dtext != rec["text"]: fails.append(f"message {i}: delivered with the other type")
            if not rec["text"] or valid_utf8(rec["content"]):
                if b"".join(pay) != rec["content"]:
                    fails.append(f"message {i}: delivered content differs from the recorded content ({len(b''.join(pay))} vs {len(rec['content'])} bytes)")
            # unmodified messages keep their original frame boundaries
            if not inj: nrecv += 1
            if act == "k" and not inj:
                # reference boundaries: what an independent wsproto receiver decodes from the sender's stream
                # (under permessage-deflate the compressor decides which frame carries which bytes);
                # without deflate they are cross-checked against the raw frame payloads
                ref = [unhx(x) for x in obs["src_frames"][nrecv - 1]] if nrecv - 1 < len(obs["src_frames"]) else None
                if not case.get("deflate") and ref != (text_boundaries(frs) if text else frs):
                    fails.append(f"message {i}: harness reference boundaries inconsistent"); continue
                if case.get("deflate"):
                    # frame boundaries of the uncompressed data are not observable through the deflate codec:
                    # compare the events handed to wsproto instead of what the peer decompresses per frame
                    pay = sent_bursts[other[sd]][j] if j < len(sent_bursts[other[sd]]) else None
                if pay != ref:
                    fails.append(f"message {i}: unmodified but frame boundaries changed {[len(p) for p in pay]} vs {[len(p) for p in ref]}")
        for sd in ("c", "s"):
            if not weird and idx_by_dir[sd] != len(deliv[other[sd]]):
                fails.append(f"peer {other[sd]} received {len(deliv[other[sd]])} messages, {idx_by_dir[sd]} expected (duplicate or spurious delivery)")
        # pings and pongs are relayed
        for kind, tok in (("ping", "PI"), ("pong", "PO")):
            for sd in ("c", "s"):
                want = [hx(p) for k2, s2, p in [it for it in items if it[0] in ("ping", "pong")] if k2 == kind and s2 == sd]
                got = [it[1] for it in obs["peer"][other[sd]] if it[0] == tok.lower()]
                if (want != got) if not weird else (got[:len(want)] != want):
                    fails.append(f"{kind}s from {sd}: sent {want} relayed {got}")
        # the close code and reason recorded for the flow are those the closing peer sent
        if close is not None and close[3] == "frame":
            want = f"{close[0]}.{close[1]}.{hx(close[2].encode())}"
            if st["closed"] != want: fails.append(f"close recorded as {st['closed']}, peer sent {want}")
        return fails

    # ---- model tie -----------------------------------------------------------------------------
    def model_lines(self, case):
        k = case["kind"]
        if k == "san": return ["san " + case["data_hex"]]
        if k == "frag":
            lens = ",".join(str(len(unhx(f))) for f in case["frags_hex"]) or "-"
            return [f"frag {case['text']} {lens} {case['content_hex']}"]
        if k == "uinc": return ["uinc " + ",".join(case["chunks_hex"])]
        if k == "wire":
            h = hx(wire_bytes(case))
            lines = [f"fdec {case['client']} {h}"]
            if case.get("events"): lines.append(f"fev {case['client']} {h}")
            for f in case["frames"]:
                lines.append(f"fenc {int(f['fin'])} {f['rsv']} {f['op']} {'none' if f.get('key_hex') is None else f['key_hex']} {f['p_hex']}")
            return lines
        # layer cases: the model consumes the events a shadow wsproto connection yields for the same bytes;
        # impl() has just computed them for this very case (same process), otherwise re-run
        last = getattr(self, "_last", None)
        lines = last[1] if last is not None and last[0] is case else (run_e2e if k == "e2e" else run_layer)(case)["lines"]
        return ["reset", "policy " + " ".join(case.get("policy", []))] + lines + ["state"]

    def model_obs(self, case, replies):
        if case["kind"] == "uinc": return replies[0]
        if case["kind"] == "wire":
            fr, tail = replies[0].rsplit(" | ", 1)
            frames = [] if fr == "-" else [".".join([t.split(".")[0], t.split(".")[2], t.split(".")[4]]) for t in fr.split(" ")]
            out = {"frames": frames, "fail": tail.endswith("fail")}
            i = 1
            if case.get("events"): out["events"] = replies[1]; i = 2
            out["enc"] = [r for r in replies[i:]]
            return out
        if case["kind"] == "e2e":
            # whole-run comparison: the order of the events is the one the WebSocket layer actually saw
            toks = [t for r in replies[2:-1] if r != "-" for t in r.split(" ")]
            return {"steps": [" ".join(toks) if toks else "-"], "state": replies[-1]}
        if case["kind"] == "layer":
            out = list(replies[2:-1])
            return {"steps": out, "state": replies[-1]}
        return replies[0]

    def impl_view(self, case, obs):
        k = case["kind"]
        if k == "san": return obs["out"]
        if k == "frag": return ";".join(p + ("!" if fin else "+") for p, fin in obs["frames"])
        if k == "uinc": return obs["out"]
        if k == "wire":
            out = {"frames": obs["frames"], "fail": obs["fail"]}
            if case.get("events"): out["events"] = obs["events"]
            # frames wsproto cannot serialise are compared against the independent serialiser instead
            out["enc"] = [e if e is not None else hx(raw_frame({k2: v for k2, v in f.items() if k2 != "len_form"}))
                          for e, f in zip(obs["enc"], case["frames"])]
            return out
        return {"steps": obs["steps"], "state": obs["state"]}

    def classify(self, case, obs):
        k = case["kind"]
        if k == "san": return ("san", case["data_hex"])
        if k == "frag": return ("frag", case["text"], tuple(case["frags_hex"]), case["content_hex"])
        if k == "uinc": return ("uinc", tuple(case["chunks_hex"]))
        if k == "wire": return ("wire", case["client"], hx(wire_bytes(case)))
        return (k, str(virtual_script(case)), str(case.get("sseg")), str(case["policy"]), case["deflate"])

    def branches(self, case, obs):
        k = case["kind"]
        if k == "san":
            return ["san:changed" if obs["out"] != case["data_hex"] else "san:valid"]
        if k == "frag":
            content = unhx(case["content_hex"]); frags = [unhx(f) for f in case["frags_hex"]]
            out = ["frag:text" if case["text"] else "frag:binary", "frag:nframes=%s" % min(len(obs["frames"]), 4)]
            out.append("frag:same-length" if len(content) == sum(map(len, frags)) else "frag:rechunk")
            if content == b"".join(frags): out.append("frag:unmodified")
            if case["text"]:
                if not valid_utf8(content): out.append("frag:invalid-utf8")
                else:
                    lens = [len(unhx(p)) for p, _ in obs["frames"]]
                    if len(content) != sum(map(len, frags)) and any(l not in (FS, 0) for l in lens[:-1]): out.append("frag:cut-moved-back")
            return out
        if k == "uinc":
            return ["uinc:fail" if obs["out"] == "fail" else "uinc:ok", "uinc:chunks=%d" % min(len(case["chunks_hex"]), 4)]
        if k == "wire":
            out = ["wire:fail" if obs["fail"] else "wire:ok", "wire:nframes=%d" % min(len(obs["frames"]), 4)]
            for f in case["frames"]:
                n = len(unhx(f["p_hex"]))
                out.append("wire:len7" if n <= 125 else ("wire:len16" if n <= 65535 else "wire:len64"))
                out.append("wire:masked" if f.get("key_hex") is not None else "wire:unmasked")
            if case.get("mut"): out.append("wire:mutated")
            if case.get("trunc") is not None: out.append("wire:truncated")
            if obs["events"] == "fail": out.append("wire:event-fail")
            return sorted(set(out))
        out = [f"{k}:deflate" if case["deflate"] else f"{k}:plain"]
        if isinstance(case["deflate"], str):
            for i, prm in enumerate(case["deflate"].split("; ")):
                out.append(f"deflate:{prm.split('=')[0]}@{min(i, 2)}")
                if "=" in prm: out.append("deflate:bits=" + prm.split("=")[1])
        for op in case["script"]: out.append(f"{k}:op:" + op["op"])
        for a in case["policy"]: out.append(f"{k}:policy:" + a[0])
        if k == "e2e":
            if case.get("spiggy"): out.append("e2e:frames-in-101-segment")
            if case.get("cpiggy"): out.append("e2e:frames-behind-upgrade-request")
            fr = (case.get("spiggy") or [{}])[-1]
            tail = unhx(fr.get("p_hex", "-"))[-1:] if fr else b""
            if case.get("spiggy") and not case.get("sseg"):
                out.append("e2e:101-segment-ends-" + ("crlf" if tail in (b"\r", b"\n") else "other"))
        if obs["errors"]: out.append(f"{k}:crash")
        if "closed=none" not in obs["state"]: out.append(f"{k}:closed")
        return sorted(set(out))

    def known(self, case, obs, failure):
        return None          # C28 has no recorded finding: every oracle failure is reported

    def known_selftest(self):
        """no classifier exists, so nothing may ever be excused: known() must be None for every clause of the oracle
        (also on the witnesses of the two repaired defects), and known/C28.json must not list findings"""
        import json as _j, os as _o
        from common.paths import VERIF
        kj = _j.load(open(_o.path.join(VERIF, "known", "C28.json")))
        assert kj.get("findings") == [], "known/C28.json lists findings but harness/c28.py has no classifier"
        big = ("a" + "é" * 3000).encode()
        probes = [({"kind": "frag", "text": 1, "frags_hex": [], "content_hex": hx(big)}, "fragments concatenate to … content is …"),
                  ({"kind": "frag", "text": 1, "frags_hex": ["6162", "6364"], "content_hex": "61c3a964"}, "unmodified message re-fragmented"),
                  ({"kind": "layer", "deflate": 0, "policy": [], "script": []}, "message 0: delivered content differs from the recorded content"),
                  ({"kind": "layer", "deflate": 0, "policy": [], "script": []}, "1 messages sent/injected, 0 recorded"),
                  ({"kind": "e2e", "deflate": 0, "policy": [], "script": []}, "pings from c: sent ['01'] relayed []"),
                  ({"kind": "layer", "deflate": 0, "policy": [], "script": []}, "close recorded as c.1000.-, peer sent c.1001.-"),
                  ({"kind": "wire", "client": 0, "frames": []}, "wsproto decoded [] fail=True from the frames […]")]
        for case, failure in probes:
            assert self.known(case, {}, failure) is None, f"known() excuses {failure!r}"

    def neighbours(self, case, rng):
        if case["kind"] == "frag":
            c = unhx(case["content_hex"])
            for ch in ("é", "€", "😀"):
                for pos in (0, 1, max(0, FS - 1), FS, 2 * FS - 1):
                    if pos <= len(c):
                        n = c[:pos] + ch.encode() + c[pos:]
                        yield {**case, "content_hex": hx(n)}
        for _ in range(300):
            yield self._frag_case(rng)
        for _ in range(100):
            yield self._layer_case(rng)
        for _ in range(100):
            yield self._e2e_case(rng)

    def exhaustive(self, tier):
        yield from self._e2e_small("thorough")
        yield from self._deflate_small("thorough")
        # every (text) fragmentation of short two-character strings against every pair of original lengths
        for s in ("aé", "é€", "€😀", "😀a", "ééé"):
            b = s.encode()
            for l1 in range(len(b) + 1):
                yield {"kind": "frag", "text": 1, "frags_hex": [hx(b"f" * l1), hx(b"f" * (len(b) - l1))], "content_hex": hx(b)}
        big = ("a" + "é" * (FS // 2 + 50)).encode()
        yield {"kind": "frag", "text": 1, "frags_hex": [], "content_hex": hx(big)}
        yield {"kind": "layer", "deflate": 0, "policy": ["e" + hx(big)],
               "script": [{"op": "frames", "from": "c", "frames": [{"t": "t", "fin": 1, "p_hex": hx(b"hi")}], "seg": []}]}
