"""C29 — raw TCP and UDP relaying is exact and each flow ends once
(mitmproxy/proxy/layers/tcp.py, udp.py; the pause/replay logic of mitmproxy/proxy/layer.py).

The real TCPLayer / UDPLayer is driven through harness/common/world.py.  Every layer hook and every
OpenConnection is *deferred*, so the schedule of the case decides when the reply arrives; everything the
world hands to the layer (incl. the ConnectionClosed it produces itself after a close command and at client
teardown) is logged as one model input, the commands of that handle_event call and the connection states
after it are the compared observable.
"""
import itertools

from common.check import PropertyCheck, hx, unhx
from common.world import World, make_context
from mitmproxy import connection, tcp, udp
from mitmproxy.connection import ConnectionState
from mitmproxy.proxy import commands, events
from mitmproxy.proxy.layers import tcp as ltcp, udp as ludp

SIDE = {"c": "client", "s": "server"}
LAYER_HOOKS = (ltcp.TcpStartHook, ltcp.TcpMessageHook, ltcp.TcpEndHook, ltcp.TcpErrorHook,
               ludp.UdpStartHook, ludp.UdpMessageHook, ludp.UdpEndHook, ludp.UdpErrorHook)


_OPTS = None


def bits(conn):
    return ("r" if conn.state & ConnectionState.CAN_READ else "-") + ("w" if conn.state & ConnectionState.CAN_WRITE else "-")


class RecWorld(World):
    """World + (a) commands are executed while the layer's generator is being consumed, as
    ConnectionHandler.server_event does (World._handle materialises the list first), (b) a log with one
    entry per handle_event call: the model input it corresponds to, the raw commands, the states after."""

    def __init__(self, *a, **kw):
        super().__init__(*a, **kw)
        self.log = []
        self.edit_repr = "none"
        self.inner = None          # the TCP/UDP layer whose state is logged (default: the top layer)
        self.force_in = None       # label for deliveries that belong to a tunnel handshake
        self.transport = None      # tunnel family: the real connection (to the proxy) carrying ctx.server
        self.dead = ""             # sides ("c"/"s") whose writer.write_eof() raises OSError
        self.connect_failed = False

    def _close(self, conn, half_close):
        # ConnectionHandler.close_connection, `except OSError` branch: "if we can't write to the socket anymore we
        # presume it completely dead": state CLOSED, handler cancelled (-> ConnectionClosed if it was still reading)
        if half_close and self.side(conn) in self.dead and (conn.state & ConnectionState.CAN_WRITE):
            had_read = bool(conn.state & ConnectionState.CAN_READ)
            conn.state = ConnectionState.CLOSED
            self.trace.append(("close", self.label(conn), True))
            self.queue.append(("closed_by_command" if had_read else "closed_quietly", conn))
            return
        super()._close(conn, half_close)

    def side(self, conn):
        return "c" if conn is self.ctx.client else "s"

    def server_bits(self):
        """state of the server side as the relay is about to see it: under a tunnel the virtual connection loses
        CAN_READ (inside the tunnel layer) as soon as the transport connection has"""
        b = bits(self.ctx.server)
        t = self.transport
        if t is not None and t.timestamp_start is not None and not (t.state & ConnectionState.CAN_READ):
            b = "-" + b[1]
        return b

    def describe(self, ev):
        if isinstance(ev, events.Start): return "start"
        if isinstance(ev, events.DataReceived): return f"data {self.side(ev.connection)} {hx(ev.data)}"
        if isinstance(ev, events.ConnectionClosed):
            return f"closed {self.side(ev.connection)} {1 if ev.connection.state is ConnectionState.CLOSED else 0}"
        if isinstance(ev, events.MessageInjected):
            return f"inject {1 if ev.message.from_client else 0} {hx(ev.message.content)}"
        if isinstance(ev, events.HookCompleted):
            return "hookkill" if self.edit_repr == "kill" else f"hook {self.edit_repr}"
        if isinstance(ev, events.OpenConnectionCompleted):
            # the model gets the reply itself (None / "" / message) and applies the layers' `if err:` on its own
            return "connectr " + ("none" if ev.reply is None else hx(ev.reply.encode()))
        return "?" + type(ev).__name__

    def render(self, c):
        if isinstance(c, ltcp.TcpStartHook) or isinstance(c, ludp.UdpStartHook): return "H:start"
        if isinstance(c, (ltcp.TcpMessageHook, ludp.UdpMessageHook)):
            m = c.flow.messages[-1]
            return f"H:msg:{'c' if m.from_client else 's'}:{hx(m.content)}"
        if isinstance(c, (ltcp.TcpEndHook, ludp.UdpEndHook)): return "H:end"
        if isinstance(c, (ltcp.TcpErrorHook, ludp.UdpErrorHook)): return "H:err"
        if isinstance(c, commands.OpenConnection): return "O"
        if isinstance(c, commands.SendData): return f"S:{self.side(c.connection)}:{hx(c.data)}"
        if isinstance(c, commands.CloseTcpConnection): return f"C:{self.side(c.connection)}:{'h' if c.half_close else 'f'}"
        if isinstance(c, commands.CloseConnection): return f"C:{self.side(c.connection)}:f"
        if isinstance(c, commands.Log): return None
        return "?" + type(c).__name__

    def _handle(self, event):
        ent = {"in": self.force_in or self.describe(event), "out": [], "pre": bits(self.ctx.client) + self.server_bits()}
        if isinstance(event, events.OpenConnectionCompleted) and self.connect_failed: ent["failed"] = True
        self.log.append(ent)
        try:
            for c in self.layer.handle_event(event):
                r = self.render(c)
                if self.force_in and isinstance(c, commands.SendData) and c.connection is not self.ctx.client:
                    r = None        # the tunnel protocol's own handshake bytes (CONNECT request) are not relayed data
                if r is not None and not r.startswith("?HttpConnectUpstreamHook"): ent["out"].append(r)
                self._command(c)
        except Exception as e:
            import traceback
            self.errors.append((type(e).__name__, str(e), traceback.format_exc()))
            ent["out"].append("X:" + type(e).__name__)
        lay = self.inner or self.layer
        ent["c"], ent["s"] = bits(self.ctx.client), bits(self.ctx.server)
        ent["ph"] = {"start": "start", "relay_messages": "relay", "done": "done"}.get(lay._handle_event.__name__, "?")
        ent["paused"] = 0 if lay._paused is None else 1
        ent["q"] = len(lay._paused_event_queue)
        ent["n"] = len(lay.flow.messages) if lay.flow else 0
        ent["live"], ent["err"] = flow_flags(lay)
        ent["m"] = flow_msgs(lay)


def set_last(flow, content):
    """the addon rewrites messages[-1]: in place, or (for every second content) by putting a NEW message object into
    the list - after the message hook the layers forward whatever object the flow holds at that index"""
    if len(content) % 2 == 0:
        old = flow.messages[-1]
        flow.messages[-1] = type(old)(old.from_client, content)
    else:
        flow.messages[-1].content = content


FAIL_KINDS = {
    "refused": lambda: ConnectionRefusedError(111, "Connection refused"),
    "timeout": lambda: TimeoutError(),              # str() == "": what a connect timeout looks like
    "oserror": lambda: OSError(),
    "connerr": lambda: ConnectionError(),
    "gaierror": lambda: __import__("socket").gaierror(-2, "Name or service not known"),
    "cancel": lambda: __import__("asyncio").CancelledError(),
}


def real_open_connection_failure(ctx, cmd, kind):
    """run the REAL ConnectionHandler.open_connection for `cmd` with a transport stub that raises; return
    (reply the handler completes the command with, str(exception))"""
    import asyncio
    import mitmproxy_rs
    from mitmproxy.proxy import server as pserver
    exc = FAIL_KINDS[kind]()

    class Handler(pserver.ConnectionHandler):
        captured = None

        async def handle_hook(self, hook): pass

        def log(self, *a, **k): pass

        async def server_event(self, event): self.captured = event

    async def failing(*a, **k):
        raise exc

    async def main():
        h = Handler(ctx)
        try:
            await h.open_connection(cmd)
        except asyncio.CancelledError:
            pass
        return h.captured
    real_tcp, real_udp = asyncio.open_connection, mitmproxy_rs.udp.open_udp_connection
    asyncio.open_connection = failing
    mitmproxy_rs.udp.open_udp_connection = failing
    try:
        ev = asyncio.run(main())
    finally:
        asyncio.open_connection, mitmproxy_rs.udp.open_udp_connection = real_tcp, real_udp
    cmd.connection.timestamp_start = None      # the attempt set it; the layers key on it only before they ask to connect
    return ev.reply, str(exc)


def do_connect_action(w, ctx, cmd, what, openreplies):
    """what: 0 success | 1 failure reported by the world ("boom") | a FAIL_KINDS key: failure through the real
    open_connection | "emptyok": the transport is up but the reply is "" (layer-level boundary: "" is not an error)"""
    if what in FAIL_KINDS:
        reply, msg = real_open_connection_failure(ctx, cmd, what)
        openreplies.append(["cancelled" if what == "cancel" else "oserror", hx(msg.encode()), "none" if reply is None else hx(reply.encode())])
        w.deferred_connects.remove(cmd)
        w.connect_failed = True        # the harness's own transport stub failed: input-derived fact for the oracle
        # the connection was never opened: it stays CLOSED and outside the transports, whatever the reply says
        w.deliver(events.OpenConnectionCompleted(cmd, reply))
    elif what == "emptyok":
        conn = cmd.connection
        w.deferred_connects.remove(cmd)
        conn.timestamp_start = 1.0; conn.state = ConnectionState.OPEN
        conn.peername = conn.peername or conn.address; conn.sockname = conn.sockname or ("127.0.0.1", 50000)
        w.transports.add(conn)
        w.deliver(events.OpenConnectionCompleted(cmd, ""))
    elif what:
        w.connect_failed = True
        w.finish_connect(cmd, "boom")
    else:
        w.finish_connect(cmd, None)


def flow_msgs(lay):
    """contents of flow.messages as the model renders them: direction + bytes of every message"""
    f = getattr(lay, "flow", None)
    if f is None or not f.messages: return "-"
    return ",".join(("c" if m.from_client else "s") + ":" + hx(m.content) for m in f.messages)


def flow_flags(lay):
    f = getattr(lay, "flow", None)
    return (1, 0) if f is None else (1 if f.live else 0, 1 if f.error else 0)


def run_schedule(case):
    proto, flow, connected = case["proto"], bool(case["flow"]), bool(case["connected"])
    global _OPTS
    if _OPTS is None: _OPTS = make_context(proto).options
    ctx = make_context(proto, opts=_OPTS)
    ctx.server = connection.Server(address=("192.0.2.9", 4433), transport_protocol=proto)
    cls = ltcp.TCPLayer if proto == "tcp" else ludp.UDPLayer
    lay = cls(ctx, ignore=not flow)

    def on_hook(w, h):
        return "defer" if isinstance(h, LAYER_HOOKS) else None

    w = RecWorld(lay, ctx, on_hook=on_hook, on_connect=lambda w, c: "defer")
    w.dead = case.get("dead", "")
    if connected:
        ctx.server.timestamp_start = 1.0
        w.add_open_server(ctx.server)
    conn = {"c": ctx.client, "s": ctx.server}
    dummy = (tcp.TCPFlow if proto == "tcp" else udp.UDPFlow)(ctx.client, ctx.server, True)
    inj_cls = ltcp.TcpMessageInjected if proto == "tcp" else ludp.UdpMessageInjected
    msg_cls = tcp.TCPMessage if proto == "tcp" else udp.UDPMessage
    killed = 0
    openreplies = []

    def do_hook(edit):
        nonlocal killed
        if not w.deferred_hooks: return
        h = w.deferred_hooks[0]
        w.edit_repr = "none"
        if edit == "kill":
            # flow.kill() inside any of the layer's hooks (only legal while the flow is killable)
            if h.flow.killable: h.flow.kill(); killed += 1; w.edit_repr = "kill"
        elif isinstance(h, (ltcp.TcpMessageHook, ludp.UdpMessageHook)) and edit is not None:
            set_last(h.flow, unhx(edit))
            w.edit_repr = edit
        w.resume(h)

    w.start()
    for act in case["sched"]:
        k = act[0]
        if k == "data":
            w.deliver(events.DataReceived(conn[act[1]], unhx(act[2])))
        elif k == "inject":
            w.deliver(inj_cls(lay.flow or dummy, msg_cls(bool(act[1]), unhx(act[2]))))
        elif k == "close":
            c = conn[act[1]]
            # server.py handle_connection: update the state, deliver ConnectionClosed, keep the handler only if CAN_WRITE is left
            if act[2] or proto == "udp": c.state = ConnectionState.CLOSED
            else: c.state &= ~ConnectionState.CAN_READ
            w.deliver(events.ConnectionClosed(c))
            if c.state is not ConnectionState.CAN_WRITE:
                w._discard(c); w.drain()
        elif k == "hook":
            do_hook(act[1])
        elif k == "connect":
            if w.deferred_connects:
                do_connect_action(w, ctx, w.deferred_connects[0], act[1], openreplies)
        else:
            raise ValueError(act)
    # let everything that is still pending complete (no edits, connect succeeds): the run ends quiescent
    for _ in range(200):
        if w.deferred_hooks: do_hook(None)
        elif w.deferred_connects: w.finish_connect(w.deferred_connects[0], None)
        else: break
    msgs = [[1 if m.from_client else 0, hx(m.content)] for m in lay.flow.messages] if lay.flow else []
    return {"steps": w.log, "errors": [e[:2] for e in w.errors], "msgs": msgs,
            "live": bool(lay.flow.live) if lay.flow else None,
            "has_error": bool(lay.flow.error) if lay.flow else None, "killed": killed,
            "quiescent": lay._paused is None, "openreplies": openreplies}


class ChildTap:
    """sits between a TunnelLayer and its TCPLayer child: logs every event the child receives, the commands it
    yields for it and its state afterwards (the model tie of the tunnel family is made at this boundary)"""

    def __init__(self, inner, world):
        self.inner, self.w, self.log = inner, world, []

    def __getattr__(self, name):
        return getattr(self.inner, name)

    def handle_event(self, event):
        w, lay = self.w, self.inner
        ent = {"in": w.describe(event), "out": []}
        self.log.append(ent)

        def snap():
            ent["ph"] = {"start": "start", "relay_messages": "relay", "done": "done"}.get(lay._handle_event.__name__, "?")
            ent["paused"] = 0 if lay._paused is None else 1
            ent["q"] = len(lay._paused_event_queue)
            ent["n"] = len(lay.flow.messages) if lay.flow else 0
            ent["live"], ent["err"] = flow_flags(lay)
            ent["m"] = flow_msgs(lay)
        frozen = False
        try:
            for c in lay.handle_event(event):
                r = w.render(c)
                if r is not None: ent["out"].append(r)
                if isinstance(c, commands.OpenConnection):
                    # the child is now paused on this command; the tunnel layer keeps this generator suspended until the
                    # transport connection is up, so the child's state *for this call* is the one right now
                    snap(); frozen = True
                yield c
        finally:
            if not frozen: snap()


def run_schedule_tunnel(case):
    """the real TCPLayer UNDER a real tunnel layer: HttpUpstreamProxy (CONNECT tunnel, tunnel.py base class).
    ctx.server is the tunnelled (virtual) connection, the world only ever sees the connection to the proxy."""
    from mitmproxy.proxy.layers.http._upstream_proxy import HttpUpstreamProxy
    global _OPTS
    if _OPTS is None: _OPTS = make_context("tcp").options
    ctx = make_context("tcp", opts=_OPTS)
    ctx.server = connection.Server(address=("192.0.2.9", 4433))
    proxy = connection.Server(address=("192.0.2.77", 3128))
    tun = HttpUpstreamProxy(ctx, proxy, True)
    lay = ltcp.TCPLayer(ctx)

    w = RecWorld(tun, ctx, on_hook=lambda w, h: "defer" if isinstance(h, LAYER_HOOKS) else None,
                 on_connect=lambda w, c: "defer")
    w.inner = lay
    w.transport = proxy
    tap = ChildTap(lay, w)
    tun.child_layer = tap
    # both the virtual connection and the proxy connection are the "server" side of the relay
    tunnel_up = False
    killed = 0
    openreplies = []

    def do_hook(edit):
        nonlocal killed
        if not w.deferred_hooks: return
        h = w.deferred_hooks[0]
        w.edit_repr = "none"
        if edit == "kill":
            if h.flow.killable: h.flow.kill(); killed += 1; w.edit_repr = "kill"
        elif isinstance(h, ltcp.TcpMessageHook) and edit is not None:
            set_last(h.flow, unhx(edit)); w.edit_repr = edit
        w.resume(h)

    def do_connect(err):
        nonlocal tunnel_up
        if not w.deferred_connects: return
        cmd = w.deferred_connects[0]
        if err:
            do_connect_action(w, ctx, cmd, err if err != "emptyok" else 1, openreplies); return
        # TCP connect to the proxy succeeds, CONNECT request goes out, the proxy answers 200: one atomic step
        w.force_in = "handshake"
        try:
            w.finish_connect(cmd, None)
            w.deliver(events.DataReceived(proxy, b"HTTP/1.1 200 Connection established\r\n\r\n"))
        finally:
            w.force_in = None
        tunnel_up = True

    w.start()
    for act in case["sched"]:
        k = act[0]
        if k == "data":
            if act[1] == "s":
                if tunnel_up: w.deliver(events.DataReceived(proxy, unhx(act[2])))
            else:
                w.deliver(events.DataReceived(ctx.client, unhx(act[2])))
        elif k == "inject":
            w.deliver(ltcp.TcpMessageInjected(lay.flow, tcp.TCPMessage(bool(act[1]), unhx(act[2]))))
        elif k == "close":
            c = ctx.client if act[1] == "c" else proxy
            if c is proxy and not tunnel_up: continue
            if act[2]: c.state = ConnectionState.CLOSED
            else: c.state &= ~ConnectionState.CAN_READ
            w.deliver(events.ConnectionClosed(c))
            if c.state is not ConnectionState.CAN_WRITE:
                w._discard(c); w.drain()
        elif k == "hook":
            do_hook(act[1])
        elif k == "connect":
            do_connect(act[1])
        else:
            raise ValueError(act)
    for _ in range(200):
        if w.deferred_hooks: do_hook(None)
        elif w.deferred_connects: do_connect(0)
        else: break
    msgs = [[1 if m.from_client else 0, hx(m.content)] for m in lay.flow.messages]
    return {"steps": w.log, "csteps": tap.log, "errors": [e[:2] for e in w.errors], "msgs": msgs,
            "live": bool(lay.flow.live), "has_error": bool(lay.flow.error), "killed": killed,
            "quiescent": lay._paused is None and tun._paused is None, "openreplies": openreplies}


def well_formed(case):
    """schedule server.py could produce: one ConnectionClosed per connection, no data after it"""
    closed = set()
    for a in case["sched"]:
        if a[0] == "close":
            if a[1] in closed: return False
            closed.add(a[1])
        elif a[0] == "data" and a[1] in closed: return False
    return True


class Check(PropertyCheck):
    prop = "C29"
    design_ref = "§5 C29"
    level_text = ("Lean theorems over ALL input schedules (every interleaving of the two directions, hooks pending, injections, addon "
                  "edits, flow.kill() inside any hook [Input.hookKill], half/full closes in any order, connect results) of the "
                  "TCPLayer/UDPLayer + Layer pause/replay-queue model: relay_exact_per_direction (+ "
                  "recorded_messages_are_arrivals_with_edits: whole history, recorded = arrivals with the addon's edit of each "
                  "completed message hook applied one for one, one_recorded_message_per_completed_hook; addon_edit_is_what_is_sent, "
                  "inject_is_spoofed_data, kill_in_message_hook_still_relays, kill_is_plain_completion + kill_is_plain_completion_cases (which disjunct: ignored exactly when no hook is pending)), "
                  "half_close_propagated_while_other_direction_flows, half_close_emitted_once_quiescent (closes buffered behind "
                  "hooks), full_close_only_when_ending, tcp_ends_only_when_both_directions_closed, at_most_one_end_or_error, "
                  "exactly_one_end_or_error (+ exactly_one_end_or_error_of_schedule: `started` derived from Start being in the "
                  "schedule), connect_failure_fires_error, never_connected_relays_nothing (whole history: without a "
                  "successful OpenConnection only start hook / OpenConnection / error hook / client close are ever yielded), "
                  "nothing_relayed_after_end, "
                  "open_connection_reply_truthy_iff_failed + failed_connect_ends_flow_with_error + empty_reply_is_taken_as_success "
                  "(OpenConnectionCompleted.reply is None / \"\" / message; the layers' `if err:` takes \"\" as success, and the "
                  "modelled open_connection mapping never yields it for a failure, whatever str(exception) is), "
                  "messages_handled_in_arrival_order + handled_is_prefix_of_arrivals (the message hooks fired, followed by the data "
                  "still in the pause queue, are exactly the data/injected events delivered after Start, in delivery order: "
                  "the replay of buffered events never reorders); the *_any_sockets variants "
                  "(relay exact, at most one end/error, nothing after end, no full close while relaying) also hold when "
                  "write_eof raises OSError on either socket (close_connection's except branch, initX). Proved by invariants "
                  "over the run, no bound on schedule length. Tie: step-by-step comparison with the real layers through world.py "
                  "of commands, connection states, handler, pause flag, queue length, the CONTENTS of flow.messages (direction + "
                  "bytes of every recorded message, rendered by the driver as m=... and compared each step) and the model-PREDICTED "
                  "flow.live / flow.error flags; families: plain, dead sockets (OSError branch emulated as in server.py), and the "
                  "real TCPLayer under a real tunnel layer (HttpUpstreamProxy / tunnel.py; tie at the tunnel/TCPLayer boundary, "
                  "property oracle on what reaches the transport connection).")
    level_note = ("inside the model: TCPLayer, UDPLayer, Layer.handle_event/__continue, the error-message mapping of "
                  "ConnectionHandler.open_connection (tied: the REAL open_connection runs with a raising transport stub for "
                  "refused / gaierror / bare TimeoutError() / OSError() / ConnectionError() / CancelledError; the model predicts the "
                  "reply and, from the reply, the layer's branch), ConnectionHandler.close_connection "
                  "incl. the OSError branch of write_eof (a per-run environment flag per socket), Flow.kill()/killable as seen by "
                  "the layers. Liveness theorems (exactly_one_end_or_error, half_close_emitted_once_quiescent, "
                  "half_close_propagated...) are stated for live sockets: with a dead socket the ConnectionClosed that the "
                  "cancelled handler still owes is an environment obligation the model does not assume. Arrival order is proved with a flow (messages_handled_in_arrival_order) "
                  "and without (ignore_mode_relays_in_arrival_order). Oracle excuses, each with a doctored counter-example in "
                  "known_selftest(): (a) the immediate-half-close clause looks only at the FIRST ConnectionClosed of a connection "
                  "(server.py delivers one; a tunnel swallows repeats); (b) clause 1/1c need quiescence resp. a completed hook; "
                  "(c) tunnel family: the CONNECT handshake bytes and HttpConnectUpstreamHook are not relay traffic, and the "
                  "virtual connection's state bits are not compared (the tunnel layer owns them); (d) server-side events before "
                  "the tunnel is up are not delivered. Expected values of the order/content clauses (1b, 1c) come from the "
                  "schedule (arrival order, edits), clause 1 (sends == flow.messages) is kept as a consistency check. Model inputs "
                  "are the events the world really delivered (tunnel family: the events the tunnel layer handed to TCPLayer); no "
                  "layer state is copied into the model; live/error flags are predicted. The tie is differential, not a proof.")
    technique = "Lean 4 proof (invariants over all schedules of an executable state-machine model) + step-wise model-vs-code correspondence via world.py"
    rule = ("schedules over {data c/s, inject, close c/s (half/full), hook completion (keep/edit/kill), connect ok/err} for "
            "proto x flow/ignore x server pre-connected; exhaustive short schedules first, then random ones of length <= 16 "
            "(about 10% contain events server.py cannot produce: second close, data after close). distinct = distinct "
            "(config, effective input sequence); non-trivial = at least one SendData or close command was produced.")
    budget = {"quick": 12000, "thorough": 600000}
    time_budget = {"quick": 15, "thorough": 540}
    fingerprints = ["mitmproxy.flow:Flow.kill", "mitmproxy.flow:Flow.killable", "mitmproxy.proxy.tunnel:TunnelLayer", "mitmproxy.proxy.layers.tcp:TCPLayer", "mitmproxy.proxy.layers.udp:UDPLayer",
                    "mitmproxy.proxy.layer:Layer.handle_event", "mitmproxy.proxy.layer:Layer._Layer__continue",
                    "mitmproxy.proxy.layer:Layer._Layer__process",
                    "mitmproxy.proxy.server:ConnectionHandler.close_connection",
                    "mitmproxy.proxy.server:ConnectionHandler.open_connection"]
    trusted_base = ["harness/common/world.py as the stand-in for proxy/server.py (delivery order, state bookkeeping)"]
    parallel = False              # set per tier in setup(): process pool only for the thorough tier

    ALPHA = [("data", "c", "61"), ("data", "s", "62"), ("close", "c", 0), ("close", "s", 0), ("hook", None),
             ("hook", "7a7a"), ("connect", 0), ("connect", 1), ("inject", 1, "69"), ("close", "c", 1), ("hook", "kill")]

    def known_selftest(self):
        """doctored observations just outside what the oracle excuses (independent of the tree under test)"""
        def st(inp, out, pre, c, s_, ph="relay", paused=0, q=0, n=0):
            return {"in": inp, "out": out, "pre": pre, "c": c, "s": s_, "ph": ph, "paused": paused, "q": q, "n": n, "live": 1, "err": 0, "m": "-"}
        case = {"proto": "tcp", "flow": 1, "connected": 1, "sched": []}
        head = [st("start", ["H:start"], "rwrw", "rw", "rw", "start", 1), st("hook none", [], "rwrw", "rw", "rw")]

        def obs(steps, msgs):
            return {"steps": head + steps, "errors": [], "msgs": msgs, "live": True, "has_error": False, "killed": 0, "quiescent": True}
        bad = {
            "buffered data replayed in reverse": obs([
                st("data c 30", ["H:msg:c:30"], "rwrw", "rw", "rw", paused=1, n=1),
                st("data s 31", [], "rwrw", "rw", "rw", paused=1, q=1, n=1), st("data s 32", [], "rwrw", "rw", "rw", paused=1, q=2, n=1),
                st("hook none", ["S:s:30", "H:msg:s:32"], "rwrw", "rw", "rw", paused=1, q=1, n=2),
                st("hook none", ["S:c:32", "H:msg:s:31"], "rwrw", "rw", "rw", paused=1, n=3),
                st("hook none", ["S:c:31"], "rwrw", "rw", "rw", n=3)], [[1, "30"], [0, "32"], [0, "31"]]),
            "addon edit not sent": obs([st("data c 30", ["H:msg:c:30"], "rwrw", "rw", "rw", paused=1, n=1),
                                        st("hook 7a", ["S:s:30"], "rwrw", "rw", "rw", n=1)], [[1, "30"]]),
            "first half-close not propagated": obs([st("closed c 0", [], "-wrw", "-w", "rw")], []),
            "full close while the other side is readable": obs([st("closed c 0", ["C:s:f", "C:c:f", "H:end"], "-wrw", "--", "--", "done", 1)], []),
            "two end hooks": obs([st("closed c 0", ["C:s:h"], "-wrw", "-w", "r-"),
                                  st("closed s 1", ["C:c:f", "H:end"], "-w--", "--", "--", "done", 1),
                                  st("hook none", ["H:end"], "----", "--", "--", "done", 1)], []),
            "data relayed after the end": obs([st("closed c 0", ["C:s:h"], "-wrw", "-w", "r-"),
                                               st("closed s 1", ["C:c:f", "H:end"], "-w--", "--", "--", "done", 1),
                                               st("data s 31", ["S:c:31"], "----", "--", "--", "done", 1)], []),
            "half-close overtakes data": obs([
                st("data c 30", ["H:msg:c:30"], "rwrw", "rw", "rw", paused=1, n=1),
                st("data c 31", [], "rwrw", "rw", "rw", paused=1, q=1, n=1), st("closed c 0", [], "-wrw", "-w", "rw", paused=1, q=2, n=1),
                st("hook none", ["S:s:30", "C:s:h", "H:msg:c:31"], "-wrw", "-w", "r-", paused=1, n=2),
                st("hook none", ["S:s:31"], "-wr-", "-w", "r-", n=2)], [[1, "30"], [1, "31"]]),
        }
        def fst(inp, out, ph, paused, failed=False):
            d = st(inp, out, "rw--", "rw", "--", ph, paused)
            if failed: d["failed"] = True
            return d
        ncase = {"proto": "tcp", "flow": 1, "connected": 0, "sched": []}

        def nobs(steps):
            return {"steps": [fst("start", ["H:start"], "start", 1), fst("hook none", ["O"], "start", 1)] + steps, "errors": [],
                    "msgs": [], "live": True, "has_error": False, "killed": 0, "quiescent": True}
        bad_connect = {
            "failed connect taken as success": nobs([fst("connectr -", [], "relay", 0, True)]),
            "failed connect, flow ends with the end hook": nobs([fst("connectr -", [], "relay", 0, True),
                                                                 fst("closed c 1", ["H:end"], "done", 1)]),
            "failed connect, client left open": nobs([fst("connectr 626f6f6d", ["H:err"], "start", 1, True),
                                                      fst("hook none", [], "done", 0)]),
        }
        for label, o in bad_connect.items():
            if not self.oracle(ncase, o): raise AssertionError(f"known_selftest: oracle accepts doctored observation '{label}'")
        good = {
            "second ConnectionClosed of the same side without a new half-close": obs([
                st("closed c 0", ["C:s:h"], "-wrw", "-w", "r-"), st("closed c 0", [], "-wr-", "-w", "r-")], []),
        }
        for label, o in bad.items():
            if not self.oracle(case, o): raise AssertionError(f"known_selftest: oracle accepts doctored observation '{label}'")
        for label, o in good.items():
            f = self.oracle(case, o)
            if f: raise AssertionError(f"known_selftest: oracle rejects legitimate observation '{label}': {f[:2]}")

    def setup(self, tier):
        self.parallel = tier == "thorough"
        self.known_selftest()
        # build the (expensive) Options object once, before the worker pool forks
        global _OPTS
        if _OPTS is None: _OPTS = make_context("tcp").options

    def configs(self):
        for proto in ("tcp", "udp"):
            for flow in (1, 0):
                for connected in (1, 0):
                    yield proto, flow, connected

    def enum(self, maxlen, alpha):
        for n in range(maxlen + 1):
            for t in itertools.product(alpha, repeat=n):
                for proto, flow, connected in self.configs():
                    yield {"proto": proto, "flow": flow, "connected": connected, "sched": [list(a) for a in t]}

    TUN_ALPHA = [("data", "c", "61"), ("data", "s", "62"), ("close", "c", 0), ("close", "s", 0), ("hook", None),
                 ("hook", "7a7a"), ("inject", 1, "69"), ("inject", 0, "6a")]

    def enum_tunnel(self, maxlen):
        """TCPLayer under a CONNECT tunnel: tunnel established first, then every short schedule"""
        for n in range(maxlen + 1):
            for t in itertools.product(self.TUN_ALPHA, repeat=n):
                yield {"proto": "tcp", "flow": 1, "connected": 0, "tunnel": 1,
                       "sched": [["hook", None], ["connect", 0]] + [list(a) for a in t]}

    def enum_dead(self, maxlen):
        alpha = [("data", "c", "61"), ("data", "s", "62"), ("close", "c", 0), ("close", "s", 0), ("hook", None), ("hook", "kill")]
        for n in range(maxlen + 1):
            for t in itertools.product(alpha, repeat=n):
                for dead in ("c", "s", "cs"):
                    for flow in (1, 0):
                        yield {"proto": "tcp", "flow": flow, "connected": 1, "dead": dead, "sched": [list(a) for a in t]}

    def enum_connect(self):
        """every kind of connect outcome (incl. exceptions whose str() is empty, cancellation, and the layer-level
        reply "") x what is buffered before / arrives after, for TCP and UDP, with and without a flow, plain and tunnelled"""
        pres = [[], [["hook", None]], [["data", "c", "61"], ["hook", None]], [["hook", None], ["data", "c", "61"]],
                [["close", "c", 0], ["hook", None]], [["hook", "kill"]]]
        posts = [[], [["hook", None]], [["hook", None], ["data", "c", "62"]], [["data", "c", "62"], ["hook", None], ["hook", None]],
                 [["close", "c", 0], ["hook", None]]]
        for what in [0, 1, "emptyok"] + sorted(FAIL_KINDS):
            for pre in pres:
                for post in posts:
                    sched = [list(a) for a in pre] + [["connect", what]] + [list(a) for a in post]
                    for proto in ("tcp", "udp"):
                        for flow in (1, 0):
                            yield {"proto": proto, "flow": flow, "connected": 0, "sched": sched}
                    if what != "emptyok":
                        yield {"proto": "tcp", "flow": 1, "connected": 0, "tunnel": 1, "sched": sched}

    def generate(self, rng, tier):
        yield from self.enum_connect()
        yield from self.enum_dead(3 if tier == "quick" else 5)
        yield from self.enum_tunnel(2)
        if tier == "quick":
            yield from self.enum(2, self.ALPHA)
            yield from self.enum(3, self.ALPHA[:7])
        else:
            yield from self.enum(4, self.ALPHA)
        yield from self.enum_tunnel(3 if tier == "quick" else 5)
        if tier == "thorough":
            yield from self.enum(6, self.ALPHA[:7])
        while True:
            yield self.random_case(rng)

    @staticmethod
    def connect_outcome(rng, p_fail):
        if not rng.chance(p_fail): return 0
        return rng.pick([1, "emptyok"] + sorted(FAIL_KINDS))

    def random_case(self, rng):
        proto = "tcp" if rng.chance(0.65) else "udp"
        flow = 1 if rng.chance(0.85) else 0
        connected = 1 if rng.chance(0.5) else 0
        wild = rng.chance(0.1)
        n = rng.randint(1, 16)
        sched, closed = [], set()

        def payload():
            r = rng.random()
            if r < 0.08: return "-"
            return hx(rng.bytes_(rng.randint(1, 4)))
        if not connected and rng.chance(0.8):
            # usually let the connection come up early so that relaying is exercised
            pre = [["hook", None]] if flow else []
            if rng.chance(0.3): pre.insert(0, ["data", "c", payload()])
            sched += pre + [["connect", self.connect_outcome(rng, 0.15)]]
        while len(sched) < n:
            k = rng.weighted([(30, "data"), (8, "inject"), (10, "close"), (30, "hook"), (4, "connect")])
            if k == "data":
                s = rng.pick("cs")
                if s in closed and not wild: continue
                d = payload()
                if d == "-" and not wild: d = "00"
                sched.append(["data", s, d])
            elif k == "inject":
                sched.append(["inject", rng.randint(0, 1), payload()])
            elif k == "close":
                s = rng.pick("cs")
                if s in closed and not wild: continue
                closed.add(s)
                sched.append(["close", s, 1 if (proto == "udp" or rng.chance(0.15)) else 0])
            elif k == "hook":
                e = rng.weighted([(50, None), (30, "edit"), (6, "-"), (6, "kill")])
                sched.append(["hook", payload() if e == "edit" else e])
            else:
                sched.append(["connect", self.connect_outcome(rng, 0.3)])
        case = {"proto": proto, "flow": flow, "connected": connected, "sched": sched}
        if proto == "tcp" and rng.chance(0.2):
            case["dead"] = rng.pick(["c", "s", "cs"])      # write_eof raises OSError on these sockets
            return case
        if proto == "tcp" and flow and not connected and rng.chance(0.5):
            case["tunnel"] = 1      # same schedule, but the TCPLayer sits under an HttpUpstreamProxy tunnel
        return case

    # ---- implementation --------------------------------------------------------------------------
    def impl(self, case):
        try:
            obs = run_schedule_tunnel(case) if case.get("tunnel") else run_schedule(case)
        except Exception as e:  # nothing may escape: the world records layer exceptions itself
            return {"exc": type(e).__name__ + ": " + str(e)[:200]}
        self._last = (case, obs)
        return obs

    # ---- the property, stated on the implementation's observable ---------------------------------------
    def oracle(self, case, obs):
        if "exc" in obs: return ["harness/world exception " + obs["exc"]]
        fails = []
        if obs["errors"]:
            fails.append(f"layer raised {obs['errors'][0]}")
        flow, proto = bool(case["flow"]), case["proto"]
        outs = [(i, o) for i, st in enumerate(obs["steps"]) for o in st["out"]]
        # (1) "the other peer receives exactly the recorded message contents, including addon modifications and
        #      injected messages, in order per direction" — SendData payloads per target == flow.messages per direction
        if flow and obs["quiescent"]:
            for tgt, fc in (("s", 1), ("c", 0)):
                sent = [o.split(":")[2] for _, o in outs if o.startswith(f"S:{tgt}:")]
                rec = [m[1] for m in obs["msgs"] if m[0] == fc]
                if sent != rec:
                    fails.append(f"relay not exact towards {SIDE[tgt]}: sent {sent} recorded {rec}")
        # (1b) "... in order per direction": the order is the order in which the peer sent (server.py delivered) the data.
        #      flow.messages and the SendData sequence are produced by the same replay of buffered events, so comparing
        #      them with each other (clause 1) cannot see a reordering inside the layer; compare with the ARRIVAL order.
        #      Events that arrive after the relay has ended are dropped, so what is processed is a prefix of what arrived.
        for src, tgt in (("c", "s"), ("s", "c")):
            arrived = []
            for st in obs["steps"]:
                f = st["in"].split()
                if f[0] == "data" and f[1] == src: arrived.append(f[2])
                elif f[0] == "inject" and f[1] == ("1" if src == "c" else "0"): arrived.append(f[2])
            if flow:
                processed = [o.split(":")[3] for _, o in outs if o.startswith(f"H:msg:{src}:")]
            else:
                processed = [o.split(":")[2] for _, o in outs if o.startswith(f"S:{tgt}:")]
            if processed != arrived[:len(processed)]:
                fails.append(f"data from the {SIDE[src]} relayed out of order: arrived {arrived} processed {processed}")
        # (1c) "including addon modifications": what is sent for a message is what the schedule's addon left in it - the
        #      edit given with the completion of that message's hook, else the bytes that arrived (input-derived; clause 1
        #      only compares the sends with flow.messages, both written by the layer)
        if flow:
            pending = None
            for st in obs["steps"]:
                f = st["in"].split()
                outl = list(st["out"])
                if pending is not None and (f[0] == "hook" or f[0] == "hookkill"):
                    src, orig = pending
                    want = f[1] if (f[0] == "hook" and f[1] != "none") else orig
                    tgt = "s" if src == "c" else "c"
                    if not outl or outl[0] != f"S:{tgt}:{want}":
                        fails.append(f"{st['in']}: message {orig} from the {SIDE[src]} should be sent on as {want}, got {outl[:1]}")
                    pending = None
                for o in outl:
                    if o.startswith("H:msg:"):
                        _, _, src, orig = o.split(":"); pending = (src, orig)
        #      and a peer's half-close must not overtake the data that peer sent before it (TCP)
        if proto == "tcp":
            for src, tgt in (("c", "s"), ("s", "c")):
                k = next((i for i, st in enumerate(obs["steps"]) if st["in"].startswith(f"closed {src}")), None)
                if k is None: continue
                before = 0
                for st in obs["steps"][:k]:
                    f = st["in"].split()
                    if (f[0] == "data" and f[1] == src) or (f[0] == "inject" and f[1] == ("1" if src == "c" else "0")): before += 1
                seen = 0
                for i, o in outs:
                    if (o.startswith(f"H:msg:{src}:") if flow else o.startswith(f"S:{tgt}:")): seen += 1
                    if i >= k and o == f"C:{tgt}:h":
                        if seen < before:
                            fails.append(f"half-close of the {SIDE[tgt]} overtook data the {SIDE[src]} sent before closing "
                                         f"({seen} of {before} messages handled)")
                        break
        # (4) "after which no further data is relayed for it" / (3) "exactly one of its end or error hooks"
        ends = [i for i, (_, o) in enumerate(outs) if o in ("H:end", "H:err")]
        if len(ends) > 1:
            fails.append(f"{len(ends)} end/error hooks fired")
        if ends:
            late = [o for _, o in outs[ends[0] + 1:] if o.startswith("S:") or o.startswith("H:")]
            if late: fails.append(f"relayed/hooked after the end hook: {late[:3]}")
        if flow and obs["quiescent"] and obs["steps"]:
            last = obs["steps"][-1]
            # OpenConnectionCompleted with an error is only ever delivered in reply to the layer's OpenConnection
            failed_connect = any(st.get("failed") for st in obs["steps"])      # the harness's own transport stub failed
            both_closed = "r" not in last["c"] and "r" not in last["s"]
            any_closed = any(st["in"].startswith("closed") for st in obs["steps"])
            must_end = failed_connect or (both_closed if proto == "tcp" else any_closed)
            if must_end and len(ends) != 1:
                fails.append(f"flow finished (connect failed / peers closed) but {len(ends)} end/error hooks fired")
            if len(ends) == 1 and obs["live"] and outs[ends[0]][1] == "H:end":
                fails.append("end hook fired but flow.live still True at quiescence")
        # (3b) "connection failures": a connect that FAILED (the harness's transport stub raised / the world refused) must
        #      end the flow with its error hook - whatever the exception's str() is - and nothing may be relayed
        for i, st in enumerate(obs["steps"]):
            if not st.get("failed"): continue
            allouts = [o for _, o in outs]
            if flow and "H:err" not in st["out"]:
                fails.append(f"{st['in']}: the connection attempt failed but no error hook fired (outputs {st['out']})")
            if "H:end" in allouts:
                fails.append(f"{st['in']}: the connection attempt failed but the flow ended with the end hook")
            if any(o.startswith("S:") for o in allouts) or (flow and any(o.startswith("H:msg") for o in allouts)):
                fails.append(f"{st['in']}: the connection attempt failed but data was relayed / message hooks fired")
            if obs["quiescent"] and "C:c:f" not in allouts:
                fails.append(f"{st['in']}: the connection attempt failed but the client was not closed")
        # (2) "a TCP half-close by one peer is propagated as a half-close while data still flows the other way"
        if proto == "tcp":
            err_seen = False
            for st in obs["steps"]:
                # a full close (other than the client close after a failed connect) is only allowed once
                # neither side can be read any more; `pre` = states when the event was handed to the layer
                full = [o for o in st["out"] if o.startswith("C:") and o.endswith(":f")]
                err_seen = err_seen or bool(st.get("failed"))
                if full and not err_seen:
                    # readability when the first full close is yielded: a half-close earlier in the same call on a socket
                    # whose write_eof raises has already closed that connection completely (close_connection, OSError branch)
                    rd = {"c": st["pre"][0] == "r", "s": st["pre"][2] == "r"}
                    for o in st["out"]:
                        if o in full: break
                        if o.startswith("C:") and o.endswith(":h") and o[2] in case.get("dead", ""): rd[o[2]] = False
                    if rd["c"] or rd["s"]:
                        fails.append(f"full close {full} while a side was still readable (state {st['pre']})")
            for idx, st in enumerate(obs["steps"]):
                if not st["in"].startswith("closed"): continue
                # only the first ConnectionClosed of a connection is a peer's half-close (server.py delivers one per connection)
                if any(p["in"].startswith(st["in"][:8]) for p in obs["steps"][:idx]): continue
                prev = obs["steps"][idx - 1] if idx else None
                if prev is None or prev["paused"] or prev["ph"] != "relay": continue
                s = st["in"].split()[1]; o = "s" if s == "c" else "c"
                other_bits = st["pre"][2:] if s == "c" else st["pre"][:2]
                if "r" in other_bits:
                    if st["out"] != [f"C:{o}:h"]:
                        fails.append(f"{st['in']} with the other side readable produced {st['out']}, expected half-close of {SIDE[o]}")
                    if st["ph"] != "relay":
                        fails.append(f"{st['in']} with the other side readable ended the relay")
        return fails

    # ---- model tie ---------------------------------------------------------------------------------
    def model_lines(self, case):
        last = getattr(self, "_last", None)
        obs = last[1] if last and last[0] is case else self.impl(case)
        if "exc" in obs: return None
        # tunnel family: the model is tied at the TunnelLayer/TCPLayer boundary (events the child really received)
        steps = obs["csteps"] if case.get("tunnel") else obs["steps"]
        dead = case.get("dead", "")
        head = (f"resetx {case['proto']} {case['flow']} {case['connected']} {int('c' in dead)} {int('s' in dead)}" if dead
                else f"reset {case['proto']} {case['flow']} {case['connected']}")
        return [head] + [st["in"] for st in steps] + [f"openreply {k} {m}" for k, m, _ in obs.get("openreplies", [])]

    def model_obs(self, case, replies):
        if case.get("tunnel"):
            # the virtual connection's state is kept by the tunnel layer, not by server.py: compare everything else
            return [" ".join(f for f in r.split() if not f.startswith(("c=", "s="))) for r in replies[1:]]
        return replies[1:]

    def impl_view(self, case, obs):
        if case.get("tunnel"):
            return ["%s ph=%s paused=%d q=%d n=%d live=%d err=%d m=%s" % (",".join(st["out"]) or "-", st["ph"], st["paused"], st["q"],
                                                                          st["n"], st["live"], st["err"], st["m"]) for st in obs["csteps"]] + \
                [r for _, _, r in obs.get("openreplies", [])]
        return ["%s c=%s s=%s ph=%s paused=%d q=%d n=%d live=%d err=%d m=%s" % (",".join(st["out"]) or "-", st["c"], st["s"], st["ph"],
                                                                                  st["paused"], st["q"], st["n"], st["live"], st["err"], st["m"])
                for st in obs["steps"]] + [r for _, _, r in obs.get("openreplies", [])]

    def classify(self, case, obs):
        if "exc" in obs: return None
        if not any(o[0] in "SC" for st in obs["steps"] for o in st["out"]): return None
        return (case["proto"], case["flow"], case["connected"], bool(case.get("tunnel")), case.get("dead", ""), tuple(st["in"] for st in obs["steps"]))

    def branches(self, case, obs):
        if "exc" in obs: return ["exc"]
        b = [f"{case['proto']}:{'flow' if case['flow'] else 'ignore'}:{'preconnected' if case['connected'] else 'connect'}"]
        outs = [o for st in obs["steps"] for o in st["out"]]
        if "H:end" in outs: b.append("ended")
        if "H:err" in outs: b.append("errored")
        if any(o.endswith(":h") for o in outs): b.append("half-close")
        if any(st["q"] > 0 for st in obs["steps"]): b.append("buffered-while-paused")
        if any(st["in"].startswith("hook") and st["in"] != "hook none" for st in obs["steps"]): b.append("addon-edit")
        if any(st["in"].startswith("inject") for st in obs["steps"]): b.append("inject")
        if obs.get("killed"): b.append("kill-in-hook")
        if not well_formed(case): b.append("wild-schedule")
        for a in case["sched"]:
            if a[0] == "connect" and a[1] not in (0, 1): b.append(f"connect-outcome:{a[1]}")
        if any(st.get("failed") for st in obs["steps"]): b.append("connect-failed(stub)")
        if case.get("dead"):
            b.append("dead-socket:" + case["dead"])
            if any(o.endswith(":h") for o in outs): b.append("write_eof-OSError-branch-taken")
        if case.get("tunnel"):
            b.append("under-tunnel(HttpUpstreamProxy)")
            seen_close = False
            for st in obs["steps"]:
                if st["in"].startswith("closed s"): seen_close = True
                elif seen_close and any(o.startswith("S:s:") for o in st["out"]): b.append("tunnel:send-after-peer-half-close"); break
        return b

    def neighbours(self, case, rng):
        s = case["sched"]
        for i in range(len(s) + 1):
            for a in self.ALPHA:
                yield dict(case, sched=s[:i] + [list(a)] + s[i:])
        for i in range(len(s)):
            yield dict(case, sched=s[:i] + s[i + 1:])

    def exhaustive(self, tier):
        return self.enum(4, self.ALPHA)
