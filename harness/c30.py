"""C30 — QUIC streams are demultiplexed onto correctly paired streams
(mitmproxy/proxy/layers/quic/_raw_layers.py: RawQuicLayer with force_raw=True, QuicStreamLayer).

The real RawQuicLayer is driven through harness/common/world.py.  Hooks of the per-stream TCPLayers and of the
datagram UDPLayer are deferred; the schedule decides which pending hook completes when.  Per handle_event call
the compared observable is the list of commands (SendQuicStreamData / ResetQuicStream / StopSendingQuicStream /
CloseQuicConnection / hooks / datagram commands) plus the id bookkeeping (pairs, next_stream_id) afterwards.
"""
import itertools

from common.check import PropertyCheck, hx, unhx
from common.world import World, make_context
from mitmproxy import connection, tcp
from mitmproxy.connection import ConnectionState
from mitmproxy.proxy import commands, events
from mitmproxy.proxy.layers import tcp as ltcp, udp as ludp
from mitmproxy.proxy.layers.quic import _raw_layers as raw
from mitmproxy.proxy.layers.quic._commands import (CloseQuicConnection, ResetQuicStream, SendQuicStreamData,
                                                   StopSendingQuicStream)
from mitmproxy.proxy.layers.quic._events import QuicConnectionClosed, QuicStreamDataReceived, QuicStreamReset

LAYER_HOOKS = (ltcp.TcpStartHook, ltcp.TcpMessageHook, ltcp.TcpEndHook, ltcp.TcpErrorHook,
               ludp.UdpStartHook, ludp.UdpMessageHook, ludp.UdpEndHook, ludp.UdpErrorHook)
_OPTS = None


class QWorld(World):
    """World + lazy command execution (as server_event does) + per-call log; QUIC commands are only recorded
    (the QUIC connection layers below RawQuicLayer are not part of this check)."""

    def __init__(self, *a, **kw):
        super().__init__(*a, **kw)
        self.log = []
        self.next_in = None
        self.emitted_owner = {}     # id(hook command) -> owner label when the layer yielded it

    def side(self, conn):
        return "c" if conn is self.ctx.client else "s"

    def owner(self, flow):
        lay = self.layer
        if getattr(lay.datagram_layer, "flow", None) is flow: return "dg"
        for cid, sl in lay.client_stream_ids.items():
            if getattr(sl.child_layer, "flow", None) is flow: return str(cid)
        return "?"

    def render(self, c):
        if isinstance(c, SendQuicStreamData):
            return f"D:{self.side(c.connection)}:{c.stream_id}:{hx(c.data)}:{1 if c.end_stream else 0}"
        if isinstance(c, ResetQuicStream): return f"R:{self.side(c.connection)}:{c.stream_id}:{c.error_code}"
        if isinstance(c, StopSendingQuicStream): return f"T:{self.side(c.connection)}:{c.stream_id}:{int(c.error_code)}"
        if isinstance(c, CloseQuicConnection): return f"Q:{self.side(c.connection)}:{c.error_code}"
        if isinstance(c, LAYER_HOOKS):
            o = self.owner(c.flow)
            if isinstance(c, (ltcp.TcpStartHook, ludp.UdpStartHook)): return f"H:{o}:start"
            if isinstance(c, (ltcp.TcpMessageHook, ludp.UdpMessageHook)):
                m = c.flow.messages[-1]
                return f"H:{o}:msg:{'c' if m.from_client else 's'}:{hx(m.content)}"
            if isinstance(c, (ltcp.TcpEndHook, ludp.UdpEndHook)): return f"H:{o}:end"
            return f"H:{o}:err"
        if isinstance(c, commands.SendData): return f"S:{self.side(c.connection)}:{hx(c.data)}"
        if isinstance(c, commands.CloseConnection): return f"C:{self.side(c.connection)}:f"
        if isinstance(c, commands.OpenConnection): return "O"
        if isinstance(c, commands.Log): return None
        return "?" + type(c).__name__

    def _command(self, c):
        if isinstance(c, CloseQuicConnection):
            # the QUIC layer underneath closes the connection; what it reports back is part of the schedule
            self.trace.append(("cmd", type(c).__name__, c))
            return
        super()._command(c)

    def _handle(self, event):
        ent = {"in": self.next_in or "?" + type(event).__name__, "out": []}
        self.next_in = None
        self.log.append(ent)
        try:
            for c in self.layer.handle_event(event):
                r = self.render(c)
                if r is not None: ent["out"].append(r)
                if isinstance(c, LAYER_HOOKS): self.emitted_owner[id(c)] = self.owner(c.flow)
                self._command(c)
        except AssertionError as e:
            self.errors.append(("AssertionError", str(e)))
            ent["out"].append("X")
        except Exception as e:
            import traceback
            self.errors.append((type(e).__name__, str(e), traceback.format_exc()))
            ent["out"].append("X:" + type(e).__name__)
        lay = self.layer
        ent["pairs"] = sorted([cid, sl._server_stream_id] for cid, sl in lay.client_stream_ids.items())
        ent["srv"] = sorted([sid, sl._client_stream_id] for sid, sl in lay.server_stream_ids.items())
        ent["next"] = list(lay.next_stream_id)


class Sim:
    """one RawQuicLayer(force_raw=True) in a QWorld, driven action by action"""

    def __init__(self, unconnected=False):
        global _OPTS
        if _OPTS is None: _OPTS = make_context("udp").options
        ctx = make_context("udp", opts=_OPTS)
        ctx.server = connection.Server(address=("192.0.2.9", 4433), transport_protocol="udp")
        if not unconnected: ctx.server.timestamp_start = 1.0
        self.lay = lay = raw.RawQuicLayer(ctx, force_raw=True)
        self.w = w = QWorld(lay, ctx, on_hook=lambda w, h: "defer" if isinstance(h, LAYER_HOOKS) else None,
                            on_connect=lambda w, c: "defer")
        if not unconnected: w.add_open_server(ctx.server)
        self.conn = {1: ctx.client, 0: ctx.server}
        w.next_in = "start"
        w.start()

    def do_hook(self, k, edit):
        w = self.w
        if not w.deferred_hooks: return
        idx = k % len(w.deferred_hooks)
        h = w.deferred_hooks[idx]
        rep = "none"
        if isinstance(h, (ltcp.TcpMessageHook, ludp.UdpMessageHook)) and edit is not None:
            h.flow.messages[-1].content = unhx(edit); rep = edit
        # the model is only told WHICH pending hook (by position) completes; whose hook that is, it predicts itself.
        # `hook <owner-at-emission> <owner-now>`: the two differ iff the layer lost track of the stream in between
        w.next_in = f"hook {w.emitted_owner.get(id(h), '?')} {rep} {idx} {w.owner(h.flow)}"
        w.resume(h)

    def act(self, act):
        w, conn = self.w, self.conn
        k = act[0]
        if k == "sd":
            _, fc, sid, data, fin = act
            w.next_in = f"sd {fc} {sid} {data} {fin}"
            w.deliver(QuicStreamDataReceived(conn[fc], sid, unhx(data), bool(fin)))
        elif k == "sr":
            _, fc, sid, code = act
            w.next_in = f"sr {fc} {sid} {code}"
            w.deliver(QuicStreamReset(conn[fc], sid, code))
        elif k == "cc":
            _, fc, code = act
            c = conn[fc]
            c.state = ConnectionState.CLOSED
            w.next_in = f"cc {fc} {code}"
            w.deliver(QuicConnectionClosed(c, code, None, "bye"))
        elif k == "dg":
            _, fc, data = act
            w.next_in = f"dg {fc} {data}"
            w.deliver(events.DataReceived(conn[fc], unhx(data)))
        elif k == "hook":
            self.do_hook(act[1], act[2])
        elif k == "connectq":
            # reply to the layer's OWN OpenConnection (case kind "unconnected")
            if w.deferred_connects:
                w.next_in = f"connectq {act[1]}"
                w.finish_connect(w.deferred_connects[0], "boom" if act[1] else None)
        else:
            raise ValueError(act)

    def finish(self):
        w = self.w
        for _ in range(500):
            if w.deferred_connects:
                w.next_in = "connectq 0"; w.finish_connect(w.deferred_connects[0], None)
            elif w.deferred_hooks: self.do_hook(0, None)
            else: break
        return {"steps": w.log, "errors": [e[:2] for e in w.errors if e[0] != "AssertionError"],
                "asserts": sum(1 for e in w.errors if e[0] == "AssertionError")}


def run_schedule(case):
    sim = Sim(unconnected=bool(case.get("unconnected")))
    for act in case["sched"]:
        sim.act(act)
    return sim.finish()


def _drain_only(self):
    # run queued hook/open items without the client-teardown logic of World.drain
    while self.queue:
        kind, x = self.queue.popleft()
        if kind == "event": self._handle(x)
        elif kind == "open": self._open(x)
        elif kind == "hook":
            r = self.on_hook(self, x)
            if r == "defer": self.deferred_hooks.append(x)
            else: self._handle(events.HookCompleted(x))
        elif kind == "call": x()


QWorld.queue_drain_only = _drain_only
QWorld.drain = _drain_only      # QUIC: no socket-level teardown in this check


def replay_hits_assertion(buffered):
    """case kind `unconnected`: do the events buffered while the layer was connecting (in order, all on fresh state) run
    into one of the two excused assertions when they are replayed?  Computed from the inputs alone."""
    known_c, known_s, unopened = set(), set(), set()
    nxt = {1: 1, 3: 3}                     # client-side ids for server-initiated bidi / uni streams
    closed = set()
    for f in buffered:
        if closed == {"0", "1"}: return False          # both connections gone: the layer is done, nothing more is looked at
        if f[0] in ("sd", "sr"):
            fc, sid = int(f[1]), int(f[2])
            if fc:
                if sid in known_c: continue
                if not client_init(sid): return True   # registration guard
                known_c.add(sid); unopened.add(sid)
            else:
                if sid in known_s: continue
                if client_init(sid): return True       # registration guard
                cls = 3 if uni(sid) else 1
                known_c.add(nxt[cls]); nxt[cls] += 4; known_s.add(sid)
        elif f[0] == "cc":
            if f[1] == "0" and unopened: return True   # close_stream_layer on a server side that was never opened
            closed.add(f[1])
    return False


def uni(i): return bool(i & 2)
def client_init(i): return not (i & 1)


class Check(PropertyCheck):
    prop = "C30"
    design_ref = "§5 C30"
    level_text = ("Lean theorems over ALL event sequences (stream data/FIN/reset on any id from either side, connection close, "
                  "hook completions, datagrams) and for ANY behaviour of the per-stream child layers (abstract ChildOps): "
                  "allocated_ids_unique, id_bits + allocator_id_bits (id % 4 = 2*uni + initiator-is-server), "
                  "pairing_is_partial_bijection (equal directionality), pairing_is_stable, signals_reach_only_pair and "
                  "stream_commands_address_registered_streams, and their whole-history forms by induction over the event list: "
                  "pairing_is_stable_forever, signals_reach_only_pair_forever (the commands an event produced are addressed to "
                  "the pair that is registered under the event's id in EVERY later state), history_addresses_registered_streams, and "
                  "allocated_ids_unique_with_own_connect / no_data_or_reset_after_fin_or_reset_with_own_connect / "
                  "failed_own_connect_ends_layer (next event) + failed_own_connect_ends_layer_forever (every later event list) "
                  "(the same including the layer's own connect phase), open_connection_pairs_the_stream (STEP-LOCAL and conditional: "
                  "IF the child yields OpenConnection the partner of the same class is created - whether it does is the child's "
                  "decision), client_stream_gets_its_server_stream(_from) (run-level, for the TIED child = C29 relay model only: after "
                  "any history, data on an unregistered client-initiated id + completion of its start hook leaves the pair "
                  "(id, allocator's id of the same class) registered), "
                  "no_data_or_reset_after_fin_or_reset (in the complete command history of any event sequence nothing is sent on a "
                  "(connection, stream id) after the FIN or reset mitmproxy sent on it - the CAN_WRITE guard of event_to_child, "
                  "carried through close_stream_layer, the reset preservation and the connection-close fan-out); "
                  "proved by an invariant of the stream table preserved by every step (no bound on streams or events). The executable model (child = C29 TCP/UDP relay model) is tied to the "
                  "real RawQuicLayer(force_raw=True) by step-wise comparison of all commands, the (client id, server id) table "
                  "and next_stream_id.")
    level_note = ("modelled: _handle_event stream registration, event_to_child translation (SendData/CloseConnection/"
                  "CloseTcpConnection/OpenConnection), close_stream_layer, reset preservation, connection-close fan-out incl. the "
                  "AssertionError paths (registration guard; close_stream_layer on a server side that was never opened), and the "
                  "layer's own OpenConnection on Start with Layer's pause queue and replay (case kind `unconnected`; an assertion during "
                  "the replay leaves the rest of the queue unprocessed for good - modelled and tied). Not modelled: force_raw=False "
                  "(NextLayer protocol detection), aioquic itself. Re-entrant ConnectionClosed into a child whose generator is suspended is "
                  "delivered after the child's step in the model (indistinguishable for TCPLayer, which is already `done`). "
                  "Oracle excuses (each with a doctored counter-example in known_selftest()): AssertionError is accepted only for (a) a "
                  "stream event on an id unknown on that side whose initiator bit belongs to the other peer (registration guard) and "
                  "(b) QuicConnectionClosed from the server while some registered stream has no server side yet, (c) case kind "
                  "`unconnected` only: the same two assertions hit while the buffered events are replayed (decided from the buffered "
                  "inputs alone), and events delivered between Start and the reply to the layer's OpenConnection need not be registered "
                  "yet / are ignored after a failed connect; events are allowed "
                  "to be ignored only once a QuicConnectionClosed arrived while the other QUIC connection was already closed. "
                  "Expected values are input-derived: the id a peer used must be the registered id; a pair once seen must persist "
                  "unchanged in every later step (this clause catches seeds c30-1/2/3 directly); the owner of a completed hook is the "
                  "one recorded when the hook was emitted AND is predicted by the model from the position in the pending list "
                  "(`hookidx k`), no longer copied from the implementation. "
                  "Not independent: the routing clause looks the expected target of a command up in the implementation's OWN pair "
                  "table of that step; a wrong-but-self-consistent pairing is therefore caught only by the persistence, uniqueness "
                  "and id-bit clauses and by the model tie, not by the routing clause. signals_reach_only_pair has three outcomes: "
                  "no command, exactly one fault, or all commands addressed to the registered pair. "
                  "The tie is differential, not a proof.")
    technique = "Lean 4 proof (invariant over all event interleavings of the stream-id bookkeeping, children abstract) + step-wise model-vs-code correspondence via world.py"
    rule = ("schedules over stream data / FIN / reset on bidi+uni, client- and server-initiated streams (<= 6 streams), "
            "connection close from either side, hook completions for any pending stream (keep/edit), datagrams; ~10% wild "
            "ids. distinct = distinct effective input sequence; non-trivial = at least one stream command produced.")
    budget = {"quick": 6000, "thorough": 150000}
    time_budget = {"quick": 20, "thorough": 540}
    fingerprints = ["mitmproxy.proxy.layers.quic._raw_layers:RawQuicLayer", "mitmproxy.proxy.layers.quic._raw_layers:QuicStreamLayer",
                    "mitmproxy.proxy.layers.quic._events:QuicStreamDataReceived", "mitmproxy.proxy.layers.quic._events:QuicStreamReset",
                    "mitmproxy.proxy.layers.quic._events:QuicConnectionClosed",
                    "mitmproxy.proxy.layers.quic._commands:SendQuicStreamData", "mitmproxy.proxy.layers.quic._commands:ResetQuicStream",
                    "mitmproxy.proxy.layers.quic._commands:StopSendingQuicStream",
                    "mitmproxy.proxy.layers.tcp:TCPLayer", "mitmproxy.proxy.layer:Layer.handle_event",
                    "mitmproxy.proxy.layer:Layer._Layer__continue"]
    trusted_base = ["harness/common/world.py as the stand-in for proxy/server.py", "aioquic stream_is_client_initiated / stream_is_unidirectional (id & 1, id & 2)"]
    parallel = False              # set per tier in setup(): process pool only for the thorough tier

    def setup(self, tier):
        self.parallel = tier == "thorough"
        self.known_selftest()
        global _OPTS
        if _OPTS is None: _OPTS = make_context("udp").options

    def random_case(self, rng):
        """built while driving a live layer, so that most events refer to streams that exist on that side"""
        n = rng.randint(1, 20)
        wild = rng.chance(0.1)
        sim = Sim()
        sched = []
        fresh = {1: [0, 4, 2, 8, 6, 10], 0: [1, 3, 5, 7, 9]}      # ids a peer may open itself
        for _ in range(n):
            lay = sim.lay
            known = {1: list(lay.client_stream_ids), 0: list(lay.server_stream_ids)}
            pend = len(sim.w.deferred_hooks)
            k = rng.weighted([(34, "sd"), (9, "sr"), (2, "cc"), (3, "dg"), (30 if pend else 2, "hook")])
            if k in ("sd", "sr"):
                fc = rng.randint(0, 1)
                r = rng.random()
                if wild and r < 0.3: sid = rng.randint(0, 13)
                elif known[fc] and r < 0.65: sid = rng.pick(known[fc])
                else:
                    unused = [i for i in fresh[fc] if i not in known[fc]] or fresh[fc]
                    sid = unused[0] if rng.chance(0.7) else rng.pick(unused)
                if k == "sd":
                    d = "-" if rng.chance(0.25) else hx(rng.bytes_(rng.randint(1, 3)))
                    a = ["sd", fc, sid, d, 1 if rng.chance(0.3) else 0]
                else:
                    a = ["sr", fc, sid, rng.pick([0, 7, 256])]
            elif k == "cc":
                a = ["cc", rng.randint(0, 1), rng.pick([0, 11])]
            elif k == "dg":
                a = ["dg", rng.randint(0, 1), hx(rng.bytes_(2))]
            else:
                e = rng.weighted([(70, None), (25, "e"), (5, "-")])
                a = ["hook", rng.randint(0, 5), hx(rng.bytes_(2)) if e == "e" else e]
            sched.append(a)
            sim.act(a)
        return {"sched": sched}

    ALPHA = [("sd", 1, 0, "61", 0), ("sd", 1, 0, "-", 1), ("sd", 0, 0, "62", 0), ("sd", 0, 0, "-", 1), ("sr", 1, 0, 7), ("sr", 0, 0, 7),
             ("sd", 0, 3, "63", 1), ("sd", 1, 3, "64", 0), ("sd", 1, 2, "65", 1), ("hook", 0, None), ("hook", 1, None), ("cc", 1, 0), ("cc", 0, 0)]

    def enum(self, maxlen):
        for n in range(maxlen + 1):
            for t in itertools.product(self.ALPHA, repeat=n):
                yield {"sched": [list(a) for a in t]}

    def unconnected_cases(self, rng, n):
        """case kind `unconnected`: the layer has to open the server connection itself on Start; stream events, hook
        completions and connection closes arrive while it waits, the reply (ok / error) comes at a random point"""
        for _ in range(n):
            base = self.random_case(rng)["sched"]
            k = rng.randint(0, min(len(base), 6))
            # the server connection cannot report its close before it exists
            pre = [a for a in base[:k] if not (a[0] == "cc" and a[1] == 0)]
            yield {"unconnected": 1, "sched": pre + [["connectq", 1 if rng.chance(0.2) else 0]] + base[k:]}

    def generate(self, rng, tier):
        yield from self.enum(2 if tier == "quick" else 4)
        early = [a for a in self.ALPHA if not (a[0] == "cc" and a[1] == 0)]
        for a in early:
            for b in self.ALPHA:
                for err in (0, 1):
                    yield {"unconnected": 1, "sched": [list(a), ["connectq", err], list(b)]}
                    if b in early: yield {"unconnected": 1, "sched": [list(a), list(b), ["connectq", err]]}
        yield from self.unconnected_cases(rng, 300 if tier == "quick" else 5000)
        while True:
            yield self.random_case(rng)

    def impl(self, case):
        obs = run_schedule(case)
        self._last = (case, obs)
        return obs

    # ---- the property on the implementation's observable -------------------------------------------------
    def oracle(self, case, obs):
        fails = []
        if obs["errors"]: fails.append(f"layer raised {obs['errors'][0]}")
        prev_pairs = []          # table after the previous step
        ever = {}                # client id -> server id it was paired with the first time a pair was observed
        seen_c = set()           # client ids that have been registered at some point
        closed_sides = set()     # QUIC connections that are closed ("1" client, "0" server)
        layer_done = False
        connecting = False
        buffered = []            # inputs delivered while the layer waits for its own OpenConnection
        for st in obs["steps"]:
            parts = st["in"].split()
            pairs = st["pairs"]
            cids = [p[0] for p in pairs]; sids = [p[1] for p in pairs if p[1] is not None]
            # "every client stream is relayed to exactly one server stream ... and vice versa"
            if len(set(cids)) != len(cids) or len(set(sids)) != len(sids):
                fails.append(f"pairing is not one-to-one: {pairs}")
            if sorted([s, c] for c, s in pairs if s is not None) != st["srv"]:
                fails.append(f"client and server maps disagree: {pairs} vs {st['srv']}")     # consistency of the two tables
            for c, s in pairs:
                if s is None: continue
                # "of the same directionality"; allocated ids "carry the correct initiator and direction bits"
                if uni(c) != uni(s): fails.append(f"pair ({c},{s}) differs in directionality")
                if client_init(c) != client_init(s): fails.append(f"pair ({c},{s}) differs in initiator bit")
            # "relayed to exactly ONE server stream": over the whole history a stream keeps its partner, and a registered
            # stream stays registered (expected values come from the oracle's own record of what it saw first)
            now = dict(pairs)
            for c in seen_c:
                if c not in now: fails.append(f"{st['in']}: stream with client id {c} is no longer registered")
            for c, s0 in ever.items():
                if c in now and now[c] != s0:
                    fails.append(f"{st['in']}: client stream {c} was paired with server stream {s0}, now with {now[c]}")
            for c, s in pairs:
                seen_c.add(c)
                if s is not None: ever.setdefault(c, s)
            # the id a peer used itself is the id the layer must register (input-derived)
            # the layer is done (ignores everything) once a QuicConnectionClosed arrives while the OTHER QUIC connection is
            # already closed - by its own QuicConnectionClosed or by a CloseConnection the datagram layer got through
            if parts[0] == "cc":
                if ("0" if parts[1] == "1" else "1") in closed_sides: layer_done = True
                closed_sides.add(parts[1])
            # case kind "unconnected": between Start and the reply to the layer's own OpenConnection every event is only
            # buffered (Layer pause queue); a failed connect ends the layer (input-derived: case flag + delivered inputs)
            if case.get("unconnected"):
                if parts[0] == "start": connecting = True
                elif parts[0] == "connectq":
                    connecting = False
                    if parts[1] == "1": layer_done = True
                elif connecting: buffered.append(parts)
            if parts[0] in ("sd", "sr") and "X" not in st["out"] and not layer_done and not connecting:
                fc, sid = int(parts[1]), int(parts[2])
                if fc and sid not in now: fails.append(f"{st['in']}: no layer registered under client id {sid}")
                if not fc and sid not in now.values(): fails.append(f"{st['in']}: no layer registered under server id {sid}")
            # AssertionError ("X") is excused for exactly two reasons, both decidable from the input and the table BEFORE the step
            if "X" in st["out"]:
                pm_prev = dict(prev_pairs)
                ok = False
                if parts[0] in ("sd", "sr"):
                    fc, sid = int(parts[1]), int(parts[2])
                    unknown = (sid not in pm_prev) if fc else (sid not in pm_prev.values())
                    ok = unknown and (client_init(sid) != bool(fc))          # registration guard: wrong initiator for that peer
                elif parts[0] == "cc" and parts[1] == "0":
                    ok = any(s is None for _, s in prev_pairs)                # close_stream_layer on a server side never opened
                elif parts[0] == "connectq" and parts[1] == "0" and case.get("unconnected"):
                    ok = replay_hits_assertion(buffered)                      # the same two assertions, hit while replaying
                if not ok: fails.append(f"{st['in']}: AssertionError that neither assertion of the property's domain explains")
            # "data, end-of-stream and reset signals reach only the paired stream"
            pm = now
            if parts[0] == "hook" and (parts[1] == "?" or parts[1] != parts[4]):
                fails.append(f"{st['in']}: the hook's stream layer is not registered under its client id any more (ids confused)")
                prev_pairs = pairs; continue
            if any(o.startswith("H:?") for o in st["out"]):
                fails.append(f"{st['in']}: hook of a stream layer that is not registered under its client id (ids not unique)")
                prev_pairs = pairs; continue
            if parts[0] in ("sd", "sr", "hook") and parts[1 if parts[0] == "hook" else 2] != "dg":
                if parts[0] == "hook":
                    src_c = int(parts[1])                                    # owner recorded when the hook was emitted
                else:
                    fc, sid = int(parts[1]), int(parts[2])
                    src_c = sid if fc else next((c for c, s in pairs if s == sid), None)
                for o in st["out"]:
                    f = o.split(":")
                    if f[0] in "DRT" and len(f[0]) == 1:
                        tgt_ok = (f[1] == "c" and int(f[2]) == src_c) or (f[1] == "s" and src_c in pm and pm[src_c] == int(f[2]))
                        if not tgt_ok:
                            fails.append(f"{st['in']} (stream pair {src_c},{pm.get(src_c)}) produced {o} on a different stream")
            for o in st["out"]:
                f = o.split(":")
                if f[0] in ("D", "R", "T"):
                    ok = (f[1] == "c" and int(f[2]) in pm) or (f[1] == "s" and int(f[2]) in pm.values())
                    if not ok: fails.append(f"{o} targets an unregistered stream")
            for o in st["out"]:
                if o == "C:c:f": closed_sides.add("1")
                elif o == "C:s:f": closed_sides.add("0")
            prev_pairs = pairs
        return fails

    def known_selftest(self):
        """doctored observations just outside what the oracle excuses; independent of the tree under test"""
        def step(inp, out, pairs, nxt=(0, 1, 2, 3)):
            return {"in": inp, "out": out, "pairs": [list(p) for p in pairs],
                    "srv": sorted([s, c] for c, s in pairs if s is not None), "next": list(nxt)}
        base = [step("start", ["H:dg:start"], []), step("sd 1 0 61 0", ["H:0:start"], [(0, None)]),
                step("hook 0 none 1 0", ["H:0:msg:c:61"], [(0, 0)], (4, 1, 2, 3))]
        must_fail = {
            "X on a known stream": base + [step("sd 1 0 62 0", ["X"], [(0, 0)])],
            "X on unknown id of the RIGHT initiator": base + [step("sd 1 4 62 0", ["X"], [(0, 0)])],
            "X on client close": base + [step("cc 1 0", ["Q:s:0", "X"], [(0, 0)])],
            "X on server close with every server side open": base + [step("cc 0 0", ["Q:c:0", "X"], [(0, 0)])],
            "stream forgotten": base + [step("sd 0 0 - 1", [], [])],
            "stream re-paired": base + [step("sd 0 0 62 0", [], [(0, 4)])],
            "peer id not registered": base + [step("sd 1 4 62 0", ["H:8:start"], [(0, 0), (8, None)])],
            "event ignored after only ONE connection closed": base + [step("cc 1 0", ["Q:s:0"], [(0, 0)]),
                                                                      step("sd 0 3 62 0", [], [(0, 0)])],
            "command on a foreign stream": base + [step("sd 1 4 62 0", ["H:4:start"], [(0, 0), (4, None)]),
                                                    step("hook 4 none 1 4", ["D:s:0:62:0"], [(0, 0), (4, 4)])],
            "hook owner changed": base + [step("hook 0 none 0 4", [], [(0, 0)])],
        }
        must_pass = {
            "ignored after both connections closed": base + [step("cc 1 0", ["Q:s:0"], [(0, 0)]), step("cc 0 0", [], [(0, 0)]),
                                                             step("sd 1 4 62 0", [], [(0, 0)])],
            "guard assertion": base + [step("sd 1 5 62 0", ["X"], [(0, 0)])],
            "unopened server side on server close": base[:2] + [step("cc 0 0", ["Q:c:0", "X"], [(0, None)])],
        }
        ucase = {"sched": [], "unconnected": 1}
        ubase = [step("start", ["O"], [])]
        if not self.oracle(ucase, {"steps": ubase + [step("connectq 0", ["H:dg:start"], []), step("sd 1 0 61 0", [], [])],
                                   "errors": [], "asserts": 0}):
            raise AssertionError("known_selftest: event ignored after a SUCCESSFUL connect must be rejected")
        for label, steps in {"buffered while connecting": ubase + [step("sd 1 0 61 0", [], [])],
                             "ignored after failed connect": ubase + [step("connectq 1", ["C:c:f"], []), step("sd 1 0 61 0", [], [])]}.items():
            f = self.oracle(ucase, {"steps": steps, "errors": [], "asserts": 0})
            if f: raise AssertionError(f"known_selftest: oracle rejects legitimate observation '{label}': {f[:2]}")
        if not self.oracle(ucase, {"steps": ubase + [step("sd 1 0 61 0", [], []), step("connectq 0", ["H:dg:start", "X"], [])],
                                   "errors": [], "asserts": 0}):
            raise AssertionError("known_selftest: X while replaying harmless buffered events must be rejected")
        if self.oracle(ucase, {"steps": ubase + [step("sd 0 0 62 0", [], []), step("connectq 0", ["H:dg:start", "X"], [])],
                               "errors": [], "asserts": 0}):
            raise AssertionError("known_selftest: X for a buffered wrong-initiator id must be accepted")
        if not self.oracle({"sched": []}, {"steps": [step("start", ["H:dg:start"], []), step("sd 1 0 61 0", [], [])],
                                           "errors": [], "asserts": 0}):
            raise AssertionError("known_selftest: the connecting excuse must not apply to pre-connected cases")
        for label, steps in must_fail.items():
            if not self.oracle({"sched": []}, {"steps": steps, "errors": [], "asserts": 0}):
                raise AssertionError(f"known_selftest: oracle accepts doctored observation '{label}'")
        for label, steps in must_pass.items():
            f = self.oracle({"sched": []}, {"steps": steps, "errors": [], "asserts": 0})
            if f: raise AssertionError(f"known_selftest: oracle rejects legitimate observation '{label}': {f[:2]}")

    # ---- model tie ---------------------------------------------------------------------------------
    def model_lines(self, case):
        last = getattr(self, "_last", None)
        obs = last[1] if last and last[0] is case else run_schedule(case)
        lines = ["resetq" if case.get("unconnected") else "reset"]
        for st in obs["steps"]:
            f = st["in"].split()
            lines.append(f"hookidx {f[3]} {f[2]}" if f[0] == "hook" else st["in"])
        return lines

    def model_obs(self, case, replies):
        return replies[1:]

    def impl_view(self, case, obs):
        out = []
        for st in obs["steps"]:
            f = st["in"].split()
            out.append(("own=%s " % f[1] if f[0] == "hook" else "") +
                       "%s pairs=%s next=%s" % (",".join(st["out"]) or "-",
                                                ";".join(f"{c}/{'n' if s is None else s}" for c, s in st["pairs"]) or "-",
                                                ",".join(map(str, st["next"]))))
        return out

    def classify(self, case, obs):
        if not any(o[0] in "DRT" for st in obs["steps"] for o in st["out"]): return None
        return (bool(case.get("unconnected")),) + tuple(st["in"] for st in obs["steps"])

    def branches(self, case, obs):
        b = []
        outs = [o for st in obs["steps"] for o in st["out"]]
        if any(o.startswith("R:") for o in outs): b.append("reset-forwarded")
        if any(o.startswith("T:") for o in outs): b.append("stop-sending")
        if any(o.startswith("D:") and o.endswith(":1") for o in outs): b.append("fin-forwarded")
        if any(o.startswith("Q:") for o in outs): b.append("close-quic")
        if obs["asserts"]: b.append("assertion(fault)")
        last = obs["steps"][-1]["pairs"] if obs["steps"] else []
        b.append(f"streams={len(last)}")
        if any(uni(c) for c, _ in last): b.append("uni")
        if any(not client_init(c) for c, _ in last): b.append("server-initiated")
        return b

    def neighbours(self, case, rng):
        s = case["sched"]
        for i in range(len(s) + 1):
            for a in self.ALPHA:
                yield {"sched": s[:i] + [list(a)] + s[i:]}

    def exhaustive(self, tier):
        return self.enum(3)
