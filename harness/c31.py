"""C31 — Content-Encoding round-trips and the codec cache is transparent
(mitmproxy/net/encoding.py decode/encode + the shared CachedDecode entry; mitmproxy/http.py
Message.set_content / get_content / decode / encode).

A case is a *history*: a list of ops run in one process state (module-level encoding.decode/encode on arbitrary
bodies, Message ops on two messages, header mutators).  The cache global is reset at the start of every case.
"""
import ast, codecs, gzip, inspect, json, re, textwrap, zlib
import brotli
try:                                    # same import rule as mitmproxy/net/encoding.py
    from compression import zstd
except ImportError:                     # pragma: no cover
    from backports import zstd
from common.check import PropertyCheck, hx, unhx
from mitmproxy import http
from mitmproxy.net import encoding as E

# ------------------------------------------------------------------------------------------------
# the uncached library codecs (bypass the cache) and spies recording the uncached calls the real code makes
ORIG_DEC = dict(E.custom_decode)
ORIG_ENC = dict(E.custom_encode)
IDENT_DEC = sorted(k for k, f in ORIG_DEC.items() if f is E.identity)
IDENT_ENC = sorted(k for k, f in ORIG_ENC.items() if f is E.identity)
CALLS = []
REC = [False]
_installed = [False]


def _spy(kind, name, f):
    def spy(data):
        if REC[0]: CALLS.append((kind, name, None, bytes(data)))
        return f(data)
    return spy


class _CodecsShim:
    """stands in for the `codecs` module inside mitmproxy.net.encoding: records, then delegates"""
    def __getattr__(self, k):
        return getattr(codecs, k)

    @staticmethod
    def decode(obj, encoding="utf-8", errors="strict"):
        if REC[0]: CALLS.append(("D", encoding, errors, bytes(obj)))
        return codecs.decode(obj, encoding, errors)

    @staticmethod
    def encode(obj, encoding="utf-8", errors="strict"):
        if REC[0]: CALLS.append(("E", encoding, errors, bytes(obj)))
        return codecs.encode(obj, encoding, errors)


def _install():
    if _installed[0]: return
    for k, f in ORIG_DEC.items():
        if f is not E.identity: E.custom_decode[k] = _spy("D", k, f)
    for k, f in ORIG_ENC.items():
        if f is not E.identity: E.custom_encode[k] = _spy("E", k, f)
    E.codecs = _CodecsShim()
    _installed[0] = True


DECFN_CODE = {"identity": 0, "decode_gzip": 1, "decode_deflate": 2, "decode_brotli": 3, "decode_zstd": 4}
DOCUMENTED_CACHED = ["gzip", "deflate", "deflateraw", "br", "zstd"]


def _probe_cached(kind):
    """which codings update `encoding._cache` — observed on the live code, never parsed from its source:
    run one fresh decode/encode per custom coding from an empty cache and look whether an entry for it appears"""
    out = []
    saved = E._cache
    try:
        for n in sorted(ORIG_ENC if kind == "E" else ORIG_DEC):
            if (ORIG_ENC if kind == "E" else ORIG_DEC)[n] is E.identity: continue
            E._cache = E.CachedDecode(None, None, None, None)
            try:
                if kind == "E": E.encode(b"probe-body", n)
                else: E.decode(ORIG_ENC[n](b"probe-body"), n)
            except Exception:
                continue
            if E._cache.encoding == n: out.append(n)
    finally:
        E._cache = saved
    return out


def _safe_probe(kind):
    try:
        r = _probe_cached(kind)
        return r if r else list(DOCUMENTED_CACHED)
    except Exception:
        return list(DOCUMENTED_CACHED)


# the harness and the oracle only use the behaviourally observed sets (no dependence on how the source spells them)
CACHED_DEC = _safe_probe("D")
CACHED_ENC = _safe_probe("E")


def _cached_tuple_from_source(fn):
    """(T) the literal collection in `if encoding in (...)` of encoding.decode / encoding.encode, or the module-level
    constant it names, read from the live source via ast.  Only used by translate(); returns None if the source is
    shaped differently (then the observed sets above are written to the Gen table instead)."""
    try:
        tree = ast.parse(textwrap.dedent(inspect.getsource(fn)))
    except Exception:
        return None
    found = []
    for n in ast.walk(tree):
        if isinstance(n, ast.Compare) and len(n.ops) == 1 and isinstance(n.ops[0], ast.In):
            c = n.comparators[0]
            if isinstance(c, (ast.Tuple, ast.List, ast.Set)):
                vals = [e.value for e in c.elts if isinstance(e, ast.Constant)]
                if len(vals) == len(c.elts) and all(isinstance(v, str) for v in vals): found.append(vals)
            elif isinstance(c, ast.Name):
                v = getattr(E, c.id, None)
                if isinstance(v, (tuple, list, set, frozenset)) and all(isinstance(x, str) for x in v): found.append(sorted(v))
    return found[0] if len(found) == 1 else None


# coding names (as they may appear in a header / an argument) used by the generator
CODINGS = ["identity", "none", "", "gzip", "GZip", "deflate", "deflateraw", "br", "BR", "zstd", "Zstd", "foo", "x-gzip",
           "base64", "hex", "utf8", "latin-1", "rot13"]
PROBE = sorted({c.lower() for c in CODINGS} | {"zlib", "bz2", "ascii", "utf-8", "utf-16", "quopri", "compress", "bogus"})


def _pykind(n):
    """how Python's codec registry treats the (lower-cased) name on *bytes* input"""
    try:
        info = codecs.lookup(n)
    except LookupError:
        return "unknown"
    if getattr(info, "_is_text_encoding", True): return "pytext"
    try:
        r = codecs.encode(b"x", n)
        return "pybytes" if isinstance(r, bytes) else "pytext"
    except TypeError:
        return "pytext"
    except Exception:
        return "pybytes"


def kind_of(name):
    n = name.lower()
    if n in IDENT_DEC and n in IDENT_ENC: return "identity"
    if n in CACHED_DEC and n in CACHED_ENC: return "cached"
    return _pykind(n)


def ref_decode(name, raw):
    """strict reference decoders, independent of mitmproxy's own decode_* functions; None = rejected"""
    n = name.lower()
    try:
        if n in ("identity", "none", ""): return raw
        if n == "gzip": return gzip.decompress(raw)
        if n == "deflate": return zlib.decompress(raw)
        if n == "deflateraw":
            try: return zlib.decompress(raw)
            except zlib.error: return zlib.decompress(raw, -15)
        if n == "br": return brotli.decompress(raw)
        if n == "zstd": return zstd.decompress(raw)
    except Exception:
        return None
    return None


STATEMENT_CODINGS = ("gzip", "deflate", "br", "zstd")      # + identity; deflateraw is mitmproxy-specific


def _res(r):
    if r is None: return "nil"
    if isinstance(r, bytes): return "ok:" + hx(r)
    if isinstance(r, str): return "str"
    return "exc:returned-" + type(r).__name__


def _fresh(need):
    """the uncached codec result the op may need, as the model's Res enum"""
    if need is None: return "verr"
    kind, n, errors, data = need
    try:
        if kind == "D":
            f = ORIG_DEC.get(n)
            r = f(data) if f else codecs.decode(data, n, errors)
        else:
            f = ORIG_ENC.get(n)
            r = f(data) if f else codecs.encode(data, n, errors)
    except TypeError:
        return "terr"
    except Exception:
        return "verr"
    return _res(r)


def _hs(s):
    return "none" if s is None else hx(s.encode("ascii"))


def _mstate(m):
    raw = m.raw_content
    tr = m.trailers
    return "%s,%s,%d,%s,%d,%d" % ("none" if raw is None else hx(raw), _hs(m.headers.get("content-encoding")),
                                  1 if "transfer-encoding" in m.headers else 0, m.headers.get("content-length", "none"),
                                  0 if tr is None else (2 if len(tr) else 1), VERSIONS.index(m.http_version))


def _cache_r():
    c = E._cache
    if c.encoded is None and c.encoding is None and c.errors is None and c.decoded is None: return "none"
    if not (isinstance(c.encoded, bytes) and isinstance(c.decoded, bytes) and isinstance(c.encoding, str) and isinstance(c.errors, str)):
        return "weird:" + repr(c)[:80]
    return ":".join([hx(c.encoded), _hs(c.encoding), _hs(c.errors), hx(c.decoded)])


def _need_r(need):
    if need is None: return "-"
    return ":".join([need[0], _hs(need[1]), _hs(need[2]), hx(need[3])])


VERSIONS = ["HTTP/1.1", "HTTP/2.0", "HTTP/3"]
TRAILERS = ["none", "empty", "some"]          # Message.trailers: None / Headers() (falsy) / non-empty Headers (truthy)


def _new_msgs():
    return [http.Response(b"HTTP/1.1", 200, b"OK", http.Headers(), None, None, 0.0, 0.0),
            http.Request(b"example.com", 80, b"GET", b"http", b"example.com", b"/", b"HTTP/1.1", http.Headers(), None, None, 0.0, 0.0)]


def _need(ms, op, v):
    """(kind, lower-cased name, errors, data) of the single non-identity codec call the op can make — read off the
    anchored code: set_content -> encode(value, ce or 'identity'); get_content -> decode(raw, ce) if ce;
    Message.decode -> get_content (+ identity set_content); Message.encode -> header := c, set_content(raw)."""
    o = op["o"]
    if o == "dec":
        n = op["c"].lower()
        return None if n in IDENT_DEC else ("D", n, op["e"], unhx(op["data_hex"]))
    if o == "enc":
        n = op["c"].lower()
        return None if n in IDENT_ENC else ("E", n, op["e"], unhx(op["data_hex"]))
    if o in ("raw", "ce", "te", "cl", "tr", "ver"): return None
    m = ms[op["i"]]
    ce = m.headers.get("content-encoding")
    raw = m.raw_content
    if o == "set":
        if v is None: return None
        n = (ce or "identity").lower()
        return None if n in IDENT_ENC else ("E", n, "strict", v)
    if o == "get":
        if raw is None or not ce: return None
        n = ce.lower()
        return None if n in IDENT_DEC else ("D", n, "strict", raw)
    if o == "mdec":
        if not raw or not ce: return None
        n = ce.lower()
        return None if n in IDENT_DEC else ("D", n, "strict", raw)
    if o == "menc":
        if raw is None: return None
        n = (op["c"] or "identity").lower()
        return None if n in IDENT_ENC else ("E", n, "strict", raw)
    raise ValueError("unknown op " + o)


def _exec(ms, op, v):
    o = op["o"]
    try:
        if o == "dec": return _res(E.decode(unhx(op["data_hex"]), op["c"], op["e"]))
        if o == "enc": return _res(E.encode(unhx(op["data_hex"]), op["c"], op["e"]))
        m = ms[op["i"]]
        if o == "set": m.set_content(v); return "done"
        if o == "get": return _res(m.get_content(bool(op["s"])))
        if o == "mdec": m.decode(bool(op["s"])); return "done"
        if o == "menc": m.encode(op["c"]); return "done"
        if o == "raw": m.raw_content = v; return "done"
        if o == "ce":
            if op["c"] is None: m.headers.pop("content-encoding", None)
            else: m.headers["content-encoding"] = op["c"]
            return "done"
        if o == "te":
            if op["on"]: m.headers["transfer-encoding"] = "chunked"
            else: m.headers.pop("transfer-encoding", None)
            return "done"
        if o == "cl":
            if op["n"] is None: m.headers.pop("content-length", None)
            else: m.headers["content-length"] = str(op["n"])
            return "done"
        if o == "tr":
            m.trailers = {"none": None, "empty": http.Headers(), "some": http.Headers([(b"grpc-status", b"0"), (b"x-checksum", b"abc")])}[op["t"]]
            return "done"
        if o == "ver":
            m.http_version = op["v"]
            return "done"
    except ValueError:
        return "verr"
    except TypeError:
        return "terr"
    except Exception as e:           # nothing else is allowed by the anchored code: surfaces in the oracle
        return "exc:" + type(e).__name__
    raise ValueError("unknown op " + o)


def _readback(m):
    """strict `m.content` read in the current process state, without leaving a trace in the cache"""
    saved = E._cache
    try:
        return _res(m.get_content(True))
    except ValueError:
        return "verr"
    except TypeError:
        return "terr"
    except Exception as e:
        return "exc:" + type(e).__name__
    finally:
        E._cache = saved


def _value(op, last, ms=None):
    if op["o"] not in ("set", "raw"): return None
    m = op.get("m", "val")
    if m == "none": return None
    if m == "last": return last
    if m == "rawof": return ms[op["j"]].raw_content        # the (encoded) raw body of the other message object
    return unhx(op["v_hex"])


def _b(tok):
    """bytes of an 'ok:<hex>' result token (None otherwise)"""
    return unhx(tok[3:]) if tok.startswith("ok:") else None


def _raw_of(mstate):
    r = mstate.split(",")[0]
    return None if r == "none" else unhx(r)


def _ce_of(mstate):
    r = mstate.split(",")[1]
    return None if r == "none" else unhx(r).decode("ascii")


def _own(case):
    """case kind {"own": <custom_decode key>, "data_hex": x}: mitmproxy's own decoder FUNCTION for that key run on x
    (any exception = verr), next to the outcome of the library calls that function makes on x — the values the
    transcription `ownDecodeWith` receives"""
    n, x = case["own"], unhx(case["data_hex"])
    f = ORIG_DEC.get(n)
    if f is None: return {"own": "nofn", "l1": "err", "l2": "err", "fn": "-"}
    try:
        real = _res(f(x))
    except Exception:
        real = "verr"

    def lib(call):
        try: return "ok:" + hx(call())
        except Exception: return "err"

    def z47():
        d = zlib.decompressobj(47); return d.decompress(x) + d.flush()
    first = {"decode_gzip": z47, "decode_deflate": lambda: zlib.decompress(x), "decode_brotli": lambda: brotli.decompress(x),
             "decode_zstd": lambda: zstd.decompress(x)}.get(f.__name__)
    return {"own": real, "l1": lib(first) if first else "err", "l2": lib(lambda: zlib.decompress(x, -15)), "fn": f.__name__}


# ------------------------------------------------------------------------------------------------
P1 = b"hello hello hello hello"
P2 = b"\x00\xffbinary\x80 body"


def _streams(p):
    gz = ORIG_ENC["gzip"](p); zl = zlib.compress(p, 1)
    co = zlib.compressobj(1, zlib.DEFLATED, -15); rd = co.compress(p) + co.flush()
    br = brotli.compress(p, quality=0); zs = zstd.compress(p, level=1)
    return {"gzip": [gz, gz[:-4], gz[:max(11, len(gz) // 2)], gz + b"junk", zl, b"", b"\xff\xfenot compressed"],
            "deflate": [zl, rd, zl + b"xx", zl[:-2], b"", gz],
            "deflateraw": [rd, zl, b"", b"\x00"],
            "br": [br, br[:-1], b"", br + br, b"\xff\xff\xff"],
            "zstd": [zs, zs[:-1], b"", zs + zs, b"(\xb5/\xfd"]}


STREAMS = {p: _streams(p) for p in (b"", b"x", P1, P2)}
CASEVAR = {"gzip": ["gzip", "GZip", "GZIP"], "deflate": ["deflate", "Deflate"], "deflateraw": ["deflateraw", "DeflateRaw"],
           "br": ["br", "BR"], "zstd": ["zstd", "Zstd"]}


class Check(PropertyCheck):
    prop = "C31"
    design_ref = "§5 C31"
    level_text = (
        "49 Lean theorems, each over ALL call histories (any interleaving of encoding.decode/encode on arbitrary bodies and "
        "of set_content/get_content/Message.decode/Message.encode/header mutations on two messages sharing the one cache "
        "entry), by induction on the op list via `stepWith_cache` (what one op can do to the cache) and the invariant "
        "'the entry (e,c,err,d) has a compressed coding and the uncached decoder maps e to d'. "
        "Transparency: decode_transparent (encoding.decode = uncached result, all names/outcomes), "
        "encode_semantically_transparent, get_content_transparent (get_content = `contentOf`, the cache-free reading of the "
        "message: bytes/None/ValueError/TypeError alike), get_content_history_independent (two arbitrary histories leaving a "
        "message in the same state read the same content), message_ops_isolated + get_content_pure_on_message (only setters/"
        "decode/encode/mutators of message j can change message j; everything else reaches it through the cache only). "
        "Round trips / idempotence at every reachable state: set_get_content, unknown_coding_removed, set_content_idempotent "
        "(second identical assignment leaves messages AND cache exactly as the first), set_set_last_wins, get_content_idempotent, "
        "decode_idempotent, decode_encode_preserves and decode_encode_preserves_interleaved (arbitrary non-writing sub-histories "
        "between decode, encode and the read), encode_after_encode (encode wraps: dec_c1(dec_c2 raw) = v, content becomes the "
        "c1 stream). Content-Length: content_length_eq_raw_len_without_TE (one step, any coding, any codec result) and "
        "content_length_invariant (carried along any tail of non-writing ops and trailer/version changes after a completed "
        "set_content/decode/encode). The message state carries trailers (absent/empty/non-empty) and HTTP version; both "
        "Content-Length theorems hold for every value of them, and trailers_irrelevant / trailers_irrelevant_history prove that no "
        "op's result, cache effect or other message field depends on them (seed c31-5 made set_content read the trailers). Raw body: "
        "raw_decodes_to_content_lenient (all histories, mitmproxy's own decoder), raw_decodes_to_content_partial / _partial_hit "
        "(strict reference decoder, F-C31a class excluded by a decidable guard), raw_decodes_to_content_counterexample. "
        "Everything of Message.set_content/get_content/decode/encode is inside the model: None body, set_content(None), encode "
        "on a missing body, empty-string / absent / identity / none / unknown / bytes-codec / text-codec headers, header removal "
        "on an invalid coding, TypeError escape (encode leaves its header set), strict vs non-strict, Transfer-Encoding rule, "
        "Content-Length. Tie: differential replay of small-scope-exhaustive, templated and random histories; after every op the "
        "result, the cache tuple, both message states and the predicted uncached codec call (name, errors, data) are compared; "
        "spies assert the real code makes at most that one uncached call; the values of `last` / `rawof` re-assignments are "
        "resolved by the model itself; name tables are regenerated from the live module every run. Round 5 (deepening): "
        "(a) every history theorem is also proved from ANY start state satisfying the invariant instead of an empty cache "
        "(inv_of_empty, inv_preserved, decode_transparent_inv, encode_semantically_transparent_inv, get_content_transparent_inv, "
        "set_get_content_inv, set_content_idempotent_inv, decode_idempotent_inv, raw_decodes_to_content_lenient_inv, "
        "decode_encode_preserves_inv; inv_needed_counterexample: a false cache entry breaks transparency, so the invariant cannot "
        "be dropped); (b) the coding-kind hypothesis is removed from the idempotence theorems (set_content_idempotent_any_coding, "
        "decode_idempotent_any_coding: any header, bytes-/text-codecs, TypeError outcomes included); (c) mitmproxy's OWN decoder "
        "functions identity/decode_gzip/decode_deflate/decode_brotli/decode_zstd are transcribed (`ownDecodeWith`: the `if not "
        "content: return b\"\"` shortcut, decode_deflate's raw-deflate fallback, library error -> ValueError) and tied by the driver "
        "op `own` to the real functions on bodies of every shape; `ofLib` builds the Codecs parameter from a library with TWO laws "
        "(round trip; empty in => empty out), so the former law fields dec_empty / dec_shape / roundtrip / ref_enc / ref_dec become "
        "theorems (own_decoders_accept_empty, own_decoders_extend_library, own_deflate_fallback) and "
        "raw_decodes_to_content_counterexample_own_shortcut shows F-C31a arises from mitmproxy's own shortcut with a perfectly "
        "strict library; (d) `contentOf` is tied: after every op the model's cache-free reading of BOTH messages (contentOf_eq_with) "
        "is compared with the real code's strict read-back in its real cache state. "
        "Clause table (statement clause -> theorem / oracle tag): assign+read back -> set_get_content(_inv), set_set_last_wins / "
        "[assign][readback][unknown]; raw decodes with independent decoders -> RawDecodesToContent FALSE (F-C31a): "
        "raw_decodes_to_content_lenient/_partial/_partial_hit/_counterexample(_own_shortcut) / [raw-ref]; Content-Length without TE -> "
        "content_length_eq_raw_len_without_TE, content_length_invariant, trailers_irrelevant / [content-length]; decode then re-encode "
        "-> decode_encode_preserves(_interleaved,_inv), decode_idempotent(_any_coding), encode_after_encode / [decode][decode-encode]; "
        "no result depends on earlier calls -> AT FULL (byte) STRENGTH for decode results and content: decode_transparent, "
        "get_content_transparent, get_content_history_independent, message_ops_isolated (+ the `content` read-back tie) / [hist]; "
        "for encoding.encode results and the raw body an assignment stores the byte-level reading (defs EncodeHistoryIndependent, "
        "StoredRawHistoryIndependent) is FALSE BY DESIGN of the cache (encode_history_independent_counterexample, "
        "stored_raw_history_independent_counterexample) and the clause is read SEMANTICALLY: encode_history_independent_partial "
        "(= encode_semantically_transparent: results equal up to what they decode to), raw_decodes_to_content_lenient, plus the "
        "byte-level partials encode_bytes_history_independent_partial(_hit) and stored_raw_history_independent_partial_hit "
        "(byte-identical unless the call is a cache hit on a non-canonical entry; decidable guards nonCanonicalHit / canonHist) / "
        "[hist-enc][hist-raw], which compare by reference-decoding; quantifier "
        "(empty bodies, unknown / mixed-case codings, invalid data, arbitrary call sequences) -> own_decoders_accept_empty, "
        "unknown_coding_removed, asciiLower in every statement, verr outcomes in decode_transparent, forall ops / generator pools.")
    level_note = (
        "READING OF SENTENCE 5 ('no result ever depends on which bodies were encoded or decoded earlier'): byte-exact for "
        "encoding.decode results, get_content, and every message field other than the raw body; SEMANTIC (equal up to what the "
        "bytes decode to) for encoding.encode results and for the raw body stored by set_content / Message.encode. Byte-level "
        "dependence there is the cache's documented purpose (encoding.py: `flow.request.content = flow.request.content.replace("
        "b'foo', b'bar')` must not re-encode when nothing changed - the peer's original bytes are kept), and the statement's own "
        "sentence 2 speaks of the raw body DECODING to the content, i.e. of meaning, not bytes. The full byte-level statements are "
        "kept as defs (EncodeHistoryIndependent, StoredRawHistoryIndependent) with counterexamples and guarded byte-level partials. "
        "Two subclasses: (i) the kept bytes are ALSO rejected by strict reference decoders = finding F-C31a (recorded, classifier "
        "`_lenient`); (ii) the kept bytes are a VALID stream that merely differs from the canonical one (peer used another "
        "compression level / another valid encoding): covered by the semantic theorems and by the oracle clauses [hist-enc] / "
        "[hist-raw], which reference-decode both variants and demand equal meaning - it never fails an oracle clause and the "
        "statement's observable (content via independent decoders) IS history independent, so it is deliberately NOT recorded as "
        "a second finding in known/C31.json. The Lean guards are tied: driver op `guard` evaluates encHit / lenientHit / "
        "nonCanonicalHit in the pre-op cache of every assignment and encode (errors strict) and the harness compares them with "
        "'the real code made no codec call', with the classifier `_lenient` (L) and with 'the hit bytes differ from the uncached "
        "encoder's' (N) - lenientHit_eq_with / nonCanonicalHit_eq_with; strictOp/strictHist/canonOp/canonHist are the history "
        "forms of the same guards (proved to imply them, not separately executed). get_content_pure_on_message and "
        "trailers_irrelevant(_history) hold by the model's SHAPE and mean something for mitmproxy only through the tie (message "
        "state incl. trailers/version compared after every op). "
        "assumed, not proved: the compression LIBRARIES. Since round 5 two forms: the abstract `Codecs` parameter (laws below) "
        "kept for all theorems, and its instance `ofLib L P` where only `Lib` (zlib/brotli/zstd: total compress, the decoder call "
        "the wrapper makes, raw inflation; laws: decompress(compress d) = d, decompress([]) = d => d = []) and `PyReg` (the codecs "
        "registry; law: unknown names fail) are assumed and everything mitmproxy adds on top (empty shortcut, raw-deflate fallback, "
        "error mapping) is transcribed and tied. Lenient branches: (i) empty body -> b'' in all four decode_* (own code, modelled, "
        "tied); (ii) decode_deflate falls back to raw deflate (own code, modelled, tied); (iii) decode_gzip uses "
        "zlib.decompressobj(47), which accepts zlib-wrapped, truncated and garbage-trailed streams (LIBRARY lenience: inside "
        "Lib.decompress, not modelled further). "
        "Abstract form: the compression libraries are the parameter `Codecs` of every theorem (laws as structure "
        "fields: compressed codings always encode, the decoder inverts the encoder, decoding the empty body gives the empty "
        "body, a decoder yields bytes or ValueError, unknown names fail both ways, the strict reference decoder accepts encoder "
        "output and the lenient decoder extends it). The laws are satisfiable (instance `toy`) and sampled every run by the "
        "oracle on the real gzip/zlib/brotli/zstd; the only observed values fed to the model are the uncached codec results "
        "(`fresh`) — that is this parameter. Coding names are ASCII (str.lower = ASCII lower); names outside the generated probe "
        "list are classed unknown (= LookupError). The idempotence / round-trip theorems speak about headers whose coding is an "
        "identity name, a compressed coding or unknown (`OkName`); for Python bytes-/text-codecs used as a coding only the "
        "transparency, isolation and Content-Length theorems apply (the property statement makes no claim there). "
        "raw_decodes_to_content is FALSE at full strength on the unchanged code (finding F-C31a: after a lenient-only decode is "
        "cached, re-assigning the same content stores the peer's original bytes, which strict decoders reject — empty body under "
        "br/zstd/deflate, truncated gzip, zlib-wrapped 'gzip'); kept as `RawDecodesToContent`, proved partial + counterexample. "
        "known() excuses only the clauses [raw-ref] / [hist-raw] / [hist-enc] and only when the op made no codec call, the pre-op "
        "cache entry is exactly (bytes, coding, errors, content), the strict decoder rejects the bytes, mitmproxy's own decoder "
        "maps them to the content, and the entry was made by a real decode call of this history (known_selftest, 42 triples, runs "
        "in setup()). Oracle reading: assigning None and assignments under bytes-/text-codecs carry no claim (exceptions other than "
        "ValueError/TypeError are still flagged); `deflateraw` is checked for read-back/history independence but not against an "
        "independent decoder (no independent definition of that label). The oracle's Content-Length clause takes the Transfer-Encoding state from "
        "the case's own `te` ops (not from the run) and applies after every completed set_content(bytes) / Message.encode / "
        "Message.decode of a non-empty body, with no condition on trailers, version or the previous Content-Length. "
        "Observation, not flagged: text codecs as Content-Encoding "
        "(utf8, latin-1, rot13) let TypeError escape from set_content/Message.encode; the model reproduces it (terr).")
    technique = "Lean 4 proof (cache invariant by induction over op histories, codecs as a law-carrying parameter) + differential history correspondence + generated name tables"
    rule = ("a case is a history of 3-30 ops (encoding.decode/encode with errors strict/replace, set_content/get_content/"
            "Message.decode/Message.encode on two messages, raw/header mutators) over a per-case pool of bodies (empty, "
            "plain, valid streams, truncated gzip, zlib-as-gzip, raw deflate, trailing garbage, invalid) and codings "
            "(identity, none, '', gzip/deflate/deflateraw/br/zstd in mixed case, unknown, Python bytes- and text-codecs); "
            "small-scope exhaustive two-op histories first, then 60% scenario templates (peer body -> read -> re-assign -> "
            "decode -> re-encode with interleaved noise on other bodies), 30% random ops, 10% raw random bytes. distinct = "
            "distinct history; non-trivial = at least one non-identity codec call or cache hit. Message framing is varied too "
            "(round 5): trailers None / empty Headers() / non-empty, Transfer-Encoding present / absent, Content-Length absent / "
            "correct / stale, HTTP/1.1 / HTTP/2.0 / HTTP/3, a Response and a Request object — as a small-scope block (every "
            "trailers x TE x Content-Length-state x coding x {set bytes, decode, encode, set None}) run first, as `tr`/`ver`/`te`/`cl` "
            "mutator ops inside random histories, and as a framing preamble on 25% of the generated histories.")
    budget = {"quick": 3000, "thorough": 100000}
    time_budget = {"quick": 25, "thorough": 420}
    fingerprints = ["mitmproxy.net.encoding:decode", "mitmproxy.net.encoding:encode", "mitmproxy.net.encoding:identity",
                    "mitmproxy.net.encoding:decode_gzip", "mitmproxy.net.encoding:encode_gzip",
                    "mitmproxy.net.encoding:decode_deflate", "mitmproxy.net.encoding:encode_deflate",
                    "mitmproxy.net.encoding:decode_brotli", "mitmproxy.net.encoding:encode_brotli",
                    "mitmproxy.net.encoding:decode_zstd", "mitmproxy.net.encoding:encode_zstd",
                    "mitmproxy.http:Message.set_content", "mitmproxy.http:Message.get_content",
                    "mitmproxy.http:Message.decode", "mitmproxy.http:Message.encode", "mitmproxy.http:Message.trailers"]
    trusted_base = ["zlib / gzip / brotli / zstd libraries: assumed to satisfy the Codecs laws stated in Model/C31.lean "
                    "(sampled on every run by the reference-decoder oracle, not proved)",
                    "Python codecs registry behaviour for non-custom names enters the model as the supplied `fresh` result"]
    parallel = False         # measured: one process evaluates ~290-700 histories/s; the fork pool (4-case chunks, large
                             # observables to pickle) was slower than that on this workload

    _memo = (None, None)

    # ---------------- (T) tables from the live source ----------------
    def translate(self):
        def lst(names):
            return "[" + ", ".join("[" + ", ".join("0x%02x" % b for b in n.encode("ascii")) + "]" for n in names) + "]"

        def doc(names):
            return " ".join(repr(n) for n in names)
        # source-level tables when the source has the expected shape, else the behaviourally observed ones;
        # a table that disagrees with the code's behaviour shows up as a model/implementation mismatch
        CACHED_DEC = _cached_tuple_from_source(E.decode) or globals()["CACHED_DEC"]
        CACHED_ENC = _cached_tuple_from_source(E.encode) or globals()["CACHED_ENC"]
        kinds = {n: _pykind(n) for n in PROBE if n not in ORIG_DEC and n not in ORIG_ENC}
        pyb = sorted(n for n, k in kinds.items() if k == "pybytes")
        pyt = sorted(n for n, k in kinds.items() if k == "pytext")
        unk = sorted(n for n, k in kinds.items() if k == "unknown")
        src = ("-- GENERATED by harness/c31.py translate() from mitmproxy/net/encoding.py (ast of decode/encode, the\n"
               "-- custom_decode/custom_encode dicts) and by probing the interpreter's codecs registry. Do not edit.\n"
               "namespace MitmVerif.Gen.C31\n\n"
               f"/-- keys of `custom_decode` bound to `identity`: {doc(IDENT_DEC)} -/\n"
               f"def identityDec : List (List UInt8) := {lst(IDENT_DEC)}\n\n"
               f"/-- keys of `custom_encode` bound to `identity`: {doc(IDENT_ENC)} -/\n"
               f"def identityEnc : List (List UInt8) := {lst(IDENT_ENC)}\n\n"
               f"/-- all keys of `custom_decode`: {doc(sorted(ORIG_DEC))} -/\n"
               f"def customDec : List (List UInt8) := {lst(sorted(ORIG_DEC))}\n\n"
               f"/-- all keys of `custom_encode`: {doc(sorted(ORIG_ENC))} -/\n"
               f"def customEnc : List (List UInt8) := {lst(sorted(ORIG_ENC))}\n\n"
               f"/-- the tuple in `encoding.decode`: `if encoding in (...)`: {doc(CACHED_DEC)} -/\n"
               f"def cachedDec : List (List UInt8) := {lst(CACHED_DEC)}\n\n"
               f"/-- the tuple in `encoding.encode`: `if encoding in (...)`: {doc(CACHED_ENC)} -/\n"
               f"def cachedEnc : List (List UInt8) := {lst(CACHED_ENC)}\n\n"
               "/-- which function each `custom_decode` key is bound to (`f.__name__`): 0 identity, 1 decode_gzip, 2 decode_deflate,\n"
               f"    3 decode_brotli, 4 decode_zstd, 99 anything else: {doc([k + '->' + ORIG_DEC[k].__name__ for k in sorted(ORIG_DEC)])} -/\n"
               "def decodeFn : List (List UInt8 × Nat) := [" + ", ".join(
                   "([" + ", ".join("0x%02x" % b for b in k.encode("ascii")) + "], %d)" % DECFN_CODE.get(ORIG_DEC[k].__name__, 99)
                   for k in sorted(ORIG_DEC)) + "]\n\n"
               f"/-- probed names that Python's codecs maps bytes -> bytes: {doc(pyb)} -/\n"
               f"def pyBytes : List (List UInt8) := {lst(pyb)}\n\n"
               f"/-- probed names that are text codecs / reject bytes (TypeError or str result): {doc(pyt)} -/\n"
               f"def pyText : List (List UInt8) := {lst(pyt)}\n\n"
               f"/-- probed names unknown to the registry (LookupError): {doc(unk)} -/\n"
               f"def pyUnknown : List (List UInt8) := {lst(unk)}\n\n"
               "end MitmVerif.Gen.C31\n")
        return {"MitmVerif/Gen/C31.lean": src}

    # ---------------- generator ----------------
    def _small_scope(self, full):
        cods = ["gzip", "deflate", "br", "zstd", "identity", "foo"] + (["deflateraw", "GZip", "utf8", "base64"] if full else [])
        bodies = [b"", b"x", ORIG_ENC["gzip"](b"x"), zlib.compress(b"x", 1)] + ([brotli.compress(b"x", quality=0), ORIG_ENC["gzip"](b"x")[:-4]] if full else [])
        for c1 in cods:
            for x1 in bodies:
                for c2 in cods:
                    for x2 in bodies:
                        if not full and c1 != c2 and x1 != x2: continue
                        for o1 in ("dec", "enc"):
                            for o2 in ("dec", "enc"):
                                yield {"ops": [{"o": o1, "data_hex": hx(x1), "c": c1, "e": "strict"},
                                               {"o": o2, "data_hex": hx(x2), "c": c2, "e": "strict"}]}
        for c in [k for k in ("gzip", "deflate", "br", "zstd", "deflateraw") if k in ORIG_ENC]:
            for x in (b"", b"x", P1):
                for variant in range(6):
                    yield {"ops": self._chain(c, x, variant)}
        for c in cods:
            for x in bodies:
                for c2 in cods:
                    yield {"ops": [{"o": "raw", "i": 0, "m": "val", "v_hex": hx(x)}, {"o": "ce", "i": 0, "c": c},
                                   {"o": "get", "i": 0, "s": 1}, {"o": "set", "i": 0, "m": "last"}, {"o": "get", "i": 0, "s": 1},
                                   {"o": "mdec", "i": 0, "s": 1}, {"o": "menc", "i": 0, "c": c2}, {"o": "get", "i": 0, "s": 1}]}

    @staticmethod
    def _chain(c, x, variant, cv=None):
        """histories over bodies that are each other's encodings (X, enc(X), enc(enc(X))) with ONE coding, on the module
        functions and across two different message objects: a fresh encode followed by an encode of its output / a
        decode of its input must not be answered from the entry the first call left behind"""
        cv = cv or c
        e1 = ORIG_ENC[c](x); e2 = ORIG_ENC[c](e1)
        E_ = lambda d, cc=cv: {"o": "enc", "data_hex": hx(d), "c": cc, "e": "strict"}
        D_ = lambda d, cc=cv: {"o": "dec", "data_hex": hx(d), "c": cc, "e": "strict"}
        if variant == 0: return [E_(x), E_(e1), D_(e2), D_(e1)]
        if variant == 1: return [E_(x), D_(x)]
        if variant == 2: return [E_(x), E_(e1, c), E_(e2), D_(e1), D_(x)]
        if variant == 3:      # message A gets X, message B gets A's raw body as content (same coding), both read back
            return [{"o": "ce", "i": 0, "c": cv}, {"o": "ce", "i": 1, "c": c}, {"o": "set", "i": 0, "m": "val", "v_hex": hx(x)},
                    {"o": "set", "i": 1, "m": "rawof", "j": 0}, {"o": "get", "i": 1, "s": 1}, {"o": "get", "i": 0, "s": 1},
                    E_(b"unrelated body that evicts the entry", "zstd"), {"o": "get", "i": 1, "s": 1}]
        if variant == 4:      # double compression on one message, then the other message decodes the inner stream
            return [{"o": "ce", "i": 0, "c": c}, {"o": "set", "i": 0, "m": "val", "v_hex": hx(x)}, {"o": "menc", "i": 0, "c": cv},
                    {"o": "get", "i": 0, "s": 1}, {"o": "ce", "i": 1, "c": c}, {"o": "raw", "i": 1, "m": "rawof", "j": 0},
                    {"o": "get", "i": 1, "s": 1}, {"o": "mdec", "i": 1, "s": 1}, {"o": "get", "i": 1, "s": 1}]
        return [{"o": "ce", "i": 1, "c": c}, {"o": "set", "i": 1, "m": "val", "v_hex": hx(x)}, D_(x), {"o": "ce", "i": 0, "c": cv},
                {"o": "set", "i": 0, "m": "rawof", "j": 1}, {"o": "set", "i": 1, "m": "rawof", "j": 0}, {"o": "get", "i": 1, "s": 1}]

    def _coding(self, rng, pool):
        return rng.pick(pool)

    def _rand_op(self, rng, bodies, cods):
        k = rng.weighted([(14, "dec"), (12, "enc"), (14, "set"), (14, "get"), (8, "mdec"), (8, "menc"),
                          (8, "raw"), (8, "ce"), (3, "te"), (2, "cl"), (2, "tr"), (1, "ver")])
        i = rng.randint(0, 1)
        if k in ("dec", "enc"):
            return {"o": k, "data_hex": hx(rng.pick(bodies)), "c": rng.pick(cods), "e": "replace" if rng.chance(0.15) else "strict"}
        if k in ("set", "raw"):
            r = rng.random()
            if r < 0.08: return {"o": k, "i": i, "m": "none"}
            if r < 0.45: return {"o": k, "i": i, "m": "last"}
            return {"o": k, "i": i, "m": "val", "v_hex": hx(rng.pick(bodies))}
        if k in ("get", "mdec"): return {"o": k, "i": i, "s": 0 if rng.chance(0.25) else 1}
        if k == "menc": return {"o": k, "i": i, "c": rng.pick(cods)}
        if k == "ce": return {"o": k, "i": i, "c": None if rng.chance(0.2) else rng.pick(cods)}
        if k == "te": return {"o": k, "i": i, "on": rng.randint(0, 1)}
        if k == "tr": return {"o": k, "i": i, "t": rng.pick(TRAILERS)}
        if k == "ver": return {"o": k, "i": i, "v": rng.pick(VERSIONS)}
        return {"o": k, "i": i, "n": None if rng.chance(0.3) else rng.randint(0, 40)}

    def _history(self, rng):
        p = rng.pick([b"", b"x", P1, P1, P2])
        st = STREAMS[p]
        fam = rng.pick(list(st))
        fam2 = rng.pick(list(st))
        cods = [rng.pick(CASEVAR[fam]), rng.pick(CASEVAR[fam]), rng.pick(CASEVAR[fam2]), rng.pick(CODINGS), rng.pick(CODINGS)]
        bodies = [b"", p, rng.pick(st[fam]), rng.pick(st[fam]), rng.pick(st[fam2]), rng.pick([P1, P2, b"x", b"\xff\xfenot compressed"])]
        r = rng.random()
        if r < 0.12:
            ops = self._chain(fam, rng.pick([p, P1, P2, b""]), rng.randint(0, 5), rng.pick(CASEVAR[fam]))
            if rng.chance(0.4):    # an unrelated op somewhere in between (may or may not evict the entry)
                k = rng.randint(1, len(ops)); ops = ops[:k] + [self._rand_op(rng, bodies, cods)] + ops[k:]
            return {"ops": ops}
        if r < 0.6:
            i = rng.randint(0, 1)
            c = rng.pick(CASEVAR[fam])
            x = rng.pick(st[fam])

            def noise(n):
                out = []
                for _ in range(rng.randint(0, n)):
                    op = self._rand_op(rng, bodies, cods)
                    if rng.chance(0.7) and "i" in op: op["i"] = 1 - i     # mostly the other message / module-level
                    out.append(op)
                return out
            ops = [{"o": "raw", "i": i, "m": "val", "v_hex": hx(x)}, {"o": "ce", "i": i, "c": c}]
            if rng.chance(0.15): ops.append({"o": "te", "i": i, "on": 1})
            ops += noise(2)
            ops.append({"o": "get", "i": i, "s": 1 if rng.chance(0.8) else 0})
            ops += noise(2)
            ops.append({"o": "set", "i": i, "m": "last"} if rng.chance(0.6) else {"o": "set", "i": i, "m": "val", "v_hex": hx(rng.pick([p, b"", P2]))})
            ops += noise(1)
            ops.append({"o": "get", "i": i, "s": 1})
            if rng.chance(0.7):
                ops += noise(1)
                ops.append({"o": "mdec", "i": i, "s": 1 if rng.chance(0.8) else 0})
                if rng.chance(0.85):
                    ops.append({"o": "menc", "i": i, "c": rng.pick(cods + [c, "identity", "gzip", "br"])})
                ops += noise(2)
                ops.append({"o": "get", "i": i, "s": 1})
            return {"ops": ops[:30]}
        if r < 0.9:
            n = rng.randint(5, 30)
            ops = []
            while len(ops) < n:
                op = self._rand_op(rng, bodies, cods)
                ops.append(op)
                if op["o"] == "mdec" and rng.chance(0.7):
                    ops.append({"o": "menc", "i": op["i"], "c": rng.pick(cods)})
            return {"ops": ops[:30]}
        bodies = [rng.bytes_(rng.randint(0, 12)) for _ in range(4)] + [b""]
        cods = [rng.pick(CODINGS) for _ in range(3)]
        return {"ops": [self._rand_op(rng, bodies, cods) for _ in range(rng.randint(3, 20))]}

    @staticmethod
    def _msg_state(i, tr, ver, te, cl):
        """ops that put message i into a given framing state: trailers, HTTP version, Transfer-Encoding, Content-Length
        (None absent / an int — correct or stale, the caller decides)"""
        ops = [{"o": "tr", "i": i, "t": tr}, {"o": "ver", "i": i, "v": ver}, {"o": "te", "i": i, "on": 1 if te else 0}]
        ops.append({"o": "cl", "i": i, "n": cl})
        return ops

    def _framing_scope(self):
        """small scope over the message-framing dimensions: trailers x Transfer-Encoding x Content-Length state (absent /
        correct / stale) x coding (identity + every compressed coding) x content-changing action (set bytes / decode /
        encode / set None), HTTP version and request/response rotating through"""
        n = 0
        for tr in TRAILERS:
            for te in (0, 1):
                for cls in ("absent", "correct", "stale"):
                    for c in [None] + [k for k in DOCUMENTED_CACHED if k in ORIG_ENC]:
                        for act in ("set", "mdec", "menc", "setnone"):
                            i = n % 2; ver = VERSIONS[(n // 2) % 3]; n += 1
                            body = ORIG_ENC[c](P1) if c else P1
                            cl = None if cls == "absent" else (len(body) if cls == "correct" else len(body) + 7)
                            ops = [{"o": "raw", "i": i, "m": "val", "v_hex": hx(body)}, {"o": "ce", "i": i, "c": c}]
                            ops += self._msg_state(i, tr, ver, te, cl)
                            if act == "set": ops.append({"o": "set", "i": i, "m": "val", "v_hex": hx(P2)})
                            elif act == "mdec": ops.append({"o": "mdec", "i": i, "s": 1})
                            elif act == "menc": ops.append({"o": "menc", "i": i, "c": "gzip" if c != "gzip" else "br"})
                            else: ops.append({"o": "set", "i": i, "m": "none"})
                            ops.append({"o": "get", "i": i, "s": 1})
                            yield {"ops": ops}

    def _own_scope(self, full):
        """tie of the transcribed decoder functions: every custom_decode key (+ a non-key) x bodies of every shape"""
        bodies = []
        for p, st in STREAMS.items():
            if not full and p not in (b"", P1): continue
            for vs in st.values(): bodies += vs
        bodies += [b"", b"x", P1, b"\x00", b"\x78\x9c", b"\x1f\x8b"]
        seen = set()
        for n in sorted(ORIG_DEC) + ["foo", "GZip"]:
            for b in bodies:
                if (n, b) in seen: continue
                seen.add((n, b))
                if not full and len(seen) % 3: continue          # quick tier: every third combination
                yield {"own": n, "data_hex": hx(b)}

    def generate(self, rng, tier):
        yield from self._own_scope(tier == "thorough")
        yield from self._framing_scope()
        yield from self._small_scope(tier == "thorough")
        while True:
            if rng.chance(0.03):
                yield {"own": rng.pick(sorted(ORIG_DEC)), "data_hex": hx(rng.bytes_(rng.randint(0, 10)) if rng.chance(0.5) else
                       rng.pick(rng.pick(list(STREAMS[P1].values()))))}
                continue
            h = self._history(rng)
            if rng.chance(0.25):        # start from messages with trailers / HTTP-2-3 / TE / absent-correct-stale Content-Length
                pre = []
                for i in (0, 1):
                    if rng.chance(0.7):
                        pre += self._msg_state(i, rng.pick(TRAILERS), rng.pick(VERSIONS), rng.chance(0.25),
                                               rng.pick([None, None, 0, 12, rng.randint(0, 60)]))
                h = {"ops": (pre + h["ops"])[:36]}
            yield h

    def exhaustive(self, tier):
        yield from self._own_scope(True)
        yield from self._framing_scope()
        yield from self._small_scope(True)

    def neighbours(self, case, rng):
        if "own" in case:
            for n in sorted(ORIG_DEC): yield dict(case, own=n)
            return
        ops = case["ops"]
        for k in range(len(ops)):
            yield {"ops": ops[:k] + ops[k + 1:]}
        for i in (0, 1):                     # the same history on messages framed differently
            for tr in TRAILERS:
                for cl in (None, 12):
                    yield {"ops": self._msg_state(i, tr, "HTTP/2.0" if tr == "some" else "HTTP/1.1", False, cl) + ops}
        for k, op in enumerate(ops):
            if "c" in op and op["c"] is not None:
                for c in ("gzip", "deflate", "br", "zstd", "identity", "foo"):
                    if c != op["c"]:
                        yield {"ops": ops[:k] + [dict(op, c=c)] + ops[k + 1:]}
            if op["o"] in ("dec", "enc"):
                for c in ("gzip", "br"):
                    yield {"ops": ops[:k] + [{"o": "dec", "data_hex": "-", "c": c, "e": "strict"}] + ops[k:]}
                    yield {"ops": ops[:k + 1] + [dict(op, o="enc" if op["o"] == "dec" else "dec")] + ops[k + 1:]}

    # ---------------- implementation runner ----------------
    def impl(self, case):
        if "own" in case: return _own(case)
        _install()
        E._cache = E.CachedDecode(None, None, None, None)
        ms = _new_msgs()
        last = b""
        recs = []
        rb = [_readback(m) for m in ms]
        for op in case["ops"]:
            v = _value(op, last, ms)
            before = [_mstate(m) for m in ms]
            cache_before = _cache_r()
            need = _need(ms, op, v)
            fresh = _fresh(need)
            # the same single op replayed from an EMPTY cache on copies of the messages (history independence)
            saved = E._cache
            E._cache = E.CachedDecode(None, None, None, None)
            ms2 = [m.copy() for m in ms]
            iso_res = _exec(ms2, op, v)
            iso_after = [_mstate(m) for m in ms2]
            E._cache = saved
            # the op itself, on the real state
            del CALLS[:]; REC[0] = True
            try:
                res = _exec(ms, op, v)
            finally:
                REC[0] = False
            calls = list(CALLS)
            for (k, n, e, d) in calls:   # every uncached call the real code made is the one the model predicts
                if need is None or (k, n, d) != (need[0], need[1], need[3]) or (e is not None and e != need[2]):
                    raise AssertionError(f"codec call {(k, n, e, d)} not predicted (need={need}) for op {op}")
            if len(calls) > 1:
                raise AssertionError(f"more than one codec call for op {op}: {calls}")
            rb_before = rb
            rb = [_readback(m) for m in ms]
            recs.append({"res": res, "need": _need_r(need), "fresh": fresh, "called": bool(calls), "cache_before": cache_before,
                         "cache": _cache_r(), "before": before, "after": [_mstate(m) for m in ms], "rb_before": rb_before, "rb": rb,
                         "iso_res": iso_res, "iso_after": iso_after, "v": None if v is None else hx(v)})
            if op["o"] in ("dec", "get") and res.startswith("ok:"):
                last = _b(res)
        obs = {"ops": recs}
        self._memo = (json.dumps(case, sort_keys=True), obs)
        return obs

    # ---------------- property oracle (needs no model) ----------------
    def oracle(self, case, obs):
        """Clause tags (the part in [...] is what known() matches on):
        [exc] unexpected exception / result type anywhere (op, isolated replay, read-back)   [assign] assignment did not complete
        [readback] set then get   [unknown] unknown coding not removed   [raw-ref] strict reference decoder on the raw body
        [content-length]   [decode] Message.decode on a readable message   [decode-encode] decode();encode() pair
        [hist] exact history dependence (decoded values, states)   [hist-enc] / [hist-raw] semantic history dependence of an
        encode result / of the raw body stored by an assignment.  No clause is skipped because another one failed."""
        if "own" in case: return []      # tie-only case kind (transcribed decoder functions); the property speaks through the histories
        fails = []
        ops, recs = case["ops"], obs["ops"]
        te_ops = [False, False]       # is a Transfer-Encoding header present — from the case's own `te` ops, not from the run
        for k, (op, r) in enumerate(zip(ops, recs)):
            o = op["o"]
            if o == "te": te_ops[op["i"]] = bool(op["on"])
            bad = [t for t in [r["res"], r["iso_res"]] + list(r["rb"]) if t.startswith("exc:") or t.startswith("weird")]
            if bad or r["cache"].startswith("weird"):
                fails.append(f"op {k} [exc] {o}: {bad or r['cache']} (only bytes/None results and ValueError / TypeError are possible outcomes)")
            # ---- "assigning a message's decoded content and reading it back yields the same bytes, the raw body decodes
            #      to that content with independent decoders, and, absent Transfer-Encoding, Content-Length equals the raw
            #      body length" — for supported codings, incl. unknown / mixed-case names (quantifier text).
            #      No claim is made for assigning None, nor under Python bytes-/text-codecs used as a coding.
            if o in ("set", "menc"):
                i = op["i"]
                if o == "set":
                    v = None if r["v"] is None else unhx(r["v"]); ce0 = _ce_of(r["before"][i])
                else:
                    v = _raw_of(r["before"][i]); ce0 = op["c"]
                kind = kind_of(ce0 or "identity")
                if v is not None and kind in ("identity", "cached", "unknown"):
                    raw, ce1 = _raw_of(r["after"][i]), _ce_of(r["after"][i])
                    want = "verr" if (o == "menc" and kind == "unknown") else "done"
                    if r["res"] != want:
                        fails.append(f"op {k} [assign] {o} under Content-Encoding {ce0!r} ended {r['res']}, expected {want}")
                    if r["rb"][i] != "ok:" + hx(v):
                        fails.append(f"op {k} [readback] content assigned {hx(v)} under {ce0!r}, read back {r['rb'][i]}")
                    if kind == "unknown":
                        if ce1 is not None or raw != v:
                            fails.append(f"op {k} [unknown] unknown coding {ce0!r}: header {ce1!r} raw {hx(raw)} after assigning {hx(v)}")
                    elif kind == "identity" or (ce0 or "").lower() in STATEMENT_CODINGS:
                        if raw is None or ref_decode(ce0 or "identity", raw) != v:
                            fails.append(f"op {k} [raw-ref] msg={i} raw={'none' if raw is None else hx(raw)} coding={_hs((ce0 or 'identity').lower())} "
                                         f"content={hx(v)}: the raw body does not decode to the assigned content with the reference decoder")
                    # "absent Transfer-Encoding, Content-Length equals the raw body length" — whatever else the message
                    # carries (trailers, HTTP version, a stale Content-Length); the assignment completed (done / verr above)
                    cl = r["after"][i].split(",")[3]
                    if not te_ops[i] and (raw is None or cl != str(len(raw))):
                        fails.append(f"op {k} [content-length] Content-Length {cl} but raw body has {len(raw or b'')} bytes, no Transfer-Encoding "
                                     f"(message state {r['after'][i]})")
            # ---- "Decoding a message … preserves its content": on a message whose content is readable (strict) under an
            #      identity / compressed coding, Message.decode() completes and the content reads the same afterwards
            if o == "mdec":
                i = op["i"]
                c0 = r["rb_before"][i]
                k0 = kind_of(_ce_of(r["before"][i]) or "identity")
                if c0.startswith("ok:") and k0 in ("identity", "cached"):
                    if r["res"] != "done":
                        fails.append(f"op {k} [decode] Message.decode() ended {r['res']} on a message whose content reads {c0}")
                    elif r["rb"][i] != c0:
                        fails.append(f"op {k} [decode] content {c0} before Message.decode(), {r['rb'][i]} after")
                    # decoding a non-empty body re-assigns the content: same Content-Length sentence
                    raw0, raw1, cl = _raw_of(r["before"][i]), _raw_of(r["after"][i]), r["after"][i].split(",")[3]
                    if r["res"] == "done" and raw0 and not te_ops[i] and (raw1 is None or cl != str(len(raw1))):
                        fails.append(f"op {k} [content-length] Content-Length {cl} but raw body has {len(raw1 or b'')} bytes after Message.decode(), "
                                     f"no Transfer-Encoding (message state {r['after'][i]})")
            # ---- "Decoding a message and re-encoding it preserves its content"
            if o == "menc" and k > 0 and ops[k - 1]["o"] == "mdec" and ops[k - 1]["i"] == op["i"] and recs[k - 1]["res"] == "done":
                i = op["i"]
                c0 = recs[k - 1]["rb_before"][i]
                k0 = kind_of(_ce_of(recs[k - 1]["before"][i]) or "identity")
                k1 = kind_of(op["c"] or "identity")
                if c0.startswith("ok:") and k0 in ("identity", "cached") and k1 in ("identity", "cached", "unknown") and r["rb"][i] != c0:
                    fails.append(f"op {k} [decode-encode] content {c0} before decode(), {r['rb'][i]} after decode();encode({op['c']!r})")
            # ---- "no result ever depends on which bodies were encoded or decoded earlier in the process"
            if r["res"] != r["iso_res"]:
                a, b = _b(r["res"]), _b(r["iso_res"])
                kind = kind_of(op["c"]) if o == "enc" else None
                if o == "enc" and a is not None and b is not None and kind == "cached":
                    # encoded bytes may differ; they must mean the same: the reference decoder maps both to the input
                    if ref_decode(op["c"], a) != unhx(op["data_hex"]) or ref_decode(op["c"], b) != unhx(op["data_hex"]):
                        fails.append(f"op {k} [hist-enc] raw={hx(a)} coding={_hs(op['c'].lower())} content={op['data_hex']}: encode gave these bytes in "
                                     f"this history, {hx(b)} from an empty cache, and the reference decoder does not map both back to the input")
                else:
                    fails.append(f"op {k} [hist] {o} result {r['res']} in this history, {r['iso_res']} from an empty cache")
            if r["after"] != r["iso_after"]:
                for i in (0, 1):
                    sa, sb = r["after"][i].split(","), r["iso_after"][i].split(",")
                    if sa == sb: continue                       # this message: no difference, nothing to report
                    ce = _ce_of(r["after"][i])
                    ra, rbb = _raw_of(r["after"][i]), _raw_of(r["iso_after"][i])
                    if o in ("set", "menc") and i == op["i"] and sa[1:3] == sb[1:3] and ra is not None and rbb is not None \
                            and kind_of(ce or "identity") == "cached":
                        da, db = ref_decode(ce, ra), ref_decode(ce, rbb)
                        if da is None or da != db:
                            fails.append(f"op {k} [hist-raw] msg={i} raw={hx(ra)} coding={_hs(ce.lower())}: the raw body is {hx(rbb)} from an empty "
                                         f"cache; the reference decoder does not give them the same meaning")
                    else:
                        fails.append(f"op {k} [hist] message {i} is {r['after'][i]} in this history, {r['iso_after'][i]} from an empty cache")
        return fails

    # ---------------- finding classifier ----------------
    def _lenient(self, case, obs, k):
        """F-C31a exactly, as structured facts about op k (an assignment or an encoding.encode call).  Returns the dict
        {msg, raw, coding, content} of the excused bytes, or None.
          (i)   the bytes stored/returned are rejected by the strict reference decoder (or decoded to something else),
          (ii)  mitmproxy's own *uncached* decoder maps them to exactly the assigned content,
          (iii) op k made no codec call (a cache hit) and the cache entry before op k is exactly
                (bytes, lower-cased coding, errors, content),
          (iv)  that entry was made by a real DECODE call of this history: the latest earlier op after which the cache
                became this entry called the uncached decoder on exactly these bytes with this coding and errors and got
                the content; every op in between left the entry alone."""
        ops, recs = case["ops"], obs["ops"]
        if not (0 <= k < len(recs)): return None
        op, r = ops[k], recs[k]
        o = op["o"]
        if o == "enc":
            msg, x, c, content, errors = None, _b(r["res"]), op["c"].lower(), unhx(op["data_hex"]), op["e"]
        elif o in ("set", "menc"):
            msg = op["i"]
            x, ce1 = _raw_of(r["after"][msg]), _ce_of(r["after"][msg])
            if o == "set":
                if r["v"] is None: return None
                content, ce0 = unhx(r["v"]), _ce_of(r["before"][msg])
            else:
                content, ce0 = _raw_of(r["before"][msg]), op["c"]
            if ce0 is None or ce1 is None or ce0 != ce1: return None          # the header names the coding, before and after
            c, errors = ce1.lower(), "strict"
        else:
            return None
        if x is None or content is None or c not in CACHED_ENC or c not in CACHED_DEC: return None
        if ref_decode(c, x) == content: return None                                    # (i)
        try:
            if ORIG_DEC[c](x) != content: return None                                  # (ii)
        except Exception:
            return None
        entry = ":".join([hx(x), _hs(c), _hs(errors), hx(content)])                    # (iii)
        if r["cache_before"] != entry or r["called"]: return None
        j = k - 1                                                                      # (iv)
        while j >= 0 and recs[j]["cache_before"] == entry and recs[j]["cache"] == entry:
            j -= 1
        if j < 0 or recs[j]["cache"] != entry: return None
        rj = recs[j]
        if not rj["called"] or rj["need"] != ":".join(["D", _hs(c), _hs(errors), hx(x)]) or rj["fresh"] != "ok:" + hx(content):
            return None
        return {"msg": msg, "raw": hx(x), "coding": _hs(c), "content": hx(content)}

    # clause tag -> op kinds it can be raised for; only these three clauses are ever excused
    _EXCUSED = {"raw-ref": ("set", "menc"), "hist-raw": ("set", "menc"), "hist-enc": ("enc",)}

    def known(self, case, obs, failure):
        """F-C31a iff the failure is one of the three recorded clauses ([raw-ref] strict reference decoder on the stored raw
        body; [hist-raw] / [hist-enc] the same bytes seen as semantic history dependence of the assignment / of
        encoding.encode), raised for the matching op kind, about exactly the bytes/coding/content (and message) that
        `_lenient` establishes for that op.  Everything else — [exc] [assign] [readback] [unknown] [content-length] [decode]
        [decode-encode] [hist] — is never excused, whatever the input."""
        if "own" in case: return None
        m = re.match(r"op (\d+) \[([a-z-]+)\] (.*)", failure, re.S)
        if not m or m.group(2) not in self._EXCUSED: return None
        k, tag = int(m.group(1)), m.group(2)
        if not (0 <= k < len(case["ops"])) or case["ops"][k]["o"] not in self._EXCUSED[tag]: return None
        facts = self._lenient(case, obs, k)
        if facts is None: return None
        said = dict(re.findall(r"(msg|raw|coding|content)=([0-9a-z-]+)", m.group(3).split(":")[0]))
        for f, val in said.items():
            if str(facts[f]) != val: return None
        if "raw" not in said or "coding" not in said: return None
        return "F-C31a"

    def known_selftest(self):
        """classifier audit (notes/known_audit.txt): positive witnesses, same-class/other-clause and
        neighbouring-input/same-clause near misses; any disagreement ends the run as INFRA"""
        import copy
        S = lambda i, v: {"o": "set", "i": i, "m": "val", "v_hex": hx(v)}
        peer = lambda c, x, v, e=(): {"ops": [{"o": "raw", "i": 0, "m": "val", "v_hex": hx(x)}, {"o": "ce", "i": 0, "c": c},
                                              {"o": "get", "i": 0, "s": 1}] + list(e) + [S(0, v)]}
        gz = ORIG_ENC["gzip"](P1)
        triples = []

        def fab(tag, msg, raw, c, content):      # the text the oracle would produce for that clause
            if tag == "hist-enc": return f"[hist-enc] raw={hx(raw)} coding={_hs(c)} content={hx(content)}: x"
            head = f"[{tag}] msg={msg} raw={hx(raw)} coding={_hs(c)}"
            return head + (f" content={hx(content)}: x" if tag == "raw-ref" else ": x")
        # ---- positive witnesses: every oracle failure on them is one of the recorded clauses and is excused
        W = [peer("br", b"", b""), peer("zstd", b"", b""), peer("GZip", gz[:-4], P1), peer("gzip", zlib.compress(P1, 1), P1),
             {"ops": [{"o": "dec", "data_hex": "-", "c": "deflate", "e": "replace"}, {"o": "enc", "data_hex": "-", "c": "Deflate", "e": "replace"}]},
             {"ops": peer("br", b"", b"")["ops"][:3] + [{"o": "menc", "i": 0, "c": "br"}]}]
        for w in W:
            o = self.impl(w); fs = self.oracle(w, o)
            assert fs, ("witness no longer fails", w)
            for f in fs: triples.append((w, o, f, "F-C31a"))
        w = W[0]; o = self.impl(w); k = 3
        # ---- (a) same input class, a different clause of the oracle: never excused
        for tag in ("exc", "assign", "readback", "unknown", "content-length", "decode", "decode-encode", "hist"):
            triples.append((w, o, f"op {k} [{tag}] msg=0 raw=- coding={_hs('br')} content=-: x", None))
        triples.append((w, o, f"op 2 {fab('raw-ref', 0, b'', 'br', b'')}", None))            # a get op is not an assignment
        triples.append((w, o, f"op {k} {fab('hist-enc', 0, b'', 'br', b'')}", None))          # clause of encoding.encode on a set op
        triples.append((w, o, f"op {k} {fab('raw-ref', 1, b'', 'br', b'')}", None))           # about the other message
        triples.append((w, o, f"op {k} {fab('raw-ref', 0, b';', 'br', b'')}", None))          # about other bytes
        triples.append((w, o, f"op {k} {fab('raw-ref', 0, b'', 'zstd', b'')}", None))         # about another coding
        triples.append((w, o, f"op {k} [raw-ref] something went wrong", None))                # unstructured text
        triples.append((w, o, f"op 9 {fab('raw-ref', 0, b'', 'br', b'')}", None))             # no such op
        # ---- (b) neighbouring inputs just outside the class, same clause (text as the oracle would word it)
        def near(case, kk, tag, msg, raw, c, content):
            triples.append((case, self.impl(case), f"op {kk} {fab(tag, msg, raw, c, content)}", None))
        br0 = brotli.compress(b"", quality=0)
        near(peer("br", br0, b""), 3, "raw-ref", 0, br0, "br", b"")                           # strict decoder accepts the cached bytes
        near(peer("br", b"", b"", [{"o": "enc", "data_hex": "78", "c": "zstd", "e": "strict"}]), 4, "raw-ref", 0, br0, "br", b"")   # entry evicted: miss
        near(peer("br", b"", b"x"), 3, "raw-ref", 0, brotli.compress(b"x", quality=0), "br", b"x")      # other content: miss
        near({"ops": [{"o": "dec", "data_hex": "-", "c": "br", "e": "replace"}, {"o": "enc", "data_hex": "-", "c": "br", "e": "strict"}]},
             1, "hist-enc", None, br0, "br", b"")                                              # other errors: miss
        near({"ops": [{"o": "dec", "data_hex": "-", "c": "br", "e": "strict"}, {"o": "enc", "data_hex": "-", "c": "zstd", "e": "strict"}]},
             1, "hist-enc", None, zstd.compress(b"", level=1), "zstd", b"")                    # other coding: miss
        # entry made by an ENCODE, then hit by the other message (the swapped-entry shape of seed c31-1, on the clean tree)
        g0 = ORIG_ENC["gzip"](b"")
        sw = {"ops": [{"o": "ce", "i": 0, "c": "gzip"}, {"o": "ce", "i": 1, "c": "gzip"}, S(0, b""), S(1, b"")]}
        near(sw, 3, "raw-ref", 1, g0, "gzip", b"")
        near({"ops": sw["ops"][:3] + [{"o": "set", "i": 1, "m": "rawof", "j": 0}]}, 3, "raw-ref", 1, ORIG_ENC["gzip"](g0), "gzip", g0)
        # doctored observations of the positive witness: each single fact of (iii)/(iv) falsified
        good = f"op {k} {fab('raw-ref', 0, b'', 'br', b'')}"
        for edit in ("called-k", "entry-errors", "entry-coding", "maker-not-called", "maker-encode", "maker-other-bytes", "maker-result", "touched-between"):
            d = copy.deepcopy(o); R = d["ops"]
            if edit == "called-k": R[k]["called"] = True
            if edit == "entry-errors": R[k]["cache_before"] = ":".join(["-", _hs("br"), _hs("replace"), "-"])
            if edit == "entry-coding": R[k]["cache_before"] = ":".join(["-", _hs("zstd"), _hs("strict"), "-"])
            if edit == "maker-not-called": R[2]["called"] = False
            if edit == "maker-encode": R[2]["need"] = "E" + R[2]["need"][1:]
            if edit == "maker-other-bytes": R[2]["need"] = ":".join(["D", _hs("br"), _hs("strict"), "3b"])
            if edit == "maker-result": R[2]["fresh"] = "ok:78"
            if edit == "touched-between": R[2]["cache"] = "none"
            triples.append((w, d, good, None))
        triples.append((w, o, good, "F-C31a"))
        for case, ob, f, want in triples:
            got = self.known(case, ob, f)
            if got != want:
                raise AssertionError(f"known() self-test: expected {want}, got {got} for failure {f!r} on {json.dumps(case)[:300]}")
        return len(triples)

    def setup(self, tier):
        self.known_selftest()

    # ---------------- model tie ----------------
    def _guard(self, case, obs, k):
        """tie of the Lean guards: before an assignment / encoding.encode with errors 'strict' under a non-identity coding
        the driver evaluates, in its pre-op cache, whether the encode is a hit (on which bytes), `lenientHit` (given the
        strict reference decoder's verdict on the entry's bytes) and `nonCanonicalHit` (given the uncached encoder's result).
        Expected: hit = the real code made no codec call; L = exactly the F-C31a classifier `_lenient`; N = hit on bytes
        other than the uncached encoder's."""
        op, r = case["ops"][k], obs["ops"][k]
        if op["o"] not in ("set", "menc", "enc") or not r["need"].startswith("E:"): return None
        _, nh, eh, dh = r["need"].split(":")
        if unhx(eh) != b"strict": return None
        cb = r["cache_before"]
        refx = "err"
        if cb != "none" and not cb.startswith("weird"):
            d = ref_decode(unhx(nh).decode("ascii"), unhx(cb.split(":")[0]))
            if d is not None: refx = "ok:" + hx(d)
        hit = not r["called"]
        x = cb.split(":")[0] if hit else "miss"
        exp = "H:%s L:%d N:%d" % (x, 1 if self._lenient(case, obs, k) is not None else 0, 1 if hit and r["fresh"] != "ok:" + x else 0)
        return f"guard {dh} {nh} {eh} {refx} {r['fresh']}", exp

    def model_lines(self, case):
        if "own" in case:
            o = _own(case)
            return [f"own {_hs(case['own'])} {case['data_hex']} {o['l1']} {o['l2']}"]
        key = json.dumps(case, sort_keys=True)
        obs = self._memo[1] if self._memo[0] == key else self.impl(case)
        lines = ["reset"]
        for k, (op, r) in enumerate(zip(case["ops"], obs["ops"])):
            o, f = op["o"], r["fresh"]
            g = self._guard(case, obs, k)
            if g: lines.append(g[0])
            # value modes `last` / `rawof j` are resolved by the MODEL (driver session), not copied from the real run;
            # a wrong prediction shows in the compared `need` (carries the data) and message state
            mode = op.get("m", "val")
            val = "none" if mode == "none" else "last" if mode == "last" else f"rawof{op['j']}" if mode == "rawof" else op.get("v_hex", "-")
            if o in ("dec", "enc"):
                lines.append(f"{o} {op['data_hex']} {_hs(op['c'])} {_hs(op['e'])} {f}")
            elif o == "set": lines.append(f"set {op['i']} {val} {f}")
            elif o == "get": lines.append(f"get {op['i']} {op['s']} {f}")
            elif o == "mdec": lines.append(f"mdec {op['i']} {op['s']} {f}")
            elif o == "menc": lines.append(f"menc {op['i']} {_hs(op['c'])} {f}")
            elif o == "raw": lines.append(f"raw {op['i']} {val}")
            elif o == "ce": lines.append(f"ce {op['i']} {_hs(op['c'])}")
            elif o == "te": lines.append(f"te {op['i']} {op['on']}")
            elif o == "cl": lines.append(f"cl {op['i']} {'none' if op['n'] is None else op['n']}")
            elif o == "tr": lines.append(f"tr {op['i']} {TRAILERS.index(op['t'])}")
            elif o == "ver": lines.append(f"ver {op['i']} {VERSIONS.index(op['v'])}")
            # after every op: the model's cache-free reading `contentOf` of BOTH messages (from the model's own message
            # state + the uncached decoder result) — compared with the real code's strict read-back in its real cache state
            for i in (0, 1):
                raw, ce = _raw_of(r["after"][i]), _ce_of(r["after"][i])
                nd = None
                if raw is not None and ce and ce.lower() not in IDENT_DEC: nd = ("D", ce.lower(), "strict", raw)
                lines.append(f"content {i} 1 {_fresh(nd)}")
        return lines

    def model_obs(self, case, replies):
        return replies

    def impl_view(self, case, obs):
        if "own" in case: return [obs["own"]]
        out = ["ok"]
        for k, r in enumerate(obs["ops"]):
            g = self._guard(case, obs, k)
            if g: out.append(g[1])
            out += [" ".join([r["res"], r["need"], r["cache"], r["after"][0], r["after"][1]]), r["rb"][0], r["rb"][1]]
        return out

    # ---------------- evidence ----------------
    def classify(self, case, obs):
        if "own" in case: return json.dumps(case, sort_keys=True) if case["data_hex"] != "-" else None
        if any(r["need"] != "-" for r in obs["ops"]):
            return json.dumps(case, sort_keys=True)
        return None

    def branches(self, case, obs):
        if "own" in case:
            return [f"own:{obs['fn']}:{obs['own'].split(':')[0]}", f"own:lib1={obs['l1'][:3]}:lib2={obs['l2'][:3]}"]
        out = set()
        for k, (op, r) in enumerate(zip(case["ops"], obs["ops"])):
            o = op["o"]
            out.add(f"op:{o}:{r['res'].split(':')[0]}")
            if r["need"] != "-":
                nm = unhx(r["need"].split(":")[1]).decode()
                out.add(f"kind:{kind_of(nm)}")
                hit = not r["called"]           # a call was named but the real code did not make it: served from the cache
                out.add(f"{r['need'][0]}:{'hit' if hit else 'miss'}")
                if hit and o in ("enc", "set", "menc") and self._lenient(case, obs, k) is not None: out.add("finding:F-C31a")
            if o in ("set", "menc") and r["before"][op["i"]].split(",")[2] == "1": out.add("assign:with-TE")
            if o in ("set", "menc", "mdec"):
                f = r["before"][op["i"]].split(",")
                out.add(f"assign:trailers={TRAILERS[int(f[4])]}"); out.add(f"assign:{VERSIONS[int(f[5])]}")
                out.add("assign:msg=" + ("response" if op["i"] == 0 else "request"))
                raw0 = _raw_of(r["before"][op["i"]])
                out.add("assign:cl-before=" + ("absent" if f[3] == "none" else "correct" if raw0 is not None and f[3] == str(len(raw0)) else "stale"))
            if o == "menc" and k > 0 and case["ops"][k - 1]["o"] == "mdec": out.add("pair:decode-encode")
            if "c" in op and op["c"] and op["c"] != op["c"].lower(): out.add("coding:mixed-case")
        return sorted(out)
