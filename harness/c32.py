"""C32 — message text round-trips for every content type (mitmproxy/http.py Message.set_text/get_text,
mitmproxy/net/http/headers.py infer_content_encoding / parse_content_type / assemble_content_type)."""
import codecs, itertools, sys
from common.check import PropertyCheck, hx, unhx
from mitmproxy import http
from mitmproxy.net import encoding
from mitmproxy.net.http import headers as nh

BOMS = [b"\x00\x00\xfe\xff", b"\xff\xfe\x00\x00", b"\xfe\xff", b"\xff\xfe", b"\xef\xbb\xbf"]

# charsets whose Python codec satisfies decode(encode(s)) == s whenever encode succeeds (checked in setup());
# names that are not text encodings at all (identity, gzip, …) and unknown names exercise the UTF-8 fallback
CHARSETS = ["latin-1", "iso-8859-1", "utf-8", "utf8", "UTF-8", "utf-16", "utf-32", "UTF-16", "utf-16le", "utf-16be", "utf-32le",
            "utf-32be", "gb2312", "GBK", "gbk", "gb18030", "ascii", "us-ascii", "cp1252", "shift_jis", "euc-kr", "big5",
            "iso-8859-15", "koi8-r", "utf-8-sig", "x-unknown", "", '"utf-8"', "identity", "none", "gzip", "base64", "rot13",
            "hex", "br", "zstd", "deflate", "bz2", "undefined", "cp037", "utf_8", "latin1", "l1", "u8", "GB2312", "Gb2312", "cp932", "big5hkscs",
            "cp950", "cp949", "windows-1252", "hz", "gb\u212a", "GB\u212a", "utf-8\u0130", "lat\u0130n-1", "\u00dcTF-8"]
BODY_NAMES = ["latin-1", "utf-8", "utf8", "UTF-8", "utf-16", "gb2312", "ascii", "bogus", "cp1252", "utf-16le", "shift_jis", "é", "\xff"]
TYPES = ["text/plain", "text/html", "application/json", "application/xml", "text/xml", "text/css", "text/javascript",
         "application/ecmascript", "image/svg+xml", "application/xhtml+xml", "TEXT/HTML", "Text/Css", "garbage", "", "text",
         "application/ld+json", "text/css+html", "a/b/c", "/", "text/html/xml", "application/octet-stream", "text/x-json-html",
         "T\u00c9XT/Plain", "text/\u212aind", "\u0130mage/\u0130con", "\u01c5/\u1e9e"]
PARAM_FORMS = ["; charset=%s", ";charset=%s", "; Charset=%s", "; charset = %s ", "; a=b; charset=%s", "; charset=%s; charset=latin-1",
               "; charset", "; charset=%s; boundary=x=y", ";;charset=%s;", "; \tcharset=%s", "; charset=\xa0%s　", " ; charset=%s",
               "; =%s; charset=%s"]
PIECES = ["a", "hello", " ", "\n", "é", "ÿ", "þ", "ÿþ", "þÿ", "ï»¿", "﻿", "\x00", "€", "中文", "\U0001f600", "ß", "\xa0", "ÿþ\x00\x00",
          "\x00\x00þÿ", "<", ">", "'", '"', "?", ";", "=", "/", "@", "charset", "x" * 40]


# families of related codecs that servers and browsers confuse; the characters on which two members disagree (one encodes it and the
# other does not, they encode it differently, or the other decodes those bytes to something else) are drawn on purpose whenever the
# declared charset belongs to the family
FAMILIES = [["gb2312", "gbk", "gb18030"], ["shift_jis", "cp932"], ["big5", "big5hkscs", "cp950"], ["iso-8859-1", "cp1252"], ["euc-kr", "cp949"]]
FAMILY_NAMES = {"gb2312": 0, "gbk": 0, "gb18030": 0, "hz": 0, "shift_jis": 1, "cp932": 1, "sjis": 1, "ms932": 1, "big5": 2, "big5hkscs": 2,
                "cp950": 2, "latin-1": 3, "latin1": 3, "l1": 3, "iso-8859-1": 3, "cp1252": 3, "windows-1252": 3, "iso-8859-15": 3,
                "euc-kr": 4, "cp949": 4, "uhc": 4}
NAMED_CONFUSABLES = [["\u2015", "\u30fb", "\u00b7", "\u2014", "\u20ac"], ["\uff5e", "\u301c", "\u2225", "\u2016", "\uff0d", "\u2212", "\\", "\u00a5", "~", "\u203e"],
                      ["\u20ac", "\u5159", "\u7881"], [chr(c) for c in (0x80, 0x85, 0x91, 0x92, 0x9f)] + ["\u20ac", "\u2019", "\u0152"], ["\u20ac", "\uac02", "\ub620"]]
_CONF = None


def confusables():
    """per family: the named characters plus up to 12 computed ones (lowest code points first) per ordered codec pair"""
    global _CONF
    if _CONF is None:
        out = []
        for fam, named in zip(FAMILIES, NAMED_CONFUSABLES):
            found = list(named)
            for a in fam:
                for b in fam:
                    if a == b: continue
                    n = 0
                    for cp in range(0x80, 0x10000):
                        if 0xD800 <= cp <= 0xDFFF: continue
                        c = chr(cp)
                        try:
                            ea = c.encode(a)
                        except UnicodeError:
                            continue
                        try:
                            bad = ea.decode(b) != c
                        except UnicodeError:
                            bad = True
                        if bad:
                            if c not in found: found.append(c)
                            n += 1
                            if n >= 12: break
            out.append(found)
        _CONF = out
    return _CONF


def family_of_ct(ct):
    p = nh.parse_content_type(ct or "")
    cs = ((p[2].get("charset") if p else None) or "").strip('"').lower()
    return FAMILY_NAMES.get(cs)


def decls(name):
    return ['<meta charset="%s">' % name, "<meta charset=%s>" % name, "<META CHARSET='%s'>" % name, "<meta charset=%s" % name,
            '<meta http-equiv="Content-Type" content="text/html; charset=%s">' % name, '<metacharset="%s">' % name,
            '<meta a="charset=x" charset="%s">' % name, '<meta charset="">\n<meta x charset=%s>' % name, '<meta > charset=%s' % name,
            '<?xml version="1.0" encoding="%s"?>' % name, "<?xml encoding='%s'?>" % name, "<?XML version='1.0' ENCODING=\"%s\" ?>" % name,
            "<?xml encoding=%s?>" % name, '<?xml? encoding="%s"?>' % name, '<?xmlencoding="%s"' % name,
            '@charset "%s";' % name, '@CHARSET "%s";' % name, '@charset "%s"' % name, ' @charset "%s";' % name, "@charset '%s';" % name,
            '@charset "";', '@charset "%s" ;' % name]


def cps(s):
    """str -> hex of 3-byte big-endian code points (lone surrogates survive)"""
    b = b"".join(ord(c).to_bytes(3, "big") for c in s)
    return b.hex() if b else "-"


def uncps(h):
    b = unhx(h)
    return "".join(chr(int.from_bytes(b[i:i + 3], "big")) for i in range(0, len(b), 3))


def starts_bom(b):
    return any(b.startswith(x) for x in BOMS)


def emits_bom(name):
    try:
        return codecs.encode("", name) != b""
    except Exception:
        return False


class Check(PropertyCheck):
    prop = "C32"
    design_ref = "§5 C32"
    level_text = ("Lean theorems about the model of Message.set_text / get_text and infer_content_encoding (BOM class > charset "
                  "parameter > json > <meta charset> > <?xml encoding?> > javascript > @charset > latin-1; gb2312/gbk -> gb18030; the three "
                  "in-body scanners and parse/assemble_content_type transcribed), for ALL content types, bodies and texts, with the codecs as "
                  "parameters: text_roundtrip_partial (strict read-back equals the text whenever the body-sensitive inference on the produced "
                  "message names the codec that produced it — i.e. no BOM-like prefix, no in-body declaration of another codec, no BOM-emitting "
                  "codec), text_roundtrip_nonstrict_partial (surrogate-escaped texts via get_text(strict=False)), charset_updated_on_fallback "
                  "(an unrepresentable text rewrites the header so that it parses to charset=utf-8 and the body is its UTF-8/surrogateescape "
                  "encoding), three counterexamples (F-C32a/b/c). Model tied to the real Message objects (Request and Response) differentially.")
    level_note = ("PARTIAL: the full statement is false for the code (F-C32a BOM-like prefix in the produced bytes, F-C32b in-body declaration "
                  "naming another codec, F-C32c BOM-emitting codec utf-16/utf-32); proved under the guard `inferEncoding ct' body' = "
                  "inferEncoding ct' []`. Codecs are parameters with the law dec n (enc n s) = s for the codec used (checked for the charset pool "
                  "in setup(); a text on which Python's own codec for the declared charset is lossy, e.g. the yen sign under shift_jis, is outside that "
                  "assumption and not demanded); str.lower() is modelled character by character from a generated table of chr(c).lower() (KELVIN SIGN -> k, U+0130 -> i + U+0307, …): exact for every string without GREEK CAPITAL SIGMA U+03A3, whose final-sigma rule depends on the context and is not transcribed (the generator never produces it). Reading back a surrogate-escaped "
                  "text is taken to mean get_text(strict=False) (the strict getter raises ValueError by design, test_http pins it); the oracle "
                  "then still demands that the strict getter never returns a different string.")
    technique = "Lean 4 proof (case analysis over the inference tree, induction for parse∘assemble) + differential correspondence on Message objects"
    rule = ("texts built from ASCII/Latin-1/BMP/astral pieces, BOM-like prefixes (U+FEFF, ÿþ, þÿ, ï»¿), in-body <meta charset>/<?xml encoding?>/"
            "@charset declarations over 13 codec names, and surrogate-escaped random bytes; content types = 22 type strings x 13 parameter "
            "spellings x 50 charset names (text, non-text and unknown codecs) or no header; under a charset that belongs to a family of related "
            "codecs (gb2312/gbk/gb18030, shift_jis/cp932, big5/big5hkscs/cp950, iso-8859-1/cp1252, euc-kr/cp949) the characters on which "
            "the family members disagree (named ones such as U+2015, U+30FB, U+FF5E/U+301C, 0x80-0x9f, plus computed ones) are drawn on purpose, "
            "each also once alone under every charset name of its family; plus `infer` cases: random bodies with "
            "declarations against infer_content_encoding directly. distinct = distinct (kind, content type, text/body); non-trivial = "
            "non-empty text/body.")
    budget = {"quick": 6000, "thorough": 200000}
    time_budget = {"quick": 30, "thorough": 420}
    fingerprints = ["mitmproxy.http:Message.set_text", "mitmproxy.http:Message.get_text", "mitmproxy.http:Message.set_content",
                    "mitmproxy.http:Message.get_content", "mitmproxy.net.http.headers:infer_content_encoding",
                    "mitmproxy.net.http.headers:parse_content_type", "mitmproxy.net.http.headers:assemble_content_type",
                    "mitmproxy.net.encoding:encode", "mitmproxy.net.encoding:decode"]
    trusted_base = ["Python codecs (parameters of the model): decode(encode(s)) = s for the codec used; strict utf-8 decoding agrees with "
                    "surrogateescape decoding where it succeeds", "CPython re for the three in-body regexes (transcribed by hand in Model/C32.lean)",
                    "str.lower() = the generated per-character table, for strings without U+03A3 (final-sigma rule not transcribed)"]
    parallel = False

    # ------------------------------------------------------------------ tables
    def translate(self):
        sp = [c for c in range(sys.maxunicode + 1) if chr(c).isspace()]
        src = ("-- generated by harness/c32.py from the running interpreter: code points with str.isspace()\n"
               "namespace MitmVerif.Gen.C32\n"
               "def pySpace : List Nat := [" + ", ".join(map(str, sp)) + "]\n"
               "/-- chr(c).lower() for every non-ASCII code point that it changes (str.lower() is this map applied character by\n"
               "    character, except for the final-sigma rule of U+03A3) -/\n"
               + self._lower_chunks() +
               "end MitmVerif.Gen.C32\n")
        return {"MitmVerif/Gen/C32.lean": src}

    @staticmethod
    def _lower_chunks():
        """the table in chunks of 150 entries (one big list literal exceeds the elaborator's recursion depth)"""
        ent = ["(%d, [%s])" % (c, ", ".join(str(ord(x)) for x in chr(c).lower()))
               for c in range(128, sys.maxunicode + 1) if chr(c).lower() != chr(c)]
        chunks = [ent[i:i + 150] for i in range(0, len(ent), 150)]
        out = "".join("def pyLower%d : List (Nat × List Nat) := [%s]\n" % (i, ", ".join(ch)) for i, ch in enumerate(chunks))
        return out + "def pyLower : List (Nat × List Nat) := " + " ++ ".join("pyLower%d" % i for i in range(len(chunks))) + "\n"

    def setup(self, tier):
        self.known_selftest()
        # the codec law assumed by the theorems, checked on the pool used as charset parameters
        samples = ["", "a", "é", "ÿþab", "﻿x", "中文", "€", "\U0001f600", "a\x00b", "~{", "+-", "ß"]
        for n in CHARSETS:
            for s in samples:
                try:
                    b = encoding.encode(s, n)
                except Exception:
                    continue
                if isinstance(b, bytes):
                    assert encoding.decode(b, n) == s, ("unlawful codec in pool", n, s)

    # ------------------------------------------------------------------ generator
    def _ct(self, rng):
        r = rng.random()
        if r < 0.06: return None
        t = rng.pick(TYPES)
        if r < 0.45: return t
        form = rng.pick(PARAM_FORMS)
        n = form.count("%s")
        return t + form % tuple(rng.pick(CHARSETS) for _ in range(n))

    def _text(self, rng):
        r = rng.random()
        if r < 0.12:
            return rng.bytes_(rng.randint(1, 8)).decode("utf8", "surrogateescape")
        out = ""
        if r < 0.30: out += rng.pick(["﻿", "ÿþ", "þÿ", "ï»¿", "ÿþ\x00\x00", "\x00\x00þÿ", "\udcff\udcfe"])
        for _ in range(rng.randint(0, 4)):
            x = rng.random()
            if x < 0.35: out += rng.pick(decls(rng.pick(BODY_NAMES)))
            else: out += rng.pick(PIECES)
        if rng.chance(0.05): out += bytes([rng.randint(0x80, 0xff)]).decode("utf8", "surrogateescape")
        # keep the domain of the statement: Unicode scalar values or surrogate-escaped bytes
        return out.encode("utf8", "surrogateescape").decode("utf8", "surrogateescape")

    def _text_for(self, rng, ct):
        """a text for this content type: when the declared charset belongs to a family of related codecs, characters on which the
        family members disagree are mixed in"""
        t = self._text(rng)
        fam = family_of_ct(ct)
        if fam is not None and rng.chance(0.6):
            for _ in range(rng.randint(1, 3)):
                i = rng.randint(0, len(t))
                t = t[:i] + rng.pick(confusables()[fam]) + t[i:]
        return t

    def generate(self, rng, tier):
        # every confusable character under every charset of its family, alone and inside ASCII text
        for fam, chars in zip(FAMILIES, confusables()):
            names = sorted(n for n, i in FAMILY_NAMES.items() if FAMILIES[i] is fam)
            for n in names + [x.upper() for x in names[:2]]:
                for c in chars:
                    yield {"k": "rt", "msg": "resp", "ct": "text/plain; charset=" + n, "text": cps(c)}
                    yield {"k": "rt", "msg": "req", "ct": "text/html;charset=" + n, "text": cps("a" + c + "b")}
        fixed_ct = [None, "", "text/plain", "text/html", "text/css", "application/xml", "application/json", "text/javascript",
                    "text/plain; charset=utf-8", "text/plain; charset=utf-16", "text/plain; charset=ascii", "text/html; charset=latin-1",
                    "text/plain; charset=gb2312", "text/plain; charset=x-unknown", "text/plain; charset=identity"]
        fixed_tx = ["", "a", "é", "€", "﻿hello", "ÿþab", "þÿab", "ï»¿ab", "\U0001f600", "\udcff", "a\udc80", "\udcff\udcfeab"] + \
                   [d + "é" for d in decls("latin-1")] + [d + "é" for d in decls("utf-8")]
        for ct, tx in itertools.product(fixed_ct, fixed_tx):
            yield {"k": "rt", "msg": "resp", "ct": ct, "text": cps(tx)}
        for name in BODY_NAMES:
            for d in decls(name):
                for ct in ("text/html", "application/xml", "text/css", "text/plain"):
                    yield {"k": "infer", "ct": ct, "body_hex": hx(d.encode("utf8", "surrogateescape") + b"\xc3\xa9")}
        while True:
            if rng.chance(0.75):
                ct = self._ct(rng)
                yield {"k": "rt", "msg": rng.pick(["resp", "req"]), "ct": ct, "text": cps(self._text_for(rng, ct))}
            else:
                body = self._text(rng).encode("utf8", "surrogateescape")
                if rng.chance(0.3): body = rng.pick(BOMS)[:rng.randint(1, 4)] + body
                yield {"k": "infer", "ct": self._ct(rng) or "", "body_hex": hx(body)}

    # ------------------------------------------------------------------ implementation
    @staticmethod
    def _msg(kind, ct):
        hs = http.Headers()
        if ct is not None:
            hs.fields = ((b"content-type", ct.encode("utf8", "surrogateescape")),)
        if kind == "req":
            return http.Request("h", 80, b"POST", b"http", b"", b"/", b"HTTP/1.1", hs, b"", None, 0, 0)
        return http.Response(b"HTTP/1.1", 200, b"OK", hs, b"", None, 0, 0)

    def impl(self, case):
        if case["k"] == "infer":
            return {"enc": cps(nh.infer_content_encoding(case["ct"], unhx(case["body_hex"])))}
        text = uncps(case["text"])
        m = self._msg(case["msg"], case["ct"])
        obs = {}
        try:
            m.text = text
            obs["set"] = "ok"
        except Exception as e:
            obs["set"] = type(e).__name__
            return obs
        ct2 = m.headers.get("content-type")
        obs["ct2"] = None if ct2 is None else cps(ct2)
        obs["n_ct_headers"] = len(m.headers.get_all("content-type"))
        obs["content_hex"] = hx(m.raw_content)
        try:
            s = m.text
            obs["strict"] = "ok " + cps(s)
        except ValueError:
            obs["strict"] = "err"
        except Exception as e:
            obs["strict"] = "exc:" + type(e).__name__
        try:
            obs["loose"] = "ok " + cps(m.get_text(strict=False))
        except Exception as e:
            obs["loose"] = "exc:" + type(e).__name__
        # classification data for known(): which codec wrote the body, which one the reader picks
        c2 = ct2 or ""
        obs["chosen"] = nh.infer_content_encoding(c2)
        obs["seen"] = nh.infer_content_encoding(c2, m.raw_content)
        return obs

    # ------------------------------------------------------------------ the property on the implementation
    def oracle(self, case, obs):
        if case["k"] == "infer": return []
        text = uncps(case["text"])
        fails = []
        if obs["set"] != "ok":
            return ["assign: text assignment raised %s (content type %r)" % (obs["set"], case["ct"])]
        scalar = not any(0xD800 <= ord(c) <= 0xDFFF for c in text)
        want = "ok " + cps(text)
        if self._declared_codec_lossy(case["ct"], text):
            return fails          # the stated assumption (the Python codec reads its own output back) does not hold for this text
        # "assigning it as a message's text and reading the text back yields the same string"
        if scalar:
            if obs["strict"] != want:
                fails.append("roundtrip: %r under %r reads back as %s" % (text, case["ct"], self._show(obs["strict"])))
        else:
            # surrogate-escaped bytes: such strings are what get_text(strict=False) returns; the strict getter may raise
            # ValueError (documented) but must not return a different string
            if obs["loose"] != want:
                fails.append("roundtrip: %r under %r reads back (strict=False) as %s" % (text, case["ct"], self._show(obs["loose"])))
            elif obs["strict"] not in ("err", want):
                fails.append("roundtrip: %r under %r reads back as %s" % (text, case["ct"], self._show(obs["strict"])))
        # "updating the declared charset when the text cannot be represented otherwise": a header rewrite is only ever the
        # charset update, and there is exactly one content-type header afterwards
        before = case["ct"]
        after = None if obs["ct2"] is None else uncps(obs["ct2"])
        if after != before:
            p = nh.parse_content_type(after or "")
            if not p or not self._is_utf8(p[2].get("charset")) or obs["n_ct_headers"] != 1:
                fails.append("charset: header rewritten from %r to %r" % (before, after))
            if unhx(obs["content_hex"]) != text.encode("utf8", "surrogateescape"):
                fails.append("charset: header rewritten to %r but the body is not the UTF-8 encoding" % after)
        return fails

    @staticmethod
    def _declared_codec_lossy(ct, text):
        """Python's own codec for the DECLARED charset encodes this text but does not decode it back (e.g. shift_jis maps both the yen
        sign and the backslash to 0x5C). Depends on the header and the codec only, never on mitmproxy's inference."""
        p = nh.parse_content_type(ct or "")
        cs = (p[2].get("charset") if p else None) or ""
        try:
            if not codecs.lookup(cs)._is_text_encoding: return False
            b = text.encode(cs)
        except (LookupError, UnicodeError, ValueError):
            return False
        try:
            return b.decode(cs) != text
        except UnicodeError:
            return True          # e.g. euc-kr writes U+3164 as A4 D4, which its own decoder takes for the start of a longer sequence

    @staticmethod
    def _is_utf8(name):
        try:
            return codecs.lookup(name or "").name == "utf-8"
        except LookupError:
            return False

    @staticmethod
    def _show(s):
        return repr(uncps(s[3:])) if s.startswith("ok ") else s

    def known(self, case, obs, failure):
        if not failure.startswith("roundtrip:") or obs.get("set") != "ok": return None
        chosen, seen = obs["chosen"], obs["seen"]
        if chosen == seen: return None                   # the reader picked the codec that wrote the body: not a recorded defect
        body = unhx(obs["content_hex"])
        if starts_bom(body):
            # the reader's codec must be the one the BOM sniffing names
            if seen not in ("utf-32be", "utf-32le", "utf-16be", "utf-16le", "utf-8-sig"): return None
            return "F-C32c" if emits_bom(chosen) else "F-C32a"
        # F-C32b exactly: no usable charset parameter in the header, and the written body carries a declaration the reader scans for
        return "F-C32b" if self._decl_in_body(uncps(obs["ct2"]) if obs["ct2"] else "", body) else None

    def known_selftest(self):
        """near-miss triples for F-C32a/b/c (frozen observations: independent of the tree under test)"""
        O = lambda ct2, body, chosen, seen: {"set": "ok", "ct2": cps(ct2) if ct2 is not None else None, "content_hex": hx(body), "chosen": chosen,
                                             "seen": seen, "strict": "ok -", "loose": "ok -", "n_ct_headers": 1}
        C = lambda ct, t: {"k": "rt", "msg": "resp", "ct": ct, "text": cps(t)}
        R = "roundtrip: x"
        T = [
            (C("text/plain", "ÿþab"), O("text/plain", b"\xff\xfeab", "latin-1", "utf-16le"), R, "F-C32a"),
            (C("text/plain", "ÿþab"), O("text/plain", b"\xff\xfeab", "latin-1", "cp1252"), R, None),        # BOM there, but the reader took another codec
            (C("text/plain", "xÿþ"), O("text/plain", b"x\xff\xfe", "latin-1", "utf-16le"), R, None),        # no BOM at the start
            (C("text/plain", "ÿþab"), O("text/plain", b"\xff\xfeab", "latin-1", "utf-16le"), "charset: x", None),   # other clause
            (C("text/html", '<meta charset="latin-1">é'), O("text/html", b'<meta charset="latin-1">\xc3\xa9', "utf8", "latin-1"), R, "F-C32b"),
            (C("text/html; charset=gb2312", "―"), O("text/html; charset=gb2312", b"\xa1\xaa", "gb2312", "gb18030"), R, None),   # c32-3: no declaration
            (C("text/plain", '<meta charset="latin-1">é'), O("text/plain", b'<meta charset="latin-1">\xc3\xa9', "utf8", "latin-1"), R, None),  # not scanned
            (C("text/html; charset=utf-8", '<meta charset="latin-1">é'), O("text/html; charset=utf-8", b'<meta charset="latin-1">\xc3\xa9', "utf-8", "latin-1"), R, None),
            (C("text/plain; charset=utf-16", "hi"), O("text/plain; charset=utf-16", b"\xff\xfeh\x00i\x00", "utf-16", "utf-16le"), R, "F-C32c"),
            (C("text/plain; charset=utf-16", "hi"), O("text/plain; charset=utf-16", b"h\x00i\x00", "utf-16", "utf-16le"), R, None),   # no BOM written
            (C("text/plain; charset=utf-16", "hi"), O("text/plain; charset=utf-16", b"\xff\xfeh\x00i\x00", "utf-16", "utf-16"), R, None),  # reader agrees
        ]
        for case, obs, failure, want in T:
            got = self.known(case, obs, failure)
            assert got == want, ("known() selftest", case, failure, "expected", want, "got", got)

    @staticmethod
    def _decl_in_body(ct, body):
        import re
        p = nh.parse_content_type(ct)
        if p and p[2].get("charset"): return False
        if "json" in ct: return False
        if "html" in ct: return bool(re.search(rb"""<meta[^>]+charset=['"]?([^'">]+)""", body, re.IGNORECASE))
        if "xml" in ct: return bool(re.search(rb"""<\?xml[^\?>]+encoding=['"]([^'"\?>]+)""", body, re.IGNORECASE))
        if "javascript" in ct or "ecmascript" in ct: return False
        if "text/css" in ct: return bool(re.match(rb"""@charset "([^"]+)";""", body, re.IGNORECASE))
        return False

    # ------------------------------------------------------------------ model tie
    def model_lines(self, case):
        if case["k"] == "infer":
            return ["infer %s %s" % (cps(case["ct"]), case["body_hex"])]
        text = uncps(case["text"])
        ct = case["ct"]
        n0 = nh.infer_content_encoding(ct or "")
        try:
            b = encoding.encode(text, n0)
            encres = hx(b) if isinstance(b, bytes) and b else ("-" if isinstance(b, bytes) else "err")
        except (ValueError, TypeError):
            encres = "err"
        try:
            u8 = hx(text.encode("utf8", "surrogateescape"))
        except UnicodeEncodeError:
            return None
        # the reader's library answers are taken from the real message produced by the real set_text
        m = self._msg(case["msg"], ct)
        try:
            m.text = text
        except Exception:
            return None                      # the setter raised: the oracle reports it, there is nothing to compare with the model
        c2 = m.headers.get("content-type", "")
        body = m.raw_content
        n1 = nh.infer_content_encoding(c2, body)
        try:
            d = encoding.decode(body, n1)
            decres = "ok:" + cps(d) if isinstance(d, str) else "err"
        except Exception:                    # ValueError is the documented outcome; anything else is flagged by the oracle ("exc:…")
            decres = "err"
        loose = cps(body.decode("utf8", "surrogateescape"))
        return ["rt %s %s %s %s %s %s %s %s" % ("none" if ct is None else cps(ct), case["text"], cps(n0), encres, u8, cps(n1), decres, loose)]

    def model_obs(self, case, replies):
        return replies[0]

    def impl_view(self, case, obs):
        if case["k"] == "infer": return obs["enc"]
        if obs["set"] != "ok": return "raised " + obs["set"]
        return "%s %s %s %s" % ("none" if obs["ct2"] is None else obs["ct2"], obs["content_hex"],
                                obs["strict"].replace(" ", ":"), obs["loose"].replace(" ", ":"))

    def classify(self, case, obs):
        if case["k"] == "infer":
            return None if case["body_hex"] == "-" else ("i", case["ct"], case["body_hex"])
        return None if case["text"] == "-" else ("r", case["msg"], case["ct"], case["text"])

    def branches(self, case, obs):
        if case["k"] == "infer": return ["infer:" + uncps(obs["enc"])[:12]]
        if obs["set"] != "ok": return ["set-raised"]
        out = ["rt:" + case["msg"]]
        after = None if obs["ct2"] is None else uncps(obs["ct2"])
        out.append("fallback-utf8" if after != case["ct"] else "codec:" + str(obs["chosen"])[:10].lower())
        if obs["chosen"] != obs["seen"]: out.append("reader-picks-other-codec")
        if obs["strict"] == "err": out.append("strict-raises")
        if case["ct"] is None: out.append("no-content-type")
        if family_of_ct(case["ct"]) is not None:
            out.append("family:" + FAMILIES[family_of_ct(case["ct"])][0])
            if any(c in confusables()[family_of_ct(case["ct"])] for c in uncps(case["text"])): out.append("family-confusable-char")
        if self._declared_codec_lossy(case["ct"], uncps(case["text"])): out.append("declared-codec-lossy(assumption)")
        return out

    def neighbours(self, case, rng):
        if case["k"] != "rt": return
        # a model/implementation disagreement on this content type is first probed with the characters its codec family disagrees on
        fam = family_of_ct(case["ct"])
        t0 = uncps(case["text"])
        for f in ([fam] if fam is not None else []) + [i for i in range(len(FAMILIES)) if i != fam]:
            names = [case["ct"]] if f == fam else ["text/plain; charset=" + FAMILIES[f][0]]
            for ct in names:
                for c in confusables()[f]:
                    yield dict(case, ct=ct, text=cps(c))
                    yield dict(case, ct=ct, text=cps(t0 + c))
        for ct in [None, "text/plain", "text/html", "text/css", "application/xml", "text/plain; charset=utf-8", "text/plain; charset=latin-1"]:
            yield dict(case, ct=ct)
        t = uncps(case["text"])
        for i in range(len(t)):
            yield dict(case, text=cps(t[:i] + t[i + 1:]))

    def exhaustive(self, tier):
        for ct in [None, "text/plain", "text/html", "text/plain; charset=utf-8", "text/plain; charset=latin-1", "text/plain; charset=ascii"]:
            for n in (1, 2):
                for t in itertools.product(["a", "é", "€", "ÿ", "þ", "\x00"], repeat=n):
                    yield {"k": "rt", "msg": "resp", "ct": ct, "text": cps("".join(t))}
