"""C33 — request URL, host, port and authority stay consistent (mitmproxy/http.py Request.url/host/port/authority/host_header/
_update_host_and_authority, mitmproxy/net/http/url.py parse/unparse/hostport/parse_authority, mitmproxy/net/check.py)."""
import ipaddress, itertools, re, urllib.parse
from common.check import PropertyCheck, hx, unhx
from mitmproxy import http
from mitmproxy.net import check as ncheck
from mitmproxy.net.http import url as nurl

DNS = ["example.com", "a_b.example", "localhost", "EXAMPLE.org", "x.y.z.", "xn--bcher-kva.example", "h", "1-2.test", "sub.Example.COM"]
IP4 = ["1.2.3.4", "127.0.0.1", "255.255.255.255"]
IP6 = ["::1", "2001:db8::1", "::ffff:1.2.3.4", "fe80::1", "::", "2001:DB8:0:0:0:0:0:1"]
IDN = ["bücher.example", "münchen.de", "例え.jp", "ñ.test"]
PORTS = [None, 80, 443, 8080, 1, 65535, 8443]
PATHS = ["", "/", "/a/b", "/a%20b", "/a;p", "/*", "/a/../b", "/~x", "/a+b", "//x", "/a:b@c", "/%zz"]
QUERIES = ["", "?q=1", "?a=b&c=d%26", "?x", "?a=b=c", "?q=a+b"]
FRAGS = ["", "#f", "#a/b?c"]
AUTH_ALPHA = ["a", "b", "Z", "1", "9", "0", ":", "[", "]", ".", "-", "_", "\n", " ", "é", "x", "::", "[::1]", "example.com", ":80", ":65536", ":0", ":",
              "٨", "٠", ":٨٠", "८", "𝟡", ":٨0", "９", "²", "Ⅷ", ":٦٥٥٣٦"]


def cps(s):
    b = b"".join(ord(c).to_bytes(3, "big") for c in s)
    return b.hex() if b else "-"


def uncps(h):
    b = unhx(h)
    return "".join(chr(int.from_bytes(b[i:i + 3], "big")) for i in range(0, len(b), 3))


def host_form(h):
    return "[%s]" % h if ":" in h else h


def same_host(a, b):
    """two spellings of one destination: IDNA-equal names or equal IP literals"""
    if a is None or b is None: return False
    try:
        return ipaddress.ip_address(a) == ipaddress.ip_address(b)
    except ValueError:
        pass
    try:
        return a.encode("idna").lower() == b.encode("idna").lower()
    except UnicodeError:
        return a.lower() == b.lower()


REF_URL = re.compile(r"^([A-Za-z][A-Za-z0-9+.-]*)://(\[[^\]]*\]|[^:/?#\[\]]*)(?::(\d*))?([/?#].*)?$", re.S)


def ref_split(u):
    """independent reading of an absolute URL: (scheme, host, port|None, path+query+fragment)"""
    m = REF_URL.match(u)
    if not m: return None
    host = m.group(2)
    if host.startswith("["): host = host[1:-1]
    rest = m.group(4) or ""
    return m.group(1).lower(), host, int(m.group(3)) if m.group(3) else None, rest


def slashed(rest):
    """an empty path in front of a query/fragment is the path `/`"""
    return rest if rest.startswith("/") else "/" + rest


def defport(s):
    return {"http": 80, "https": 443}.get(s)


def nonascii(s):
    return any(ord(c) > 127 for c in s)


class Check(PropertyCheck):
    prop = "C33"
    design_ref = "§5 C33"
    level_text = ("Lean theorems about the model of url.hostport (default-port elision, IPv6 brackets), url.parse_authority (its regex "
                  "transcribed, both alternatives with backtracking), urllib.parse.urlsplit's scheme/netloc reading (pySplit) and urllib's "
                  "netloc -> hostname/port reading, url.parse/unparse, Request.url getter/setter, host/port setters and "
                  "_update_host_and_authority, for ALL hosts of the stated shape, schemes, ports and requests (HTTP/1 and HTTP/2, with/without "
                  "Host header and authority): parseDec_decDigits; parseAuthority_hostport and netloc_hostport (what hostport writes is read "
                  "back as the same host and port by parse_authority and by urllib — DNS names, IPv4 and bracketed IPv6 alike); "
                  "host_port_edit_keeps_host_header_and_authority_pointing_to_destination (any request, every host/port/accepted-url edit); "
                  "normRestPy_idem / normRestPy_stored (urlunparse∘urlparse on what follows the netloc — cut at # and ?, ;params after the last /, "
                  "re-assembly — is idempotent and fixes every path url.parse stores) and restStable_of_setUrl; "
                  "url_parse_reads_getter_url (url.parse(request.url) returns the request's own scheme, host, port and path for http/https, "
                  "lower-case ASCII hosts, ports 1..65535 with default-port elision, ASCII paths) and with it url_get_set_idempotent_ascii and "
                  "url_get_set_idempotent_ascii_rest (re-assigning request.url changes nothing; the latter without the restStable hypothesis), and "
                  "url_get_set_idempotent_derived (port range, leading '/', is_valid_host, the IDNA round trip and path stability all derived "
                  "from the setter's own success), url_get_set_idempotent_final (the path's ASCII-ness derived too: only the request's shape, the "
                  "IDNA law for ASCII names and _check_bracketed_host for IPv6 literals are assumed), setUrl_fields and url_read_back_equivalent "
                  "(the fields are what url.parse made of the URL; the URL read back parses like the one assigned), "
                  "edit_history_keeps_host_header_and_authority_pointing_to_destination (fold form over any edit sequence); url_get_set_idempotent_partial (general library, explicit hypothesis) + "
                  "url_get_set_idempotent_counterexample (IDN, F-C33b). Model tied to the real Request objects, url.parse, parse_authority "
                  "and urllib.parse.urlsplit differentially; in every url case the driver also runs the composite (pyLib (withRest …)).split — "
                  "pySplit, the re-assembly and the '/' glue together — and compares it with urllib's (scheme, netloc, path) (lib-miss split); "
                  "parse_authority is modelled for every Unicode decimal digit (generated table). All positive results on the re-assignment "
                  "clause are PARTIAL (guard: lower-case ASCII host); the full statement UrlReassignIdempotent is refuted by the counterexample.")
    level_note = ("PARTIAL for IDN hosts (F-C33b: Request.url returns the U-label form which url.parse rejects). For ASCII hosts the former "
                  "hypothesis 'url.parse reads the getter's URL back' is now proved (url_parse_reads_getter_url); what remains assumed there are "
                  "(url_get_set_idempotent_final; pathAscii is derived now as well) only the IDNA law for ASCII names (IdnaAsciiLaw: ASCII in, ASCII out => unchanged) and, for "
                  "IPv6 literals, bracketedOk (CPython's ipaddress behind _check_bracketed_host: a third-party fact, kept as a named hypothesis; "
                  "is_valid_host needs no transcription here because its verdict is derived from the setter's own check), besides the shape "
                  "of the request (http/https, lower-case ASCII host). In the "
                  "intermediate url_get_set_idempotent_ascii_rest: three named library facts, fields of GetterUrlOk2: bracketedOk (_check_bracketed_host/ipaddress accepts the IPv6 literal), "
                  "idnaAscii (the IDNA round trip leaves an ASCII host alone), hostValid (is_valid_host accepts it). The fourth, restStable, is "
                  "now a theorem: urlsplit's cutting at # and ?, urlparse's ;params and urlunparse's re-assembly are transcribed (normRestPy, "
                  "tied to urllib by the `normrest` driver op) and proved idempotent. Hosts must be lower case (urllib lower-cases them: an upper-case host reads back "
                  "equivalent, not identical). Port 0 (silently replaced by the default port) and URLs with userinfo (dropped) are not "
                  "counted as valid URLs by the oracle; non-ASCII paths are rejected by url.parse by design. F-C33a (IPv6 brackets) is fixed "
                  "in /repo (bdda7e671).")
    technique = "Lean 4 proof (induction for decimal ports, case analysis of the authority regex) + differential correspondence on Request objects"
    rule = ("url cases: scheme x host form (9 DNS names incl. trailing dot/underscore/upper case/A-label, 3 IPv4, 6 bracketed IPv6, 4 IDN) x "
            "7 ports x 12 paths x 6 queries x 3 fragments assigned to HTTP/1 and HTTP/2 requests with/without Host header and authority, then "
            "re-assigned; 15% mutated URLs (userinfo, port 0/65536/non-digit, missing brackets, control characters); edit cases: 1–4 "
            "host/port/url edits; pa cases: parse_authority on random strings over an alphabet of colons, brackets, ASCII and other Unicode "
            "decimal digits (Arabic-Indic, Devanagari, mathematical, full-width; plus non-decimal digit look-alikes) and newlines; split "
            "cases: valid and mutated ASCII URLs (leading blanks/controls, embedded TAB/CR/LF, unbalanced or invalid brackets) against "
            "urllib.parse.urlsplit. "
            "distinct = distinct case; all non-trivial.")
    budget = {"quick": 5000, "thorough": 150000}
    time_budget = {"quick": 30, "thorough": 420}
    fingerprints = ["urllib.parse:urlsplit", "urllib.parse:_splitnetloc", "urllib.parse:urlparse", "urllib.parse:_splitparams",
                    "urllib.parse:urlunparse", "urllib.parse:urlunsplit", "mitmproxy.net.http.url:parse", "mitmproxy.net.http.url:unparse", "mitmproxy.net.http.url:hostport",
                    "mitmproxy.net.http.url:default_port", "mitmproxy.net.http.url:parse_authority", "mitmproxy.net.check:is_valid_host",
                    "mitmproxy.net.check:is_valid_port", "mitmproxy.http:Request.url", "mitmproxy.http:Request.host",
                    "mitmproxy.http:Request.port", "mitmproxy.http:Request.authority", "mitmproxy.http:Request.host_header",
                    "mitmproxy.http:Request._update_host_and_authority", "mitmproxy.http:Request.first_line_format",
                    "mitmproxy.http:Request.scheme", "mitmproxy.http:Request.path"]
    trusted_base = ["urllib.parse.urlparse/urlunparse splitting (parameter `split` of the model; its netloc reading is transcribed)",
                    "Python idna codec and ipaddress behind is_valid_host (parameters)", "CPython re for _authority_re (transcribed by hand)"]
    parallel = False

    # ------------------------------------------------------------------ tables
    def translate(self):
        import sys, unicodedata
        zeros = [c for c in range(sys.maxunicode + 1) if chr(c).isdecimal() and unicodedata.decimal(chr(c)) == 0]
        assert all(chr(z + i).isdecimal() and unicodedata.decimal(chr(z + i)) == i for z in zeros for i in range(10))
        assert sum(chr(c).isdecimal() for c in range(sys.maxunicode + 1)) == 10 * len(zeros)
        src = ("-- generated by harness/c33.py from the running interpreter: the code points of the digit ZERO of every block of\n"
               "-- Unicode decimal digits (str.isdecimal(): what `\\d` matches in a str pattern and int() accepts); each block is\n"
               "-- ten consecutive code points with the values 0..9 (asserted when generating)\n"
               "namespace MitmVerif.Gen.C33\n"
               "def pyDigitZeros : List Nat := [" + ", ".join(map(str, zeros)) + "]\n"
               "end MitmVerif.Gen.C33\n")
        return {"MitmVerif/Gen/C33.lean": src}

    # ------------------------------------------------------------------ generator
    def _host(self, rng, idn=0.12):
        r = rng.random()
        if r < idn: return rng.pick(IDN)
        if r < 0.55: return rng.pick(DNS)
        if r < 0.7: return rng.pick(IP4)
        return rng.pick(IP6)

    def _valid_url(self, rng):
        s = rng.pick(["http", "https", "http", "https", "HTTP", "Https"])
        h = self._host(rng)
        p = rng.pick(PORTS)
        rest = rng.pick(PATHS) + rng.pick(QUERIES) + rng.pick(FRAGS)
        if rest and rest[0] != "/": rest = "/" + rest if rng.chance(0.5) else rest
        u = "%s://%s%s%s" % (s, host_form(h), "" if p is None else ":%d" % p, rest)
        return u, {"scheme": s.lower(), "host": h, "port": p if p is not None else defport(s.lower()), "rest": rest}

    def _mutated_url(self, rng):
        u, _ = self._valid_url(rng)
        k = rng.randint(0, 9)
        if k == 0: return u.replace("://", "://user:pw@", 1)
        if k == 1: return re.sub(r"^(\w+://[^/?#]*?)(:\d+)?([/?#]|$)", lambda m: m.group(1) + rng.pick([":0", ":65536", ":x", ":", ":80:80", ":٣"]) + m.group(3), u, 1)
        if k == 2: return u.replace("[", "").replace("]", "")
        if k == 3: return u.replace("://", ":/", 1)
        if k == 4: return u + rng.pick(["\n", " ", "\x00", "é", "\udcff", "?", "#"])
        if k == 5: return rng.pick(["", "http://", "http:///p", "//example.com/", "example.com", "http://[::1", "http://::1]/", "ftp://example.com/x", "http://a..b/", "http://-/", "http://%41/", "http://a b/"])
        if k == 6: return u.replace("://", "://" + rng.pick(["é", "[", "@", ".", "x" * 64, "a" * 300 + "."]), 1)
        if k == 7: return u.replace("/", "\\", 1) if rng.chance(0.3) else u.upper()
        if k == 8: return u[:rng.randint(0, len(u))]
        i = rng.randint(0, len(u)); return u[:i] + rng.pick([":", "[", "]", "@", "/", "%", "\t"]) + u[i:]

    def _req(self, rng):
        return {"h2": rng.chance(0.4), "hosthdr": rng.pick([None, None, "old.example:1", "old.example", "[::9]:7"]),
                "auth": rng.pick(["", "", "old.example:1", "other.test"]), "method": "GET"}

    def generate(self, rng, tier):
        # small-scope: every host form x port with both request shapes
        for h in DNS + IP4 + IP6 + IDN:
            for p in (None, 80, 8080):
                for s in ("http", "https"):
                    u = "%s://%s%s/p?q=1" % (s, host_form(h), "" if p is None else ":%d" % p)
                    exp = {"scheme": s, "host": h, "port": p or defport(s), "rest": "/p?q=1"}
                    for h2, hh, au in ((False, "old:1", ""), (True, None, "old:1")):
                        yield {"k": "url", "h2": h2, "hosthdr": hh, "auth": au, "method": "GET", "u": u, "valid": exp}
                    yield {"k": "edit", "h2": False, "hosthdr": "old:1", "auth": "old:1", "method": "GET", "scheme": s, "host0": "start.example",
                           "port0": 81, "edits": [["host", h], ["port", p or 8081]]}
        while True:
            r = rng.random()
            q = self._req(rng)
            if r < 0.45:
                if rng.chance(0.85):
                    u, exp = self._valid_url(rng)
                    yield dict(q, k="url", u=u, valid=exp)
                else:
                    yield dict(q, k="url", u=self._mutated_url(rng), valid=None)
            elif r < 0.8:
                edits = []
                for _ in range(rng.randint(1, 4)):
                    e = rng.random()
                    if e < 0.4: edits.append(["host", self._host(rng)])
                    elif e < 0.8: edits.append(["port", rng.pick([80, 443, 8080, 1, 65535, 22])])
                    else: edits.append(["url", self._valid_url(rng)[0]])
                yield dict(q, k="edit", scheme=rng.pick(["http", "https", "https", ""]), host0=self._host(rng, 0.05), port0=rng.pick([80, 443, 81]), edits=edits)
            elif r < 0.9:
                u = self._valid_url(rng)[0] if rng.chance(0.5) else self._mutated_url(rng)
                if rng.chance(0.2): u = rng.pick([" ", "\t", "\x00 ", ""]) + u
                if rng.chance(0.1): i = rng.randint(0, len(u)); u = u[:i] + rng.pick(["\t", "\n", "\r"]) + u[i:]
                if not nonascii(u): yield {"k": "split", "u": u}
            else:
                n = rng.randint(0, 5)
                s = "".join(rng.pick(AUTH_ALPHA) for _ in range(n))
                if rng.chance(0.4): s = nurl.hostport(rng.pick(["http", "https", ""]), self._host(rng), rng.pick([80, 443, 8080, 65535, 65536]))
                if rng.chance(0.1): s += rng.pick(["\n", ":", "]"])
                yield {"k": "pa", "s": s, "check": rng.chance(0.7)}

    # ------------------------------------------------------------------ implementation
    @staticmethod
    def _mk(case, scheme=b"http", host="start.example", port=81):
        hs = http.Headers()
        if case["hosthdr"] is not None: hs.fields = ((b"Host", case["hosthdr"].encode()),)
        return http.Request(host, port, case["method"].encode(), scheme, case["auth"].encode("idna"), b"/orig",
                            b"HTTP/2.0" if case["h2"] else b"HTTP/1.1", hs, b"", None, 0, 0)

    @staticmethod
    def _state(r):
        return {"scheme": r.scheme, "host": r.host, "port": r.port, "path": r.path, "hosthdr": r.headers.get("Host"),
                "n_host": len(r.headers.get_all("Host")), "auth": r.authority, "host_header": r.host_header, "url": r.url}

    def _assign(self, r, u):
        try:
            r.url = u
            return "ok"
        except ValueError:
            return "err"

    def impl(self, case):
        k = case["k"]
        if k == "pa":
            try:
                h, p = nurl.parse_authority(case["s"], case["check"])
                return {"res": [h, p]}
            except ValueError:
                return {"res": "err"}
        if k == "split":
            try:
                p = urllib.parse.urlsplit(case["u"])
                q = urllib.parse.urlparse(case["u"])
                return {"res": [p.scheme, p.netloc, p.path, p.query, p.fragment],
                        "norm": urllib.parse.urlunparse(("", "", q.path, q.params, q.query, q.fragment))}
            except ValueError:
                return {"res": "err"}
        if k == "url":
            r = self._mk(case)
            obs = {"st1": self._assign(r, case["u"])}
            if obs["st1"] == "ok":
                obs["url1"] = r.url
                obs["s1"] = self._state(r)
                obs["st2"] = self._assign(r, obs["url1"])
                obs["url2"] = r.url
                obs["s2"] = self._state(r)
            else:
                obs["s1"] = self._state(r)
            return obs
        r = self._mk(case, case["scheme"].encode(), case["host0"], case["port0"])
        steps = []
        for kind, v in case["edits"]:
            if kind == "host": r.host = v; st = "ok"
            elif kind == "port": r.port = v; st = "ok"
            else: st = self._assign(r, v)
            steps.append({"st": st, "s": self._state(r)})
        return {"steps": steps}

    # ------------------------------------------------------------------ the property on the implementation
    def _points(self, what, val, s):
        """`val` (a Host header / authority) names the request's destination s.host : s.port"""
        try:
            h, p = nurl.parse_authority(val, check=True)
        except ValueError:
            return "%s %r is not a valid authority (destination %s port %s)" % (what, val, s["host"], s["port"])
        if p is None: p = defport(s["scheme"])
        if not same_host(h, s["host"]) or p != s["port"]:
            return "%s %r names %r port %r, the destination is %r port %r" % (what, val, h, p, s["host"], s["port"])
        return None

    def _consistent(self, case, s, before_hdr, before_auth):
        out = []
        # "keeps an existing Host header and authority pointing at the new destination"
        if (s["hosthdr"] is not None) != (before_hdr is not None) or s["n_host"] > 1:
            out.append("edit: Host header presence changed (%r -> %r)" % (before_hdr, s["hosthdr"]))
        if bool(s["auth"]) != bool(before_auth):
            out.append("edit: authority presence changed (%r -> %r)" % (before_auth, s["auth"]))
        for what, val in (("Host header", s["hosthdr"]), ("authority", s["auth"])):
            if val:
                e = self._points(what, val, s)
                if e: out.append("edit: " + e)
        return out

    def oracle(self, case, obs):
        k = case["k"]
        if k in ("pa", "split"): return []
        fails = []
        if k == "url":
            exp = case["valid"]
            if obs["st1"] != "ok":
                # "For any valid http or https URL (IDN hosts, IPv4/IPv6 literals, …), assigning it to a request …"
                if exp: fails.append("url: valid URL %r is rejected" % case["u"])
                return fails
            s1, url1 = obs["s1"], obs["url1"]
            if exp:
                # "… and reading the URL back yields an equivalent URL"
                ref = ref_split(url1)
                if ref is None:
                    fails.append("url: %r reads back as %r which is not an absolute URL" % (case["u"], url1))
                else:
                    rs, rh, rp, rrest = ref
                    if rs != exp["scheme"] or not same_host(rh, exp["host"]) or (rp if rp is not None else defport(rs)) != exp["port"] \
                            or slashed(rrest) != slashed(exp["rest"]):
                        fails.append("url: %r reads back as the different URL %r" % (case["u"], url1))
                # "scheme, host, port and path read back consistently with it"
                if s1["scheme"] != exp["scheme"] or not same_host(s1["host"], exp["host"]) or s1["port"] != exp["port"] \
                        or s1["path"] != slashed(exp["rest"]):
                    fails.append("url: after assigning %r the fields are %r" % (case["u"], [s1["scheme"], s1["host"], s1["port"], s1["path"]]))
            # "and assigning that result again changes nothing" (http and https URLs only: the statement is about those)
            if s1["scheme"] not in ("http", "https"):
                pass
            elif obs["st2"] != "ok":
                fails.append("url: the URL read back, %r, is rejected when assigned again" % url1)
            elif obs["s2"] != s1 or obs["url2"] != url1:
                fails.append("url: assigning the URL read back (%r) changes the request: %r -> %r" % (url1, s1, obs["s2"]))
            fails += self._consistent(case, s1, case["hosthdr"], case["auth"])
            return fails
        for (kind, v), st in zip(case["edits"], obs["steps"]):
            if st["st"] != "ok":
                fails.append("url: valid URL %r is rejected" % v)
                continue
            fails += self._consistent(case, st["s"], case["hosthdr"], case["auth"])
        return fails

    def known(self, case, obs, failure):
        """F-C33b exactly: the URL's host is an internationalised name (non-ASCII once IDNA-decoded) AND the failure is the rejection of
        the assignment — of the URL itself when it is given in U-label form, or of the URL read back (U-label form) when assigning again"""
        if case["k"] == "url":
            if obs["st1"] != "ok":
                return "F-C33b" if failure.startswith("url: valid URL") and failure.endswith("is rejected") and case["valid"] \
                    and nonascii(case["valid"]["host"]) and not nonascii(case["u"].replace(case["valid"]["host"], "")) else None
            if failure.startswith("url: the URL read back,") and failure.endswith("is rejected when assigned again") \
                    and obs["st2"] == "err" and nonascii(obs["s1"]["host"]) and nonascii(obs["url1"]):
                return "F-C33b"
            return None
        if case["k"] == "edit" and failure.startswith("url: valid URL") and failure.endswith("is rejected"):
            for (kind, v), st in zip(case["edits"], obs["steps"]):
                if kind == "url" and st["st"] != "ok" and failure == "url: valid URL %r is rejected" % v:
                    sp = ref_split(v)
                    if sp and nonascii(sp[1]) and not nonascii(v.replace(sp[1], "")): return "F-C33b"
        return None

    def known_selftest(self):
        st = lambda host, url: {"scheme": "http", "host": host, "port": 80, "path": "/p", "hosthdr": None, "n_host": 0, "auth": "", "host_header": None, "url": url}
        V = lambda h: {"scheme": "http", "host": h, "port": 80, "rest": "/p"}
        base = {"k": "url", "h2": False, "hosthdr": None, "auth": "", "method": "GET"}
        T = [
            (dict(base, u="http://bücher.example/p", valid=V("bücher.example")), {"st1": "err", "s1": st("start.example", "x")},
             "url: valid URL 'http://bücher.example/p' is rejected", "F-C33b"),
            (dict(base, u="http://example.com/p", valid=V("example.com")), {"st1": "err", "s1": st("start.example", "x")},
             "url: valid URL 'http://example.com/p' is rejected", None),                                     # ASCII host rejected: not the finding
            (dict(base, u="http://xn--bcher-kva.example/p", valid=V("xn--bcher-kva.example")),
             {"st1": "ok", "url1": "http://bücher.example/p", "s1": st("bücher.example", "http://bücher.example/p"), "st2": "err",
              "url2": "http://bücher.example/p", "s2": st("bücher.example", "http://bücher.example/p")},
             "url: the URL read back, 'http://bücher.example/p', is rejected when assigned again", "F-C33b"),
            (dict(base, u="http://xn--bcher-kva.example/p", valid=V("xn--bcher-kva.example")),
             {"st1": "ok", "url1": "http://bücher.example/p", "s1": st("bücher.example", "http://bücher.example/p"), "st2": "ok",
              "url2": "http://bücher.example/q", "s2": st("bücher.example", "http://bücher.example/q")},
             "url: assigning the URL read back ('http://bücher.example/p') changes the request: x", None),   # IDN host, other clause
            (dict(base, u="http://xn--bcher-kva.example/p", valid=V("xn--bcher-kva.example")),
             {"st1": "ok", "url1": "http://bücher.example/x", "s1": st("bücher.example", "http://bücher.example/x"), "st2": "err",
              "url2": "", "s2": st("bücher.example", "")},
             "url: 'http://xn--bcher-kva.example/p' reads back as the different URL 'http://bücher.example/x'", None),
            (dict(base, u="http://example.com/p", valid=V("example.com")),
             {"st1": "ok", "url1": "http://example.com/p", "s1": st("example.com", "http://example.com/p"), "st2": "err", "url2": "", "s2": st("example.com", "")},
             "url: the URL read back, 'http://example.com/p', is rejected when assigned again", None),       # ASCII host: a new defect
            ({"k": "edit", "h2": False, "hosthdr": None, "auth": "", "method": "GET", "scheme": "http", "host0": "h", "port0": 80,
              "edits": [["url", "http://ñ.test/"]]}, {"steps": [{"st": "err", "s": st("h", "x")}]}, "url: valid URL 'http://ñ.test/' is rejected", "F-C33b"),
            ({"k": "edit", "h2": False, "hosthdr": None, "auth": "", "method": "GET", "scheme": "http", "host0": "h", "port0": 80,
              "edits": [["url", "http://n.test/"]]}, {"steps": [{"st": "err", "s": st("h", "x")}]}, "url: valid URL 'http://n.test/' is rejected", None),
            ({"k": "edit", "h2": False, "hosthdr": "old:1", "auth": "", "method": "GET", "scheme": "http", "host0": "h", "port0": 80,
              "edits": [["host", "ñ.test"]]}, {"steps": [{"st": "ok", "s": st("ñ.test", "x")}]}, "edit: Host header 'x' is not a valid authority", None),
        ]
        for case, obs, failure, want in T:
            got = self.known(case, obs, failure)
            assert got == want, ("known() selftest", case, failure, "expected", want, "got", got)

    def setup(self, tier):
        self.known_selftest()

    # ------------------------------------------------------------------ model tie
    @staticmethod
    def _url_answers(u):
        """what the library parameters of the model answer for this URL: urlparse split, idna round trip, is_valid_host, and the
        hostname urllib reads (the model computes it itself; a difference is reported as lib-miss)"""
        bad = ["err", "-", "-", "-", "err", "0", "none"]
        try:
            p = urllib.parse.urlparse(u)
            netloc = p.netloc
            hostname = p.hostname
            full = urllib.parse.urlunparse(("", "", p.path, p.params, p.query, p.fragment))
        except ValueError:
            return bad
        if not full.startswith("/"): full = "/" + full
        idn, valid = "err", "0"
        if hostname:
            try:
                hb = hostname.encode("idna")
                idn = "ok:" + cps(hb.decode("idna"))
                valid = "1" if ncheck.is_valid_host(hb) else "0"
            except UnicodeError:
                pass
        return ["ok", cps(p.scheme), cps(netloc), cps(full), idn, valid, "none" if not hostname else cps(hostname)]

    @staticmethod
    def _auth_norm(val):
        """authority setter + getter on a str"""
        try:
            b = val.encode("idna", "strict")
        except UnicodeError:
            b = val.encode("utf8", "surrogateescape")
        try:
            return b.decode("idna")
        except UnicodeError:
            return b.decode("utf8", "surrogateescape")

    def _init(self, case, scheme, host, port):
        au = self._auth_norm(case["auth"]) if case["auth"] else ""
        return "%d %s %s %s %s %s %d %s" % (1 if case["h2"] else 0, cps(case["method"]), "none" if case["hosthdr"] is None else cps(case["hosthdr"]),
                                            cps(au), cps(scheme), cps(host), port, cps("/orig"))

    @staticmethod
    def _cands(r, kind, v, ans):
        """the values _update_host_and_authority may write into the authority during this edit"""
        out = []
        if kind == "host":
            out.append(nurl.hostport(r.scheme, v, r.port))
        elif kind == "port":
            out.append(nurl.hostport(r.scheme, r.host, v))
        elif ans[0] == "ok" and ans[4].startswith("ok:"):
            sch = uncps(ans[1]); host = uncps(ans[4][3:])
            try:
                p = urllib.parse.urlparse(v).port
            except ValueError:
                return out
            p = p or (443 if sch == "https" else 80)
            out.append(nurl.hostport(sch, host, r.port))
            out.append(nurl.hostport(sch, host, p))
        return out

    def model_lines(self, case):
        k = case["k"]
        if k == "pa":
            s = case["s"]
            m = nurl._authority_re.match(s)
            hostq, valid = "-", "0"
            if m:
                h = m.group("host")
                if h.startswith("[") and h.endswith("]"): h = h[1:-1]
                hostq, valid = cps(h), "1" if ncheck.is_valid_host(h) else "0"
            return ["pa %s %d %s %s" % (cps(s), 1 if case["check"] else 0, hostq, valid)]
        if k == "split":
            # _check_bracketed_host's verdict on the candidate the model will ask about
            u = case["u"].lstrip("".join(map(chr, range(33))))
            for b in "\t\r\n": u = u.replace(b, "")
            m = re.search(r"//([^/?#]*)", u)
            vb = "1"
            if m and "[" in m.group(1) and "]" in m.group(1):
                try:
                    urllib.parse._check_bracketed_host(m.group(1).partition("[")[2].partition("]")[0])
                except ValueError:
                    vb = "0"
            lines = ["split %s %s" % (cps(case["u"]), vb)]
            # the re-assembly of what follows the netloc (urlunparse of urlparse's path/params/query/fragment), transcribed as normRestPy
            try:
                p = urllib.parse.urlparse(case["u"])
                rest = u
                sch = p.scheme
                # what follows the netloc in the cleaned URL (the same cut the `split` reply is checked against)
                if re.match(r"^[A-Za-z][A-Za-z0-9+.-]*:", u) and sch: rest = u.split(":", 1)[1]
                if rest.startswith("//"): rest = rest[2 + len(p.netloc):]
                lines.append("normrest %s %s" % (cps(sch), cps(rest)))
            except ValueError:
                pass
            return lines
        if k == "url":
            r = self._mk(case)
            edits = [["url", case["u"]]]
            init = self._init(case, "http", "start.example", 81)
        else:
            r = self._mk(case, case["scheme"].encode(), case["host0"], case["port0"])
            edits = [list(e) for e in case["edits"]]
            init = self._init(case, case["scheme"], case["host0"], case["port0"])
        lines, i = [], 0
        while i < len(edits):
            kind, v = edits[i]
            ans = self._url_answers(v) if kind == "url" else ["-"] * 7
            arg = str(v) if kind == "port" else cps(v)
            cands = self._cands(r, kind, v, ans)
            table = ",".join("%s=%s" % (cps(c), cps(self._auth_norm(c))) for c in cands) or "-"
            lines.append("%s %s %s %s %s end" % ("init " + init if i == 0 else "next", kind, arg, " ".join(ans), table))
            if kind == "host": r.host = v; st = "ok"
            elif kind == "port": r.port = v; st = "ok"
            else: st = self._assign(r, v)
            if k == "url" and i == 0 and st == "ok": edits.append(["url", r.url])
            i += 1
        return lines

    def model_obs(self, case, replies):
        if case["k"] == "split":
            f = replies[0].split(" ")
            extra = [uncps(replies[1])] if len(replies) > 1 else []
            if f[0] != "ok": return [replies[0]] + extra
            # what follows the netloc is cut at '#' and '?' by urlsplit itself (two str.split calls, not transcribed)
            rest = uncps(f[3]); frag = query = ""
            if "#" in rest: rest, frag = rest.split("#", 1)
            if "?" in rest: rest, query = rest.split("?", 1)
            return ["ok", uncps(f[1]), uncps(f[2]), rest, query, frag] + extra
        return replies

    @staticmethod
    def _show_state(st, s):
        return "%s %s %s %d %s %s %s %s" % (st, cps(s["scheme"]), cps(s["host"]), s["port"], cps(s["path"]),
                                         "none" if s["hosthdr"] is None else cps(s["hosthdr"]), cps(s["auth"]), cps(s["url"]))

    def impl_view(self, case, obs):
        k = case["k"]
        if k == "split":
            return ["err"] if obs["res"] == "err" else ["ok"] + obs["res"] + [obs["norm"]]
        if k == "pa":
            if obs["res"] == "err": return ["err"]
            h, p = obs["res"]
            return ["ok %s %s" % (cps(h), "none" if p is None else str(p))]
        if k == "url":
            out = [self._show_state(obs["st1"], obs["s1"])]
            if obs["st1"] == "ok": out.append(self._show_state(obs["st2"], obs["s2"]))
            return out
        return [self._show_state(st["st"], st["s"]) for st in obs["steps"]]

    def classify(self, case, obs):
        import json
        return json.dumps(case, sort_keys=True)

    def branches(self, case, obs):
        k = case["k"]
        if k == "split": return ["split:" + ("err" if obs["res"] == "err" else "ok")]
        if k == "pa": return ["pa:" + ("err" if obs["res"] == "err" else "ok" + ("+port" if obs["res"][1] is not None else ""))]
        if k == "url":
            out = ["url:" + obs["st1"] + (":valid" if case["valid"] else ":mutated")]
            h = obs["s1"]["host"]
            if obs["st1"] == "ok":
                out.append("host:" + ("ipv6" if ":" in h else "idn" if nonascii(h) else "ipv4" if re.fullmatch(r"[\d.]+", h) else "dns"))
                out.append("reassign:" + obs["st2"])
            return out + ["h2" if case["h2"] else "h1"]
        return ["edit:%d" % len(case["edits"]), "h2" if case["h2"] else "h1"] + ["edit:" + e[0] for e in case["edits"]]

    def neighbours(self, case, rng):
        if case["k"] != "url": return
        for h2 in (False, True):
            for hh in (None, "old:1"):
                for au in ("", "old:1"):
                    yield dict(case, h2=h2, hosthdr=hh, auth=au)

    def exhaustive(self, tier):
        for h in DNS + IP4 + IP6:
            for p in PORTS:
                for s in ("http", "https"):
                    u = "%s://%s%s/" % (s, host_form(h), "" if p is None else ":%d" % p)
                    yield {"k": "url", "h2": False, "hosthdr": "old:1", "auth": "old:1", "method": "GET", "u": u,
                           "valid": {"scheme": s, "host": h, "port": p or defport(s), "rest": "/"}}
