"""C34 — query, cookie, form and path views are lossless (mitmproxy/http.py views, net/http/url.py, cookies.py, multipart.py,
coretypes/multidict.py)."""
import itertools, json, sys
from urllib.parse import quote as _uq
from common.check import PropertyCheck, hx, unhx
from mitmproxy import http
from mitmproxy.net.http import cookies as nck, multipart as nmp, headers as nh

CK_ALPHA = ["a", "b", "Z", "0", " ", "\t", ";", "=", ",", '"', "\\", "é", "\x00", "\x7f", "\xa0", "　", "€", "\U0001f600", "-", "_", ".", "/",
            "%", "\n", "\r", "'", "~", "\x1c", "expires", "path", "Path", "HttpOnly", "abc", "x=y", "a b", "\udcff"]
MP_ALPHA = [b"a", b"b", b"0", b" ", b"\r\n", b"\n", b"\r", b'"', b"-", b"--", b"\x00", b"\xff", b"\xc3\xa9", b"=", b";", b":", b"name=", b"\x0b", b"\x0c",
            b"\x85", b"abc", b"line", b"--XX", b"XX", b"--", b"\r\n\r\n", b"Content-Disposition: form-data; name=\"z\""]
BOUNDARIES = ["XX", "----WebKitFormBoundaryAbC123", "---------------------------1234567890", "b.o_u-n~d", "a", "===============12==", "a:b", "a+b", "a b", "(x)"]
STR_ALPHA = ["a", "b", "&", "=", "+", " ", "%", "%41", "?", "#", "/", ";", "é", "ü€", "\U0001f600", "\udcff", "\x00", "\n", "~", ".", "..", "a b", "c&d=e", "'", '"']


WIDE_PATHS = ["//static/app/index.html?v=1&lang=en", "//a/b?v=1", "///a/b?x=1", "//a", "//", "///", "/a//b?x=1", "/a/http://x/y?q=1", "/http://h/p", "/p;k=v?x=1",
              "/p;k?x=1#f", "/a;x/b;y?z=1", "/p#f", "/p#f?x=1", "/p?a=1?b=2", "/p?a=1#f#g", "", "*", "/", "/a%2Fb/c?x=%2F", "/%2F%2Fa", "/é/ü?q=é", "/\udcff?x=\udcfe",
              "/p?x", "/p?", "/p?a=1&&b=2", "/p?a=b=c", "/p?a=1;b=2", "/p?%zz=1", "/p?a+b=c+d", "/a/?x=1", "/?x=1", "?x=1", "/p?x=1&x=2", "/:80/x?y=1",
              "//host:99/p?x=1", "//user@host/p?x=1", "/p/?#", "/p?=", "/p?&", "/a/./../b", "/a b/c?d e=f g", "/p?x=http://y/z?w=1"]
SEGS = ["a", "static", "http:", "x;p", "%2F", "a%2Fb", "é", "\udcff", ":80", "host:99", "..", ".", "", "a b", "~", "%41", "u@h", "b"]


FORM_CS = ["utf-8", "latin-1", "utf-16le", "utf-16be", "utf-32le", "cp037", "cp500", "x-unknown"]
FORM_CTS = [None, "text/plain", "application/x-www-form-urlencoded", "Application/X-WWW-Form-Urlencoded"] + \
           ["application/x-www-form-urlencoded; charset=" + c for c in FORM_CS] + \
           ["application/x-www-form-urlencoded;charset=cp037", "application/x-www-form-urlencoded; Charset=utf-16le",
            "application/x-www-form-urlencoded; a=b; charset=utf-16be", "application/x-www-form-urlencoded; charset=cp500; boundary=x",
            "Application/X-WWW-Form-Urlencoded; charset=utf-32le", 'application/x-www-form-urlencoded; charset="utf-8"',
            "application/x-www-form-urlencoded; charset=utf-16", "text/plain; charset=utf-16le",
            "application/x-www-form-urlencoded; CHARSET=cp037; charset=utf-16le"]
FORM_BODIES = [None, "", "a=1", "a&b=2", "old=body", "user=bob&role=admin", "x=%C3%A9&y=+"]
MP_CT_PARAMS = ["multipart/form-data; boundary=XX", "multipart/form-data; charset=utf-16le; boundary=XX", "multipart/form-data; boundary=XX; charset=cp037",
                "Multipart/Form-Data; boundary=XX", "multipart/form-data; Boundary=XX", "multipart/form-data;boundary=XX;a=b",
                "multipart/form-data; boundary=XX; boundary=YY", "multipart/form-data", "multipart/form-data; charset=utf-8"]


def form_charset(ct):
    """the codec the starting body is written in when it is consistent with the header"""
    import codecs
    p = nh.parse_content_type(ct or "")
    cs = (p[2].get("charset") if p else None) or "latin-1"
    try:
        codecs.lookup(cs); return cs
    except LookupError:
        return "utf-8"


HIST_VIEWS = ["respcookies", "reqcookies", "query", "form", "multipart", "path"]
HIST_EXPIRES = "Wed, 01-Jan-2031 00:00:00 GMT"


def _unq(s):
    import urllib.parse
    return urllib.parse.unquote(s, errors="surrogateescape")


def ref_split_target(path):
    """independent reading of an origin-form request target: (path part, query text, fragment text); `*` has neither"""
    if path == "*": path = ""
    rest, _, frag = path.partition("#")
    p, _, query = rest.partition("?")
    return p, query, frag


def ref_query(path):
    import urllib.parse
    return [list(x) for x in urllib.parse.parse_qsl(ref_split_target(path)[1], keep_blank_values=True, errors="surrogateescape")]


def ref_components(path):
    p = ref_split_target(path)[0]
    segs = p.split("/")
    if "/" in p and ";" in segs[-1]: segs[-1] = segs[-1].split(";", 1)[0]
    return [_unq(x) for x in segs if x]


def meaning(path):
    """what a request target means: unquoted segments (empty ones kept; '' = '/'), the last segment's ;parameters, query pairs, fragment.
    Empty parameter/query/fragment sections say nothing, like their absence."""
    if path == "*": return [["*"], "", [], ""]
    p, query, frag = ref_split_target(path)
    if p == "": p = "/"
    head, _, last = p.rpartition("/")
    last, _, params = last.partition(";")
    return [[_unq(x) for x in (head + "/" + last).split("/")], params, ref_query(path), _unq(frag)]


def cps(s):
    b = b"".join(ord(c).to_bytes(3, "big") for c in s)
    return b.hex() if b else "-"


def uncps(h):
    b = unhx(h)
    return "".join(chr(int.from_bytes(b[i:i + 3], "big")) for i in range(0, len(b), 3))


def ck_name_ok(k, extra=""):
    return not any(c in k for c in ";=" + extra) and k == k.lstrip()


def ck_representable(pairs):
    """pairs a Cookie header can carry: names without ';' '=' and without leading whitespace, and not (empty name, empty value)"""
    return all(ck_name_ok(k) and (k != "" or v != "") for k, v in pairs)


def sc_representable(name, value, attrs):
    """what one Set-Cookie header can carry: keys without ';' '=' ',' and leading whitespace; attribute keys non-empty; the values of
    expires/path (never quoted by the formatter) without ';' ',' and leading '"'"""
    allp = [(name, value)] + [tuple(a) for a in attrs]
    for i, (k, v) in enumerate(allp):
        if not ck_name_ok(k, ","): return False
        if v is None:
            if k == "" or i == 0: return False
            continue
        if i > 0 and k == "" and v == "": return False
        if k.lower() in ("expires", "path"):
            if any(c in v for c in ";,") or v.startswith('"'): return False
    if name == "" and value == "": return False
    return True


class Check(PropertyCheck):
    prop = "C34"
    design_ref = "§5 C34"
    level_text = ("Lean theorems about the cookie grammar as implemented (_read_until, _read_quoted_string with backslash escapes, _read_value, "
                  "_read_cookie_pairs, _read_set_cookie_pairs with the expires heuristic, _format_pairs with _has_special quoting and ESCAPE) for "
                  "ALL pair lists and ALL header strings: cookie_roundtrip (Representable ps -> parseCookie (formatCookie ps) = ps), "
                  "parse_yields_representable, request_cookies_view_roundtrip, view_writeback_idempotent (any Cookie header values), "
                  "set_cookie_header_roundtrip and set_cookie_roundtrip (response cookies with attributes, one header per cookie); "
                  "multipart_roundtrip_partial (encode_multipart/decode_multipart as implemented — bytes.split on --boundary, splitlines, the "
                  "name regex, join — for every part list with keys free of quote/CR/LF, values free of CR/LF and no delimiter inside a written "
                  "part: the decoded pairs are the encoded ones, by induction over the list), noEarly_piece and multipart_roundtrip (the same with "
                  "every guard on the INPUT: boundary without CR and double quote, and --boundary occurring in no key, value or content type; "
                  "the encoder's refusal is derived too) and multipart_roundtrip_counterexample (F-C34a); "
                  "form_view_roundtrip (urlencoded form: pairs read back, content type reset to the bare form type whatever charset it carried, "
                  "write-back is the identity; query_view_roundtrip is its query analogue on abstract target components and, given the law, true by "
                  "the shape of the definitions — the evidence for the query view is query_view_roundtrip_target); "
                  "the write-back clause view by view (request cookies: view_writeback_idempotent for all headers; query: query_writeback_partial + "
                  "query_writeback_counterexample F-C34g; form: form_writeback_counterexample F-C34e next to form_view_roundtrip; response cookies: "
                  "set_cookie_writeback_partial + set_cookie_writeback_counterexample F-C34f; path components: "
                  "path_components_writeback_counterexample F-C34d), each false clause with its full statement as a def; "
                  "path_components_roundtrip and query_view_roundtrip_target on the RAW request target (urlparse's cutting at # ? and ;params "
                  "imported from the C33 transcription, urlunparse's re-assembly; quote/unquote resp. urlencode/parse_qsl as parameters with laws): "
                  "any non-empty components assigned to any target (leading //, ;params, several ?, #, *) read back, params/query/fragment kept. "
                  "Cookie, Set-Cookie (incl. the one-header-per-cookie view wrappers getSetCookies/setSetCookies: scview/scset), multipart, url.encode's "
                  "style imitation and the form view's content-type test and header reset (formglue) are tied differentially to the real functions and views; all "
                  "six views are checked on the real Request/Response objects by the oracle.")
    level_note = ("PARTIAL: in the multipart theorems encoder and decoder use the same boundary (F-C34c is the case where urllib.quote changes it); "
                  "the delimiter guard of multipart_roundtrip_partial is now derived from input-level conditions (noEarly_piece, multipart_roundtrip). form_view_roundtrip and query_view_roundtrip assume the "
                  "urllib laws (parse_qsl (urlencode ps) = ps; urlencode writes no parameter without '='; the bare form content type decodes "
                  "ASCII bytes back) and the guard that the existing body has no bare parameter (else F-C34e). path_components_roundtrip assumes "
                  "QuoteLaw (unquote inverts quote; a quoted component has none of / ; ? #; only '' quotes to ''); write-back of path_components is "
                  "NOT the identity (F-C34d) and has no theorem. The target model is tied by the tparts/tset driver ops (target cases). Set-Cookie write-back of arbitrary received headers is not idempotent (F-C34f). "
                  "Findings: F-C34a CR/LF in multipart values dropped (encoder's extra blank line is pinned by test_multipart, so the decoder "
                  "cannot be repaired alone), F-C34b multipart keys with a double quote/CR/LF truncated, F-C34c boundary characters that "
                  "urllib.quote escapes, F-C34d path_components write-back collapses empty segments / trailing slash, F-C34e ('','') form "
                  "pair erased in bare-parameter style, F-C34f Set-Cookie write-back of expires/path values holding ';' ',' or a leading "
                  "quote (its former 'short expires value swallows the next pair' part was repaired in /repo by e0e81be4a + 8cc872297, which the "
                  "model now follows), F-C34g query/path_components write-back replaces the asterisk-form target. str.lower() is modelled as ASCII "
                  "lower-casing; empty path components, empty multipart keys, a multipart content type without a lower-case boundary "
                  "parameter, and cookie names containing ';' '=' or leading whitespace are not representable in the wire format.")
    technique = "Lean 4 proof (induction over pair lists / header strings) + differential correspondence on cookies.py, multipart.py and the views"
    rule = ("pair lists (0–4 pairs) over an alphabet of separators (; = , \" \\ space tab CR LF), controls, Latin-1/BMP/astral characters and "
            "surrogate-escaped bytes for each view: request cookies, response cookies with attributes (expires/path/unary), urlencoded form "
            "(with and without an existing body), multipart form (10 boundaries incl. browser styles and ones urllib.quote changes; values with "
            "CR/LF, quotes, boundary look-alikes), query and path components; plus raw Cookie / Set-Cookie header strings and raw multipart "
            "bodies for the parsers; wb cases: request targets of every URL-significant shape (leading // and ///, :// inside, ;params, "
            "#fragment, a second ?, empty, *, %2F, non-ASCII, surrogate-escaped bytes) on which the query and path_components views are read "
            "against an independent reading of the target and every view (query, path_components, cookies, urlencoded_form, multipart_form) is "
            "written back with its current value, comparing the target's meaning (segments, parameters, query pairs, fragment), host, port, "
            "scheme, authority and Host header before and after; the same targets under set-then-get of generated pairs; form views start from "
            "messages whose content-type carries parameters (charset absent/utf-8/latin-1/utf-16le/utf-16be/utf-32le/cp037/cp500/unknown/quoted, "
            "extra and upper-case parameter names, non-form types) with existing bodies written consistently or inconsistently with them, both "
            "for set-then-get and for write-back of the existing view (formwb); multipart content types with charset/extra/upper-case parameters. "
            "target cases: the same request targets under http/https/other schemes, tying the model's reading of the target (path, ;params, "
            "query, fragment) and its path_components / query setters to urlparse(request.url) and the real setters; "
            "hist cases: two or three messages with identical Set-Cookie / Cookie lines, query, form or multipart body, or path; on the first one the "
            "view is read, the objects it hands out are edited in place (CookieAttrs set/add, list items), written back, assigned new pairs "
            "or (responses) refresh()ed, and after every step every untouched message must still read what its raw data says (input-derived), "
            "keep its raw data, survive a write-back of its own view, and a fresh message assigned the same pairs must read them back. "
            "distinct = distinct case; non-trivial = non-empty list/header.")
    budget = {"quick": 8000, "thorough": 250000}
    time_budget = {"quick": 30, "thorough": 420}
    fingerprints = ["mitmproxy.net.http.cookies:_read_until", "mitmproxy.net.http.cookies:_read_quoted_string", "mitmproxy.net.http.cookies:_read_key",
                    "mitmproxy.net.http.cookies:_read_value", "mitmproxy.net.http.cookies:_read_cookie_pairs",
                    "mitmproxy.net.http.cookies:_read_set_cookie_pairs", "mitmproxy.net.http.cookies:_has_special",
                    "mitmproxy.net.http.cookies:_format_pairs", "mitmproxy.net.http.cookies:_format_set_cookie_pairs",
                    "mitmproxy.net.http.cookies:parse_cookie_header", "mitmproxy.net.http.cookies:parse_cookie_headers",
                    "mitmproxy.net.http.cookies:format_cookie_header", "mitmproxy.net.http.cookies:parse_set_cookie_header",
                    "mitmproxy.net.http.cookies:format_set_cookie_header", "mitmproxy.net.http.multipart:encode_multipart",
                    "mitmproxy.net.http.multipart:decode_multipart", "mitmproxy.net.http.url:encode", "mitmproxy.net.http.url:decode",
                    "mitmproxy.net.http.url:quote", "mitmproxy.net.http.url:unquote", "mitmproxy.http:Request._get_query",
                    "mitmproxy.http:Request._set_query", "mitmproxy.http:Request._get_cookies", "mitmproxy.http:Request._set_cookies",
                    "mitmproxy.http:Request.path_components", "mitmproxy.http:Request._get_urlencoded_form",
                    "mitmproxy.http:Request._set_urlencoded_form", "mitmproxy.http:Request._get_multipart_form",
                    "mitmproxy.http:Request._set_multipart_form", "mitmproxy.http:Response._get_cookies", "mitmproxy.http:Response._set_cookies",
                    "mitmproxy.coretypes.multidict:MultiDictView.fields"]
    trusted_base = ["urllib.parse urlencode/parse_qsl/quote/unquote/urlparse/urlunparse (parameters with the laws parse_qsl(urlencode ps) = ps, "
                    "unquote(quote c) = c)", "mimetypes.guess_type, parse_content_type and urllib.quote of the boundary (answers passed to the model)",
                    "CPython re / bytes.split / bytes.splitlines as transcribed in Model/C34.lean", "str.lower() = ASCII lower-casing on the inputs considered"]
    parallel = False

    # ------------------------------------------------------------------ tables
    def translate(self):
        sp = [c for c in range(sys.maxunicode + 1) if chr(c).isspace()]
        src = ("-- generated by harness/c34.py from the running interpreter: code points with str.isspace()\n"
               "namespace MitmVerif.Gen.C34\n"
               "def pySpace : List Nat := [" + ", ".join(map(str, sp)) + "]\n"
               "/-- inclusive ranges of code points with str.isalpha() -/\n"
               "def pyAlphaRanges : List (Nat × Nat) := [" + ", ".join("(%d, %d)" % r for r in self._alpha_ranges()) + "]\n"
               "end MitmVerif.Gen.C34\n")
        return {"MitmVerif/Gen/C34.lean": src}

    @staticmethod
    def _alpha_ranges():
        r, start = [], None
        for c in range(sys.maxunicode + 2):
            a = c <= sys.maxunicode and chr(c).isalpha()
            if a and start is None: start = c
            if not a and start is not None: r.append((start, c - 1)); start = None
        return r

    # ------------------------------------------------------------------ generator
    def _s(self, rng, alpha, lo=0, hi=4):
        return "".join(rng.pick(alpha) for _ in range(rng.randint(lo, hi)))

    def _sane(self, s):
        return s.encode("utf8", "surrogateescape").decode("utf8", "surrogateescape")

    def _ck_pairs(self, rng):
        out = []
        for _ in range(rng.randint(0, 4)):
            k = self._s(rng, CK_ALPHA, 0, 3)
            if rng.chance(0.8): k = "".join(c for c in k if c not in ";=").lstrip() or rng.pick(["a", "sid", ""])
            out.append([self._sane(k), self._sane(self._s(rng, CK_ALPHA, 0, 4))])
        return out

    def _sc(self, rng):
        name = self._s(rng, CK_ALPHA, 0, 2)
        if rng.chance(0.85): name = "".join(c for c in name if c not in ";=,").lstrip() or "sid"
        attrs = []
        for _ in range(rng.randint(0, 3)):
            r = rng.random()
            if r < 0.25: attrs.append([rng.pick(["expires", "Expires"]), rng.pick(["Thu, 01 Jan 2030 00:00:00 GMT", "Wed, 09-Jun-2021 10:18:14 GMT", "soon", "x", "Thu"])])
            elif r < 0.45: attrs.append([rng.pick(["path", "Path"]), rng.pick(["/", "/a b", "/a;b", "/a,b", '"/q"', "/é"])])
            elif r < 0.65: attrs.append([rng.pick(["HttpOnly", "Secure", "x"]), None])
            else:
                k = self._s(rng, CK_ALPHA, 0, 2)
                if rng.chance(0.85): k = "".join(c for c in k if c not in ";=,").lstrip() or "k"
                attrs.append([self._sane(k), self._sane(self._s(rng, CK_ALPHA, 0, 3))])
        return [self._sane(name), self._sane(self._s(rng, CK_ALPHA, 0, 4)), attrs]

    def _mp_parts(self, rng):
        out = []
        for _ in range(rng.randint(0, 3)):
            k = b"".join(rng.pick(MP_ALPHA) for _ in range(rng.randint(0, 2)))
            if rng.chance(0.85): k = bytes(c for c in k if c not in b'"\r\n') or b"field"
            elif b'"' in k and any(c in k for c in b"\r\n"): k = k.replace(b"\r", b"").replace(b"\n", b"")
            v = b"".join(rng.pick(MP_ALPHA) for _ in range(rng.randint(0, 4)))
            if rng.chance(0.6): v = v.replace(b"\r", b"").replace(b"\n", b"")
            out.append([hx(k), hx(v)])
        return out

    def _wide_path(self, rng, star=True):
        """request targets of every URL-significant shape: leading // and ///, `://` inside, ;params, #fragment, a second ?, empty,
        `*`, percent-encoded slashes, non-ASCII and surrogate-escaped bytes"""
        if rng.chance(0.3):
            p = rng.pick(WIDE_PATHS)
            return p if (star or p != "*") else "/"
        n = rng.randint(0, 4)
        out = rng.pick(["/", "/", "//", "///"] + ([""] if n == 0 else [])) + "/".join(rng.pick(SEGS) for _ in range(n))
        if n and rng.chance(0.2): out += rng.pick([";k=v", ";k", ";"])
        if rng.chance(0.6): out += "?" + rng.pick(["v=1", "v=1&lang=en", "x", "", "a=1&&b=2", "a=b=c", "q=é", "u=http://h/p?w=1", "a+b=c%20d", "=", "x=1&x=2"])
        if rng.chance(0.15): out += "?" + rng.pick(["b=2", ""])
        if rng.chance(0.2): out += "#" + rng.pick(["f", "", "f?x=1", "a/b"])
        return out

    def _pairs(self, rng):
        return [[self._sane(self._s(rng, STR_ALPHA, 0, 3)), self._sane(self._s(rng, STR_ALPHA, 0, 3))] for _ in range(rng.randint(0, 4))]

    def generate(self, rng, tier):
        small = ["", "a", " ", ";", "=", '"', "\\", ",", "é"]
        for k, v in itertools.product(small, repeat=2):
            yield {"k": "cookie", "pairs": [[k, v]]}
            yield {"k": "cookie", "pairs": [["x", "1"], [k, v], ["y", "2"]]}
        for t in itertools.product(["a", "=", ";", '"', "\\", " ", ","], repeat=4 if tier == "thorough" else 3):
            yield {"k": "cookiehdr", "hdrs": ["".join(t)]}
            yield {"k": "setcookiehdr", "hdrs": ["".join(t)]}
        for v in [b"", b"v", b"l1\r\nl2", b"l1\nl2", b"l1\rl2", b"v\r\n", b"\r\nv", b"--XX", b"a--XXb", b"\x0b\x0c\x85"]:
            for k in [b"k", b"", b'k"q', b"a\r\nb", b"a.png"]:
                yield {"k": "multipart", "ct": "multipart/form-data; boundary=XX", "parts": [[hx(k), hx(v)]], "body0": None}
        for ct in FORM_CTS:
            for body0 in ("old=body", "a&b=2"):
                for benc in (form_charset(ct), "ascii"):
                    yield {"k": "form", "pairs": [["a", "1"], ["b", "2"]], "body0": body0, "ct": ct, "benc": benc}
                    yield {"k": "formwb", "body0": body0, "ct": ct, "benc": benc}
        for ct in MP_CT_PARAMS:
            yield {"k": "multipart", "ct": ct, "parts": [[hx(b"k"), hx(b"v")], [hx(b"k2"), hx(b"")]], "body0": None}
        for view in HIST_VIEWS:
            for ops in (["mutate"], ["writeback"], ["assign"], ["mutate", "writeback"], ["read", "mutate", "assign"]) + \
                    ((["refresh"], ["mutate", "refresh"]) if view == "respcookies" else ()):
                yield {"k": "hist", "view": view, "pairs": [["sid", "abc123"], ["k2", "v2"]], "ops": list(ops), "n": 2}
        for p0 in WIDE_PATHS:
            yield {"k": "target", "path0": p0, "scheme": "http", "comps": ["x", "y z"], "pairs": [["k", "v"]]}
        for p0 in WIDE_PATHS:
            yield {"k": "wb", "path0": p0}
            if p0 != "*":
                yield {"k": "query", "pairs": [["k", "v"], ["a b", "c&d"]], "path0": p0}
                yield {"k": "path", "comps": ["x", "y z"], "path0": p0}
        while True:
            r = rng.random()
            if r < 0.05:
                view = rng.pick(HIST_VIEWS)
                tok = lambda: "".join(rng.pick("abcxyz019") for _ in range(rng.randint(1, 5)))
                ops = [rng.pick(["mutate", "writeback", "assign", "read"] + (["refresh", "refresh"] if view == "respcookies" else []))
                       for _ in range(rng.randint(1, 4))]
                yield {"k": "hist", "view": view, "pairs": [[tok(), tok()] for _ in range(rng.randint(1, 3))], "ops": ops, "n": rng.randint(2, 3)}
            elif r < 0.08: yield {"k": "wb", "path0": self._wide_path(rng)}
            elif r < 0.12:
                yield {"k": "target", "path0": self._wide_path(rng), "scheme": rng.pick(["http", "https", "http", "gopher", "ws"]),
                       "comps": [self._sane(self._s(rng, STR_ALPHA, 0, 3)) for _ in range(rng.randint(0, 3))], "pairs": self._pairs(rng)}
            elif r < 0.22: yield {"k": "cookie", "pairs": self._ck_pairs(rng)}
            elif r < 0.32: yield {"k": "cookiehdr", "hdrs": [self._sane(self._s(rng, CK_ALPHA, 0, 8)) for _ in range(rng.randint(1, 2))]}
            elif r < 0.47: yield {"k": "setcookie", "cookies": [self._sc(rng) for _ in range(rng.randint(0, 2))]}
            elif r < 0.55: yield {"k": "setcookiehdr", "hdrs": [self._sane(self._s(rng, CK_ALPHA + ["=", ";", ",", "expires=", "; "], 0, 9)) for _ in range(rng.randint(1, 2))]}
            elif r < 0.72:
                ct = rng.pick([None, None, "text/plain"] + ["multipart/form-data; boundary=" + b for b in BOUNDARIES] + MP_CT_PARAMS)
                yield {"k": "multipart", "ct": ct, "parts": self._mp_parts(rng), "body0": None}
            elif r < 0.78:
                b = rng.pick(["XX", "a", "----B1"])
                body = b"".join(rng.pick(MP_ALPHA + [b"--" + b.encode(), b"\r\n", b'Content-Disposition: form-data; name="k"', b"\r\n\r\n", b"--\r\n"]) for _ in range(rng.randint(0, 9)))
                yield {"k": "mpbody", "ct": "multipart/form-data; boundary=" + b, "body_hex": hx(body)}
            elif r < 0.86: yield {"k": "query", "pairs": self._pairs(rng), "path0": self._wide_path(rng, star=False) if rng.chance(0.6) else rng.pick(["/p", "/p?x=1", "/p;k?x=1&y#f", "/", "/a%20b?%zz"])}
            elif r < 0.94:
                ct = rng.pick(FORM_CTS)
                benc = form_charset(ct) if rng.chance(0.7) else rng.pick(["ascii", "utf-16le", "cp037", "utf-8"])
                if rng.chance(0.65): yield {"k": "form", "pairs": self._pairs(rng), "body0": rng.pick(FORM_BODIES), "ct": ct, "benc": benc}
                else: yield {"k": "formwb", "body0": rng.pick(FORM_BODIES[1:]), "ct": ct, "benc": benc}
            else: yield {"k": "path", "comps": [self._sane(self._s(rng, STR_ALPHA, 0, 3)) for _ in range(rng.randint(0, 4))],
                         "path0": self._wide_path(rng, star=False) if rng.chance(0.6) else rng.pick(["/p", "/p?x=1", "/p;k?x=1#f"])}

    # ------------------------------------------------------------------ implementation
    @staticmethod
    def _req(path=b"/p", headers=(), content=b""):
        hs = http.Headers(); hs.fields = tuple(headers)
        return http.Request("example.com", 80, b"POST", b"http", b"", path, b"HTTP/1.1", hs, content, None, 0, 0)

    @staticmethod
    def _resp(headers=()):
        hs = http.Headers(); hs.fields = tuple(headers)
        return http.Response(b"HTTP/1.1", 200, b"OK", hs, b"", None, 0, 0)

    # ---- histories over several messages with identical content: what one message's view hands out must not leak into another ----
    @staticmethod
    def _hist_make(view, pairs):
        """a message whose raw header/body/path spells `pairs` in the plainest way, and the view value that spelling denotes"""
        if view == "respcookies":
            lines = ["%s=%s; Path=/app; Expires=%s; HttpOnly" % (a, b, HIST_EXPIRES) for a, b in pairs]
            m = Check._resp([(b"Set-Cookie", l.encode()) for l in lines])
            want = [[a, b, [["Path", "/app"], ["Expires", HIST_EXPIRES], ["HttpOnly", None]]] for a, b in pairs]
            return m, want
        if view == "reqcookies":
            return Check._req(headers=[(b"Cookie", "; ".join("%s=%s" % (a, b) for a, b in pairs).encode())]), [list(p) for p in pairs]
        if view == "query":
            return Check._req(path=("/p?" + "&".join("%s=%s" % (a, b) for a, b in pairs)).encode()), [list(p) for p in pairs]
        if view == "form":
            return Check._req(headers=[(b"content-type", b"application/x-www-form-urlencoded")],
                              content="&".join("%s=%s" % (a, b) for a, b in pairs).encode()), [list(p) for p in pairs]
        if view == "multipart":
            body = b"".join(b'--BB\r\nContent-Disposition: form-data; name="%s"\r\n\r\n%s\r\n' % (a.encode(), b.encode()) for a, b in pairs) + b"--BB--\r\n"
            return Check._req(headers=[(b"content-type", b"multipart/form-data; boundary=BB")], content=body), [[a, b] for a, b in pairs]
        return Check._req(path=("/" + "/".join(a for a, _ in pairs) + "?x=1").encode()), [a for a, _ in pairs]

    @staticmethod
    def _hist_read(view, m):
        if view == "respcookies": return [[n, v, [[a, b] for a, b in attrs.fields]] for n, (v, attrs) in m.cookies.fields]
        if view == "reqcookies": return [[a, b] for a, b in m.cookies.fields]
        if view == "query": return [list(p) for p in m.query.fields]
        if view == "form": return [list(p) for p in m.urlencoded_form.fields]
        if view == "multipart": return [[a.decode(), b.decode()] for a, b in m.multipart_form.fields]
        return list(m.path_components)

    @staticmethod
    def _hist_raw(view, m):
        if view == "respcookies": return m.headers.get_all("set-cookie")
        if view == "reqcookies": return m.headers.get_all("cookie")
        if view in ("form", "multipart"): return [m.headers.get("content-type"), m.raw_content.decode("latin-1")]
        return [m.path]

    @staticmethod
    def _hist_attr(view):
        return {"respcookies": "cookies", "reqcookies": "cookies", "query": "query", "form": "urlencoded_form", "multipart": "multipart_form"}.get(view)

    def _hist_mutate(self, view, m):
        """edit in place whatever the view handed out (documented to have no effect unless it is assigned back)"""
        if view == "path":
            x = m.path_components
            try: x += ("zz",)
            except Exception: pass
            return
        fields = getattr(m, self._hist_attr(view)).fields
        for item in fields:
            if view == "respcookies":
                attrs = item[1][1]
                attrs["Max-Age"] = "0"; attrs["Secure"] = None; attrs["Path"] = "/evil"
                attrs.set_all("Expires", ["Thu, 01 Jan 1970 00:00:00 GMT"])
            elif isinstance(item, list):
                item[:] = ["mut", "ated"]
        if isinstance(fields, list):
            fields.append(("mut", "ated") if view != "multipart" else (b"mut", b"ated"))

    def _hist(self, case):
        import time
        view, pairs, n = case["view"], [tuple(p) for p in case["pairs"]], max(2, case.get("n", 2))
        msgs = []
        for _ in range(n):
            m, want = self._hist_make(view, pairs)
            msgs.append(m)
        A, others = msgs[0], msgs[1:]
        raw0 = self._hist_raw(view, others[0])
        other_pairs = [("n" + a, b + "2") for a, b in pairs]
        obs = {"want": want, "steps": []}
        assigned = None
        for op in case["ops"]:
            if op == "read": self._hist_read(view, A)
            elif op == "mutate": self._hist_mutate(view, A)
            elif op == "refresh":
                A.timestamp_start = time.time() - 7 * 24 * 3600
                A.refresh()
            elif op == "writeback":
                if view == "path": A.path_components = A.path_components
                else: setattr(A, self._hist_attr(view), getattr(A, self._hist_attr(view)).fields)
            elif op == "assign":
                X, wantX = self._hist_make(view, other_pairs)
                if view == "path": val = tuple(X.path_components)
                else: val = getattr(X, self._hist_attr(view)).fields
                if view == "path": A.path_components = val
                else: setattr(A, self._hist_attr(view), val)
                assigned = (val, wantX)
            obs["steps"].append({"op": op, "others": [self._hist_read(view, o) for o in others],
                                 "raw_same": all(self._hist_raw(view, o) == raw0 for o in others)})
        # A itself, when it was only read or edited in place (nothing assigned, written back or refreshed)
        obs["A_untouched"] = all(op in ("read", "mutate") for op in case["ops"])
        obs["A"] = self._hist_read(view, A)
        # writing the untouched message's own view back changes nothing
        B = others[0]
        if view == "path": B.path_components = B.path_components
        else: setattr(B, self._hist_attr(view), getattr(B, self._hist_attr(view)).fields)
        obs["B_after_wb"] = self._hist_read(view, B)
        obs["B_raw_after_wb_same"] = self._hist_raw(view, B) == raw0
        # the value assigned to A earlier, assigned to a fresh message, reads back as assigned
        if assigned is not None:
            D, _ = self._hist_make(view, pairs)
            if view == "path": D.path_components = assigned[0]
            else: setattr(D, self._hist_attr(view), assigned[0])
            obs["D"] = self._hist_read(view, D); obs["D_want"] = assigned[1]
        return obs

    def _isform_probe(self, hd):
        """does the real getter take a request with these headers for an urlencoded form? (body x=1 under its own content type)"""
        return len(self._req(headers=hd, content=b"x=1").urlencoded_form.fields) > 0

    @staticmethod
    def _text_seen_by_setter(r):
        """the existing body as _set_urlencoded_form reads it for its similar_to style: decoded after the content-type has been reset to the
        bare form type (classification data for F-C34e only)"""
        c = r.copy()
        c.headers["content-type"] = "application/x-www-form-urlencoded"
        return c.get_text(strict=False)

    @staticmethod
    def _ckview(m):
        return [[a, b] for a, b in m.cookies.fields]

    @staticmethod
    def _scview(m):
        return [[n, v, [[a, b] for a, b in attrs.fields]] for n, (v, attrs) in m.cookies.fields]

    def impl(self, case):
        k = case["k"]
        if k == "cookie":
            r = self._req()
            r.cookies = [tuple(p) for p in case["pairs"]]
            hdr = r.headers.get_all("cookie")
            back = self._ckview(r)
            r.cookies = r.cookies.fields
            return {"hdr": hdr, "back": back, "hdr2": r.headers.get_all("cookie"), "back2": self._ckview(r)}
        if k == "cookiehdr":
            r = self._req(headers=[(b"Cookie", h.encode("utf8", "surrogateescape")) for h in case["hdrs"]])
            v1 = self._ckview(r)
            r.cookies = r.cookies.fields
            return {"view": v1, "hdr2": r.headers.get_all("cookie"), "view2": self._ckview(r)}
        if k == "setcookie":
            m = self._resp()
            m.cookies = [(n, (v, nck.CookieAttrs([tuple(a) for a in attrs]))) for n, v, attrs in case["cookies"]]
            hdr = m.headers.get_all("set-cookie")
            back = self._scview(m)
            m.cookies = m.cookies.fields
            return {"hdr": hdr, "back": back, "back2": self._scview(m)}
        if k == "setcookiehdr":
            m = self._resp([(b"Set-Cookie", h.encode("utf8", "surrogateescape")) for h in case["hdrs"]])
            v1 = self._scview(m)
            m.cookies = m.cookies.fields
            return {"view": v1, "view2": self._scview(m)}
        if k == "multipart":
            hd = [] if case["ct"] is None else [(b"content-type", case["ct"].encode())]
            r = self._req(headers=hd)
            parts = [(unhx(a), unhx(b)) for a, b in case["parts"]]
            try:
                r.multipart_form = parts
            except ValueError:
                return {"set": "ValueError"}
            ct2 = r.headers.get("content-type", "")
            body = r.raw_content
            back = [[hx(a), hx(b)] for a, b in r.multipart_form.fields]
            try:
                r.multipart_form = r.multipart_form.fields
                back2 = [[hx(a), hx(b)] for a, b in r.multipart_form.fields]
            except ValueError:
                back2 = "ValueError"
            return {"set": "ok", "ct2": ct2, "body_hex": hx(body), "back": back, "back2": back2}
        if k == "mpbody":
            try:
                d = nmp.decode_multipart(case["ct"], unhx(case["body_hex"]))
                return {"dec": [[hx(a), hx(b)] for a, b in d]}
            except ValueError:
                return {"dec": "ValueError"}
        if k == "hist":
            return self._hist(case)
        if k == "target":
            import urllib.parse
            pb = case["path0"].encode("utf8", "surrogateescape")
            mk = lambda: http.Request("example.com", 80, b"GET", case["scheme"].encode(), b"", pb, b"HTTP/1.1", http.Headers(), b"", None, 0, 0)
            r = mk()
            parts = list(urllib.parse.urlparse(r.url)[2:])
            r.path_components = list(case["comps"]); p_pc = r.path
            r = mk(); r.query = [tuple(p) for p in case["pairs"]]
            return {"parts": parts, "path_pc": p_pc, "path_q": r.path}
        if k == "wb":
            pb = case["path0"].encode("utf8", "surrogateescape")
            hd = [(b"Host", b"example.com"), (b"Cookie", b"a=1; b=\"x y\"")]
            snap = lambda r: {"path": r.path, "url": r.url, "host": r.host, "port": r.port, "scheme": r.scheme, "auth": r.authority,
                              "hosthdr": r.headers.get("Host")}
            r = self._req(path=pb, headers=hd)
            obs = {"base": snap(r), "q": [list(x) for x in r.query.fields], "pc": list(r.path_components), "after": {}}
            for view in ("query", "path_components", "cookies", "urlencoded_form", "multipart_form"):
                r = self._req(path=pb, headers=hd)
                try:
                    if view == "path_components": r.path_components = r.path_components
                    else: setattr(r, view, getattr(r, view).fields)
                    st = snap(r)
                    st["q"] = [list(x) for x in r.query.fields]; st["pc"] = list(r.path_components)
                    obs["after"][view] = st
                except Exception as e:
                    obs["after"][view] = {"exc": type(e).__name__}
            return obs
        if k == "query":
            r = self._req(path=case["path0"].encode("utf8", "surrogateescape"))
            r.query = [tuple(p) for p in case["pairs"]]
            back = [list(p) for p in r.query.fields]
            p1 = r.path
            r.query = r.query.fields
            return {"back": back, "path": p1, "path2": r.path, "back2": [list(p) for p in r.query.fields]}
        if k == "formwb":
            hd = [] if case["ct"] is None else [(b"content-type", case["ct"].encode())]
            r = self._req(headers=hd, content=case["body0"].encode(case.get("benc") or "utf-8"))
            v0 = [list(p) for p in r.urlencoded_form.fields]
            text0 = self._text_seen_by_setter(r)
            r.urlencoded_form = r.urlencoded_form.fields
            return {"v0": v0, "text0": text0, "v1": [list(p) for p in r.urlencoded_form.fields], "ct2": r.headers.get("content-type"),
                    "body_hex": hx(r.raw_content), "isform": self._isform_probe(hd)}
        if k == "form":
            hd = [] if case["ct"] is None else [(b"content-type", case["ct"].encode())]
            r = self._req(headers=hd, content=b"" if case["body0"] is None else case["body0"].encode(case.get("benc") or "utf-8"))
            text0 = self._text_seen_by_setter(r)
            r.urlencoded_form = [tuple(p) for p in case["pairs"]]
            back = [list(p) for p in r.urlencoded_form.fields]
            b1 = r.raw_content
            r.urlencoded_form = r.urlencoded_form.fields
            return {"back": back, "body_hex": hx(b1), "back2": [list(p) for p in r.urlencoded_form.fields], "ct2": r.headers.get("content-type"),
                    "text0": text0, "isform": self._isform_probe(hd)}
        if k == "path":
            r = self._req(path=case["path0"].encode("utf8", "surrogateescape"))
            q0 = [list(p) for p in r.query.fields]
            r.path_components = list(case["comps"])
            back = list(r.path_components)
            p1 = r.path
            r.path_components = r.path_components
            return {"back": back, "path": p1, "path2": r.path, "q0": q0, "q1": [list(p) for p in r.query.fields]}
        raise ValueError(k)

    # ------------------------------------------------------------------ the property on the implementation
    def oracle(self, case, obs):
        k = case["k"]
        fails = []
        if k == "cookie":
            want = case["pairs"]
            # "assigning it to a request's … cookies … and reading the view back yields the same pairs in the same order"
            if ck_representable(want) and obs["back"] != want:
                fails.append("cookie: %r reads back as %r (header %r)" % (want, obs["back"], obs["hdr"]))
            # "writing a view's current value back leaves the message's meaning unchanged"
            if obs["back2"] != obs["back"]:
                fails.append("cookie-writeback: view %r became %r" % (obs["back"], obs["back2"]))
        elif k == "cookiehdr":
            if obs["view2"] != obs["view"]:
                fails.append("cookie-writeback: view %r of %r became %r" % (obs["view"], case["hdrs"], obs["view2"]))
        elif k == "setcookie":
            want = [[n, v, attrs] for n, v, attrs in case["cookies"]]
            if all(sc_representable(n, v, a) for n, v, a in case["cookies"]) and obs["back"] != want:
                fails.append("setcookie: %r reads back as %r (headers %r)" % (want, obs["back"], obs["hdr"]))
            if obs["back2"] != obs["back"]:
                fails.append("setcookie-writeback: view %r became %r" % (obs["back"], obs["back2"]))
        elif k == "setcookiehdr":
            if obs["view2"] != obs["view"]:
                fails.append("setcookie-writeback: view %r of %r became %r" % (obs["view"], case["hdrs"], obs["view2"]))
        elif k == "multipart":
            if obs["set"] != "ok": return []          # the encoder refuses a value equal to the delimiter line: allowed
            parts = [(unhx(a), unhx(b)) for a, b in case["parts"]]
            # an existing multipart content type (and with it the boundary the request carries) is left alone by the setter
            if (case["ct"] or "").lower().startswith("multipart/form-data") and obs["ct2"] != case["ct"]:
                return ["multipart[other]: the setter rewrote the Content-Type %r to %r" % (case["ct"], obs["ct2"])]
            bnd = self._boundary(obs["ct2"])
            delim = b"--" + (bnd or b"")
            rep = bnd is not None and all(kk != b"" and delim not in kk and delim not in vv for kk, vv in parts)
            if rep and obs["back"] != case["parts"]:
                tag = self._mp_tag(case, obs, parts, bnd)
                fails.append("multipart[%s]: %r reads back as %r" % (tag, parts, [(unhx(a), unhx(b)) for a, b in obs["back"]]))
            elif obs["back2"] != obs["back"]:
                got = [(unhx(a), unhx(b)) for a, b in obs["back"]]
                rep2 = all(kk != b"" and delim not in kk and delim not in vv for kk, vv in got)
                if rep2:
                    fails.append("multipart-writeback[%s]: view %r became %r" % (self._mp_tag(case, obs, got, bnd), got, obs["back2"]))
        elif k == "hist":
            # a view is a function of ITS message: "reading the view back yields the same pairs" must hold for an untouched message whatever
            # happened to other messages with the same content, and for a message whose handed-out objects were only edited in place
            want = obs["want"]
            for i, st in enumerate(obs["steps"]):
                for j, v in enumerate(st["others"]):
                    if v != want:
                        fails.append("hist: after %r on message A, untouched message #%d with the same %s reads %r, its raw data says %r" %
                                     (case["ops"][:i + 1], j + 1, case["view"], v, want)); break
                if not st["raw_same"]:
                    fails.append("hist: after %r on message A the raw data of an untouched message changed" % (case["ops"][:i + 1],))
                if fails: break
            if not fails:
                if obs["A_untouched"] and obs["A"] != want:
                    fails.append("hist: editing the objects handed out by the %s view in place changed the view: %r, raw data says %r" % (case["view"], obs["A"], want))
                if obs["B_after_wb"] != want or (not obs["B_raw_after_wb_same"] and case["view"] in ("respcookies", "reqcookies", "query", "path")):
                    fails.append("hist: writing the untouched message's own %s view back changed it: %r (raw data same: %r)" % (case["view"], obs["B_after_wb"], obs["B_raw_after_wb_same"]))
                if "D" in obs and obs["D"] != obs["D_want"]:
                    fails.append("hist: the pairs assigned to message A, assigned to a fresh message, read back as %r instead of %r" % (obs["D"], obs["D_want"]))
        elif k == "wb":
            p0, base = case["path0"], obs["base"]
            # the views read the request target as it stands
            if obs["q"] != ref_query(p0):
                fails.append("read-query: %r has the query %r, the view shows %r" % (p0, ref_query(p0), obs["q"]))
            if obs["pc"] != ref_components(p0):
                fails.append("read-path: %r has the components %r, the view shows %r" % (p0, ref_components(p0), obs["pc"]))
            # "writing a view's current value back leaves the message's meaning unchanged"
            m0 = meaning(p0)
            for view, st in obs["after"].items():
                if "exc" in st:
                    fails.append("wb-%s[other]: writing the view back on %r raised %s" % (view, p0, st["exc"])); continue
                for f in ("host", "port", "scheme", "auth", "hosthdr"):
                    if st[f] != base[f]:
                        fails.append("wb-%s[other]: %s changed from %r to %r (target %r)" % (view, f, base[f], st[f], p0))
                m1 = meaning(st["path"])
                if m1 != m0:
                    fails.append("wb-%s[%s]: target %r became %r" % (view, self._wb_tag(view, p0, m0, m1), p0, st["path"]))
                elif st["q"] != obs["q"] or (st["pc"] != obs["pc"]):
                    fails.append("wb-%s[other]: views of %r changed: query %r -> %r, components %r -> %r" % (view, p0, obs["q"], st["q"], obs["pc"], st["pc"]))
        elif k == "query":
            m0, m1 = meaning(case["path0"]), meaning(obs["path"])
            if m1[0] != m0[0] or m1[1] != m0[1] or m1[3] != m0[3]:
                fails.append("query: assigning the query of %r changed the rest of the target: %r" % (case["path0"], obs["path"]))
            if obs["back"] != case["pairs"]:
                fails.append("query: %r reads back as %r (path %r)" % (case["pairs"], obs["back"], obs["path"]))
            if obs["path2"] != obs["path"] or obs["back2"] != obs["back"]:
                fails.append("query-writeback: path %r became %r" % (obs["path"], obs["path2"]))
        elif k == "form":
            if obs["back"] != case["pairs"]:
                bare = bool(obs["text0"]) and any("=" not in p for p in obs["text0"].split("&"))
                tag = "empty-pair-bare-style" if bare and ["", ""] in case["pairs"] and [p for p in case["pairs"] if p != ["", ""]] == obs["back"] else "other"
                fails.append("form[%s]: %r reads back as %r (body %r)" % (tag, case["pairs"], obs["back"], unhx(obs["body_hex"])))
            if obs["back2"] != obs["back"]:
                fails.append("form-writeback: view %r became %r" % (obs["back"], obs["back2"]))
        elif k == "formwb":
            # "writing a view's current value back leaves the message's meaning unchanged"
            if obs["v1"] != obs["v0"]:
                bare = bool(obs["text0"]) and any("=" not in p for p in obs["text0"].split("&"))
                tag = "empty-pair-bare-style" if bare and ["", ""] in obs["v0"] and [p for p in obs["v0"] if p != ["", ""]] == obs["v1"] else "other"
                fails.append("form-writeback[%s]: view %r of body %r under %r became %r (content-type now %r, body %r)" %
                             (tag, obs["v0"], case["body0"], case["ct"], obs["v1"], obs["ct2"], unhx(obs["body_hex"])))
        elif k == "path":
            if all(c != "" for c in case["comps"]) and obs["back"] != case["comps"]:
                fails.append("path: %r reads back as %r (path %r)" % (case["comps"], obs["back"], obs["path"]))
            if obs["path2"] != obs["path"]:
                fails.append("path-writeback[%s]: path %r became %r" % (self._wb_tag("path_components", obs["path"], meaning(obs["path"]), meaning(obs["path2"])), obs["path"], obs["path2"]))
            if obs["q1"] != obs["q0"] or obs["q0"] != ref_query(case["path0"]):
                fails.append("path: query changed from %r (target %r) to %r" % (obs["q0"], case["path0"], obs["q1"]))
            m0, m1 = meaning(case["path0"]), meaning(obs["path"])
            if m1[1:] != m0[1:]:
                fails.append("path: assigning the components of %r changed query/fragment: %r" % (case["path0"], obs["path"]))
        return fails

    @staticmethod
    def _wb_tag(view, p0, m0, m1):
        if p0 == "*": return "asterisk" if view in ("query", "path_components") else "other"
        # F-C34d exactly: path_components written back, and the only change is that empty segments are gone
        if view == "path_components" and m0[1:] == m1[1:] and "" in m0[0][1:] and m0[0] != ["", ""] \
                and [x for x in m0[0] if x != ""] == [x for x in m1[0] if x != ""]:
            return "empty-segment"
        return "other"

    @staticmethod
    def _empty_segment(path):
        import urllib.parse
        segs = urllib.parse.urlparse("http://h" + path).path.split("/")[1:]
        return segs != [""] and "" in segs

    @staticmethod
    def _boundary(ct):
        p = nh.parse_content_type(ct or "")
        if not p or "boundary" not in p[2]: return None
        try:
            return p[2]["boundary"].encode("ascii")
        except UnicodeError:
            return None

    @staticmethod
    def _mp_tag(case, obs, parts, bnd):
        """label for the failure text only; known() re-derives everything from the case and the observation"""
        if _uq(bnd).encode() != bnd: return "boundary-escaped"
        if any(c in kk for kk, _ in parts for c in b'"\r\n'): return "key-quote-or-linebreak"
        if any(c in vv for _, vv in parts for c in b"\r\n"): return "value-linebreak"
        return "other"

    # ---- exact classifiers: each returns a finding id only when the observed read-back is the one the recorded defect predicts ----
    @staticmethod
    def _mp_predict_part(k, v):
        """what decode_multipart is recorded to return for one written part (F-C34a: line breaks of the value dropped; F-C34b: key cut
        at the first double quote, a key with a line break loses the part); None = no recorded prediction for this shape"""
        v2 = b"".join(v.splitlines())
        q, lb = b'"' in k, any(c in k for c in b"\r\n")
        if not q and not lb: return [(k, v2)]
        if q and not lb:
            # the key is written verbatim into  Content-Disposition: form-data; name="<key>"  and read with the name regex
            import re
            m = re.search(rb'\bname="([^"]+)"', b'Content-Disposition: form-data; name="' + k + b'"')
            return [(m.group(1), v2)] if m else []
        if lb and not q: return []
        return None

    def _mp_explain(self, src, got, bnd):
        if bnd is None or any(kk == b"" or (b"--" + bnd) in kk or (b"--" + bnd) in vv for kk, vv in src): return None
        if _uq(bnd).encode() != bnd:
            return "F-C34c" if (got == [] and src) else None            # recorded: every assigned form reads back empty
        preds = [self._mp_predict_part(kk, vv) for kk, vv in src]
        if any(p is None for p in preds): return None
        flat = [x for p in preds for x in p]
        if got != flat or flat == src: return None
        return "F-C34b" if any(c in kk for kk, _ in src for c in b'"\r\n') else "F-C34a"

    @staticmethod
    def _sc_offending(k, v):
        return v is not None and k.lower() in ("expires", "path") and (any(c in v for c in ";,") or v.startswith('"'))

    def _sc_explain(self, view, view2):
        """F-C34f exactly: written back cookie by cookie (one header each), every cookie without an offending expires/path value reads back
        as itself, an offending one keeps its pairs up to the offending pair, and the whole view is the concatenation of those"""
        out, offended = [], False
        for n, v, attrs in view:
            pairs = [(n, v)] + [tuple(a) for a in attrs]
            hdr = nck.format_set_cookie_header([(n, v, nck.CookieAttrs([tuple(a) for a in attrs]))])
            back = [[c[0], c[1], [[a, b] for a, b in c[2].fields]] for c in nck.parse_set_cookie_header(hdr)]
            idx = next((i for i, (kk, vv) in enumerate(pairs) if self._sc_offending(kk, vv)), None)
            if idx is None:
                if back != [[n, v, [list(a) for a in attrs]]]: return None
            else:
                offended = True
                if not back: return None
                first = [(back[0][0], back[0][1])] + [tuple(a) for a in back[0][2]]
                if first[:idx] != pairs[:idx]: return None
            out += back
        return "F-C34f" if offended and out == view2 else None

    def known(self, case, obs, failure):
        k = case["k"]
        if k == "multipart" and obs.get("set") == "ok" and (failure.startswith("multipart[") or failure.startswith("multipart-writeback[")):
            wb = failure.startswith("multipart-writeback[")
            got = obs["back2"] if wb else obs["back"]
            if got == "ValueError": return None
            src = [(unhx(a), unhx(b)) for a, b in (obs["back"] if wb else case["parts"])]
            return self._mp_explain(src, [(unhx(a), unhx(b)) for a, b in got], self._boundary(obs["ct2"]))
        if failure.startswith("setcookie-writeback") and k in ("setcookie", "setcookiehdr"):
            view, view2 = (obs["back"], obs["back2"]) if k == "setcookie" else (obs["view"], obs["view2"])
            return self._sc_explain(view, view2)
        if k == "path" and failure.startswith("path-writeback["):
            m0, m1 = meaning(obs["path"]), meaning(obs["path2"])
            return "F-C34d" if self._wb_tag("path_components", obs["path"], m0, m1) == "empty-segment" else None
        if k == "wb" and failure.startswith("wb-path_components["):
            st = obs["after"]["path_components"]
            if "exc" in st: return None
            if case["path0"] == "*": return "F-C34g" if st["path"] == "/" else None
            m0, m1 = meaning(case["path0"]), meaning(st["path"])
            return "F-C34d" if self._wb_tag("path_components", case["path0"], m0, m1) == "empty-segment" else None
        if k == "wb" and failure.startswith("wb-query["):
            st = obs["after"]["query"]
            return "F-C34g" if case["path0"] == "*" and "exc" not in st and st["path"] == "" else None
        if k in ("form", "formwb") and (failure.startswith("form[") or failure.startswith("form-writeback[")):
            if k == "form" and not failure.startswith("form["): return None
            pairs, back = (case["pairs"], obs["back"]) if k == "form" else (obs["v0"], obs["v1"])
            bare = bool(obs["text0"]) and any("=" not in p for p in obs["text0"].split("&"))
            return "F-C34e" if bare and ["", ""] in pairs and [p for p in pairs if p != ["", ""]] == back else None
        return None

    def known_selftest(self):
        """near-miss triples for every classifier (frozen observations: independent of the tree under test)"""
        H = lambda b: hx(b)
        mp = lambda parts, back, back2=None, ct="multipart/form-data; boundary=XX": (
            {"k": "multipart", "ct": ct, "parts": [[H(a), H(b)] for a, b in parts], "body0": None},
            {"set": "ok", "ct2": ct, "body_hex": "-", "back": [[H(a), H(b)] for a, b in back],
             "back2": [[H(a), H(b)] for a, b in (back if back2 is None else back2)]})
        T = []
        # F-C34a: line breaks dropped — and only that
        T.append((*mp([(b"k", b"l1\r\nl2")], [(b"k", b"l1l2")]), "multipart[value-linebreak]: x", "F-C34a"))
        T.append((*mp([(b"k", b"l1\r\nl2")], [(b"k", b"l1")]), "multipart[value-linebreak]: x", None))            # same class, other loss
        T.append((*mp([(b"k", b"l1\r\nl2"), (b"j", b"w")], [(b"k", b"l1l2")]), "multipart[value-linebreak]: x", None))   # part lost
        T.append((*mp([(b"k", b"l1 l2")], [(b"k", b"l1l2")]), "multipart[other]: x", None))                         # outside the class
        # F-C34b: key cut at the quote / part with a broken key dropped
        T.append((*mp([(b'k"q', b"v")], [(b"k", b"v")]), "multipart[key-quote-or-linebreak]: x", "F-C34b"))
        T.append((*mp([(b"a\r\nb", b"v"), (b"c", b"d")], [(b"c", b"d")]), "multipart[key-quote-or-linebreak]: x", "F-C34b"))
        T.append((*mp([(b'k"q', b"v")], [(b"k", b"")]), "multipart[key-quote-or-linebreak]: x", None))              # value lost too
        T.append((*mp([(b"kq", b"v")], [(b"k", b"v")]), "multipart[other]: x", None))                               # no quote in the key
        # F-C34c: escaped boundary → empty read-back
        T.append((*mp([(b"k", b"v")], [], ct="multipart/form-data; boundary=a:b"), "multipart[boundary-escaped]: x", "F-C34c"))
        T.append((*mp([(b"k", b"v")], [(b"k", b"")], ct="multipart/form-data; boundary=a:b"), "multipart[boundary-escaped]: x", None))
        T.append((*mp([(b"k", b"v")], [], ct="multipart/form-data; boundary=XX"), "multipart[other]: x", None))
        # F-C34d
        T.append(({"k": "path", "comps": ["a", ""], "path0": "/p"}, {"path": "/a/", "path2": "/a"}, "path-writeback[empty-segment]: x", "F-C34d"))
        T.append(({"k": "path", "comps": ["a", ""], "path0": "/p"}, {"path": "/a/", "path2": "/b"}, "path-writeback[empty-segment]: x", None))
        T.append(({"k": "path", "comps": ["a"], "path0": "/p"}, {"path": "/a", "path2": "/"}, "path-writeback[other]: x", None))
        wbobs = lambda view, path: {"after": {view: {"path": path}}}
        T.append(({"k": "wb", "path0": "//a/b?v=1"}, wbobs("path_components", "/a/b?v=1"), "wb-path_components[empty-segment]: x", "F-C34d"))
        T.append(({"k": "wb", "path0": "//a/b?v=1"}, wbobs("path_components", "/b?v=1"), "wb-path_components[other]: x", None))
        T.append(({"k": "wb", "path0": "//a/b?v=1"}, wbobs("query", "/a/b?v=1"), "wb-query[other]: x", None))
        # F-C34g
        T.append(({"k": "wb", "path0": "*"}, wbobs("query", ""), "wb-query[asterisk]: x", "F-C34g"))
        T.append(({"k": "wb", "path0": "*"}, wbobs("path_components", "/"), "wb-path_components[asterisk]: x", "F-C34g"))
        T.append(({"k": "wb", "path0": "*"}, wbobs("query", "/x"), "wb-query[asterisk]: x", None))
        T.append(({"k": "wb", "path0": "/*"}, wbobs("query", ""), "wb-query[other]: x", None))
        T.append(({"k": "wb", "path0": "*"}, wbobs("cookies", ""), "wb-cookies[other]: x", None))
        # F-C34e
        fobs = lambda back, text0: {"back": back, "text0": text0, "body_hex": "-"}
        fc = {"k": "form", "pairs": [["a", "b"], ["", ""]], "body0": "a&b=2", "ct": None}
        T.append((fc, fobs([["a", "b"]], "a&b=2"), "form[empty-pair-bare-style]: x", "F-C34e"))
        T.append((fc, fobs([], "a&b=2"), "form[empty-pair-bare-style]: x", None))                   # more than the empty pair lost
        T.append((fc, fobs([["a", "b"]], "a=1&b=2"), "form[other]: x", None))                       # no bare parameter in the old body
        T.append(({"k": "formwb", "body0": "a&=", "ct": None}, {"v0": [["a", ""], ["", ""]], "v1": [["a", ""]], "text0": "a&="},
                  "form-writeback[empty-pair-bare-style]: x", "F-C34e"))
        T.append(({"k": "formwb", "body0": "a=1", "ct": None}, {"v0": [["a", "1"]], "v1": [["x", ""]], "text0": "a=1"}, "form-writeback[other]: x", None))
        # F-C34f
        sv = [["a", "b", [["path", "/x;y"]]]]
        T.append(({"k": "setcookiehdr", "hdrs": ['a=b; path="/x;y"']}, {"view": sv, "view2": [["a", "b", [["path", "/x"], ["y", None]]]]},
                  "setcookie-writeback: x", "F-C34f"))
        T.append(({"k": "setcookiehdr", "hdrs": ['a=b; path="/x;y"']}, {"view": sv, "view2": [["z", "b", [["path", "/x"], ["y", None]]]]},
                  "setcookie-writeback: x", None))                                                   # the cookie's own name changed
        T.append(({"k": "setcookiehdr", "hdrs": ["a=b; path=/x"]}, {"view": [["a", "b", [["path", "/x"]]]], "view2": [["a", "b", []]]},
                  "setcookie-writeback: x", None))                                                   # no offending value in the view
        T.append(({"k": "setcookiehdr", "hdrs": ["a=b; expires=0; path=/x"]}, {"view": [["a", "b", [["expires", "0"], ["path", "/x"]]]],
                  "view2": [["a", "b", [["expires", "0,"]]]]}, "setcookie-writeback: x", None))      # short expires: repaired (e0e81be4a), not excused
        T.append(({"k": "setcookiehdr", "hdrs": ['a=b; path="/x;y"', "c=d"]},
                  {"view": sv + [["c", "d", []]], "view2": [["a", "b", [["path", "/x"], ["y", None]]], ["c", "D", []]]}, "setcookie-writeback: x", None))
        for case, obs, failure, want in T:
            got = self.known(case, obs, failure)
            assert got == want, ("known() selftest", case, failure, "expected", want, "got", got)

    def setup(self, tier):
        self.known_selftest()

    # ------------------------------------------------------------------ model tie
    @staticmethod
    def _pairs_field(pairs):
        """k1=v1,k2=v2 with code-point hex; a missing value (None) is written `!`"""
        return ",".join("%s=%s" % (cps(a), "!" if b is None else cps(b)) for a, b in pairs) or "-"

    def model_lines(self, case):
        k = case["k"]
        if k == "cookie":
            return ["ckfmt " + self._pairs_field(case["pairs"])]
        if k == "cookiehdr":
            return ["ckparse " + cps(h) for h in case["hdrs"]]
        if k == "setcookie":
            per = [self._pairs_field([(n, v)] + [tuple(a) for a in attrs]) for n, v, attrs in case["cookies"]]
            return ["scfmt " + x for x in per] + [" ".join(["scset"] + per)]
        if k == "setcookiehdr":
            return ["scparse " + cps(h) for h in case["hdrs"]] + [" ".join(["scview"] + [cps(h) for h in case["hdrs"]])]
        if k == "target":
            import urllib.parse
            from mitmproxy.net.http import url as nurl
            sc, p0 = cps(case["scheme"]), cps(case["path0"])
            comps = ",".join(cps(nurl.quote(c, safe="")) for c in case["comps"]) or "none"
            return ["tparts %s %s" % (sc, p0), "tset %s %s path %s -" % (sc, p0, comps),
                    "tset %s %s query none %s" % (sc, p0, cps(nurl.encode([tuple(p) for p in case["pairs"]])))]
        if k in ("form", "formwb"):
            # url.encode(pairs, similar_to) with urllib's urlencode as the parameter: the style imitation (bare parameters) is the model's
            import urllib.parse
            hd = [] if case["ct"] is None else [(b"content-type", case["ct"].encode())]
            body = b"" if case.get("body0") is None else case["body0"].encode(case.get("benc") or "utf-8")
            r = self._req(headers=hd, content=body)
            similar = self._text_seen_by_setter(r)
            pairs = [tuple(p) for p in case["pairs"]] if k == "form" else list(r.urlencoded_form.fields)
            return ["formenc %s %s" % (cps(urllib.parse.urlencode(pairs, False, errors="surrogateescape")), cps(similar)),
                    "formglue %s" % ("none" if case["ct"] is None else cps(case["ct"]))]
        if k in ("multipart", "mpbody"):
            if k == "mpbody":
                b = self._boundary(case["ct"])
                return ["mpdec %s %s" % (hx(b), case["body_hex"])]
            ct = case["ct"] or ""
            if not ct.lower().startswith("multipart/form-data"): return None       # random boundary: no model counterpart
            b = self._boundary(ct)
            if b is None: return None
            import mimetypes
            parts = [(unhx(a), unhx(b_)) for a, b_ in case["parts"]]
            cts = [(mimetypes.guess_type(str(kk))[0] or "text/plain; charset=utf-8").encode() for kk, _ in parts]
            return ["mprt %s %s %s" % (hx(_uq(b).encode()), hx(b),
                                       ",".join("%s=%s=%s" % (hx(kk), hx(vv), hx(c)) for (kk, vv), c in zip(parts, cts)) or "-")]
        return None

    def model_obs(self, case, replies):
        return replies

    def impl_view(self, case, obs):
        k = case["k"]
        if k == "cookie":
            return ["%s %s" % (cps(obs["hdr"][0]), self._pairs_field(obs["back"]))]
        if k == "cookiehdr":
            # per header: the pairs parse_cookie_header finds
            return [self._pairs_field([tuple(p) for p in nck.parse_cookie_header(h)]) for h in case["hdrs"]]
        if k == "setcookie":
            out = []
            for hdr, (n, v, attrs) in zip(obs["hdr"], obs["back"] + [None] * len(obs["hdr"])):
                pass
            # one header per cookie; what each header parses to (all cookies found in it, flattened with `|`)
            for hdr in obs["hdr"]:
                out.append("%s %s" % (cps(hdr), self._sc_parsed(hdr)))
            out.append("%s | %s" % (" ".join(cps(h) for h in obs["hdr"]) or "none", self._sc_view(obs["back"])))
            return out
        if k == "setcookiehdr":
            return [self._sc_parsed(h) for h in case["hdrs"]] + [self._sc_view(obs["view"])]
        if k == "multipart":
            if obs["set"] != "ok": return ["raise"]
            return ["%s %s" % (obs["body_hex"], ",".join("%s=%s" % (a, b) for a, b in obs["back"]) or "-")]
        if k == "target":
            return [" ".join(cps(x) for x in obs["parts"]), cps(obs["path_pc"]), cps(obs["path_q"])]
        if k in ("form", "formwb"):
            return [cps(unhx(obs["body_hex"]).decode("ascii")),
                    "%d %s" % (1 if obs["isform"] else 0, "none" if obs["ct2"] is None else cps(obs["ct2"]))]
        if k == "mpbody":
            return ["raise" if obs["dec"] == "ValueError" else (",".join("%s=%s" % (a, b) for a, b in obs["dec"]) or "-")]
        return None

    def _sc_view(self, view):
        """the Response.cookies view ([[name, value, attrs]…]) in the driver's rendering"""
        return "|".join(self._pairs_field([(n, v)] + [tuple(a) for a in attrs]) for n, v, attrs in view) or "none"

    def _sc_parsed(self, hdr):
        cookies, _ = nck._read_set_cookie_pairs(hdr)
        return "|".join(self._pairs_field(c) for c in cookies)

    def classify(self, case, obs):
        if case["k"] in ("wb", "hist", "target"): return json.dumps(case, sort_keys=True)
        triv = {"cookie": "pairs", "cookiehdr": "hdrs", "setcookie": "cookies", "setcookiehdr": "hdrs", "multipart": "parts", "query": "pairs",
                "form": "pairs", "path": "comps"}.get(case["k"])
        if triv and not case[triv]: return None
        return json.dumps(case, sort_keys=True)

    def branches(self, case, obs):
        k = case["k"]
        out = ["kind:" + k]
        if k == "cookie":
            out.append("representable" if ck_representable(case["pairs"]) else "not-representable")
            if any(nck._has_special(v) for _, v in case["pairs"]): out.append("cookie:quoted-value")
        if k == "setcookie":
            out.append("representable" if all(sc_representable(*c) for c in case["cookies"]) else "not-representable")
        if k == "hist":
            out += ["hist:" + case["view"]] + ["hist-op:" + o for o in set(case["ops"])]
        if k in ("form", "formwb"):
            ct = case["ct"] or ""
            p_ = nh.parse_content_type(ct)
            out.append("form-ct:" + ("none" if not ct else "not-form" if "x-www-form-urlencoded" not in ct.lower() else
                                     "charset=" + str((p_[2].get("charset") if p_ else None) or "absent").lower()[:10]))
            out.append("form-body:" + ("consistent" if case.get("benc") == form_charset(case["ct"]) else "inconsistent"))
        if k in ("wb", "query", "path", "target"):
            p0 = case["path0"]
            for tag, cond in (("lead//", p0.startswith("//")), ("://", "://" in p0), (";params", ";" in p0.split("?")[0]), ("#", "#" in p0),
                              ("??", p0.count("?") > 1), ("empty", p0 == ""), ("*", p0 == "*"), ("%2F", "%2F" in p0), ("non-ascii", any(ord(c) > 127 for c in p0))):
                if cond: out.append("target:" + tag)
        if k == "multipart":
            out.append("mp:" + obs["set"])
            if case["ct"] is None or not case["ct"].startswith("multipart"): out.append("mp:random-boundary")
            if any(c in unhx(v) for _, v in case["parts"] for c in b"\r\n"): out.append("mp:value-linebreak")
        return out

    def neighbours(self, case, rng):
        if case["k"] == "cookie":
            for i in range(len(case["pairs"])):
                yield {"k": "cookie", "pairs": case["pairs"][:i] + case["pairs"][i + 1:]}
                yield {"k": "cookie", "pairs": [case["pairs"][i]]}

    def exhaustive(self, tier):
        small = ["", "a", " ", ";", "=", '"', "\\", ",", "é", "\t"]
        for k, v in itertools.product(small, repeat=2):
            yield {"k": "cookie", "pairs": [[k, v]]}
            yield {"k": "cookie", "pairs": [[k, v], ["y", "2"]]}
